"""C19 - Collection: falsy members, termination on cyclic chains, chain upkeep
(DESIGN.md §2 C19)."""
from __future__ import annotations

import ast

from vlib import loops, truthy
from vlib.cfg import CFG
from vlib.core import AnalysisError, Repo, Report, norm, own_nodes

EXPLANATION = (
    "Rules over rdflib/collection.py and Graph.items: (a) members/cells are tested by identity, never truthiness "
    "(falsy members 0/''/false behave like any other), (b) every rdf:rest link walk terminates on a cyclic chain "
    "(counter bound, visited set that raises, or consumption of the link), (c) the Collection keeps no cached cell "
    "that a cell-deleting method fails to refresh, (d) appenders always terminate the chain with rdf:nil, clear "
    "removes both links of every cell, and a cell deletion is paired with a relink. Index arithmetic (negative "
    "indices, IndexError vs KeyError, head deletion) is value reasoning and not decided. (l) list nodes / cells (IdentifiedNode-typed, Optional "
    "or not) are never truth-tested either (<> is a falsy str), (m) every non-consuming rdf:rest walk raises on a revisited cell (a counter "
    "bound alone is not enough), (n) a wildcard-predicate removal never hits a subject that may be the list node, (o) a link-by-link removal hits the list node only "
    "(every other cell is dropped whole), (p) a wildcard removal never hits rdf:nil, (q) a remove-then-add replacement (Graph.set) checks the new value before it removes the "
    "old, (r) in Collection the write that the graph may refuse is the first change of its pass, (s) member loops of the list classes reach the next member and value-returning "
    "methods return on every path."
)


def _graph_aliases(fn: ast.AST) -> set[str]:
    out = {"self.graph"}
    for n in own_nodes(fn):
        if isinstance(n, ast.Assign) and norm(n.value) == "self.graph" and isinstance(n.targets[0], ast.Name):
            out.add(n.targets[0].id)
    return out


def _gcall(c: ast.AST, aliases: set[str], meths: set[str]) -> bool:
    return isinstance(c, ast.Call) and isinstance(c.func, ast.Attribute) and c.func.attr in meths and norm(c.func.value) in aliases


def run(repo: Repo, rep: Report) -> None:
    rep.extra["explanation"] = EXPLANATION
    col = repo.mod("rdflib.collection")
    gr = repo.mod("rdflib.graph")
    methods = col.methods("Collection")
    scope = [(col, "Collection." + m, f) for m, f in methods.items()] + [(gr, "Graph.items", gr.func("Graph.items"))]
    for mod, q, f in scope:
        rep.analysed("%s:%s" % (mod.rel, q))

    # (a)
    rep.rule("C19.a-members-by-identity",
             "in Collection and Graph.items, absence of a member/cell is decided by identity with None (or by a "
             "pattern membership test), never by the truthiness of a term that may be a falsy Literal", floor=3)
    for mod, q, f in scope:
        truthy.scan(repo, rep, "C19.a-members-by-identity", mod, f, q)

    # (b)
    rep.rule("C19.b-link-walk-terminates",
             "every loop (while or for) that follows rdf:rest from its own cursor is bounded by a counter / runs a number of rounds fixed "
             "beforehand (for .. in range), is guarded by a visited set whose membership test leaves the loop (written out, or kept by an "
             "object of a package class whose method raises on a value it has recorded and records it otherwise), or removes the link it follows", floor=5)
    from vlib import h_c19 as _Hb

    for mod, q, f in scope:
        for loop, cur in _Hb.link_walks(f):
            why = _Hb.walk_terminates(repo, mod, f, loop, cur)
            rep.ob("C19.b-link-walk-terminates", mod, q, "%s: ... %s = rdf:rest of %s" % (_Hb.loop_head_text(loop), cur, cur), why is not None,
                   why or "no counter, visited-set guard or link removal: the walk never ends on a cyclic rdf:rest chain", node=loop)
    # readers must go through a guarded walk: __len__/__iter__ delegate to Graph.items
    for m in ("__len__", "__iter__"):
        f = methods.get(m)
        if f is None:
            raise AnalysisError("Collection.%s vanished" % m)
        deleg = any(isinstance(c, ast.Call) and norm(c.func) == "self.graph.items" for c in ast.walk(f))
        own_loop = any(isinstance(n, (ast.While, ast.For)) for n in own_nodes(f))
        rep.ob("C19.b-link-walk-terminates", col, "Collection." + m, "delegates to Graph.items (guarded walk)", deleg or not own_loop,
               "reads through the cycle-checked Graph.items" if deleg else "walks the chain itself", node=f)

    # (c) derived state
    rep.rule("C19.c-no-stale-cell-cache",
             "an attribute of Collection assigned outside __init__ (derived state such as a cached tail cell) is "
             "re-assigned on every normal path after any statement that deletes a cell (remove((x, None, None)) / "
             "remove((x, RDF.first, None)))", floor=1)
    derived: dict[str, list[str]] = {}
    for m, f in methods.items():
        if m == "__init__":
            continue
        for n in own_nodes(f):
            if isinstance(n, (ast.Assign, ast.AugAssign, ast.AnnAssign)):
                tg = n.targets if isinstance(n, ast.Assign) else [n.target]
                for t in tg:
                    if isinstance(t, ast.Attribute) and isinstance(t.value, ast.Name) and t.value.id == "self":
                        derived.setdefault(t.attr, []).append(m)
    rep.info["derived_state_attributes"] = derived
    ncell = 0
    for m, f in methods.items():
        al = _graph_aliases(f)
        g = None
        for c in own_nodes(f):
            if _gcall(c, al, {"remove"}) and c.args and isinstance(c.args[0], ast.Tuple) and len(c.args[0].elts) == 3:
                s, p, o = c.args[0].elts
                cell_del = (isinstance(p, ast.Constant) and p.value is None) or (isinstance(p, ast.Attribute) and p.attr == "first")
                if not cell_del:
                    continue
                ncell += 1
                if g is None:
                    g = CFG(f)
                cn = g.node_of(c, col)
                missing = []
                for attr in derived:
                    assigns = set()
                    for nd in g.nodes:
                        st = nd.ast
                        if nd.kind == "stmt" and isinstance(st, (ast.Assign, ast.AnnAssign)):
                            tg = st.targets if isinstance(st, ast.Assign) else [st.target]
                            if any(norm(t) == "self." + attr for t in tg):
                                assigns.add(nd.id)
                    if not g.must_pass_after(cn, assigns):
                        missing.append(attr)
                rep.ob("C19.c-no-stale-cell-cache", col, "Collection." + m, c, not missing,
                       "no derived state to refresh" if not derived else ("derived state refreshed after the deletion" if not missing else
                       "cell deleted but cached attribute(s) %s (assigned in %s) are not refreshed on every path: a later operation may start from a detached cell" % (missing, {a: derived[a] for a in missing})),
                       node=c)
    if ncell < 2:
        raise AnalysisError("expected >= 2 cell deletions in Collection, found %d" % ncell)

    # (d) chain upkeep
    rep.rule("C19.d-chain-upkeep",
             "append/__iadd__ end every normal path with add((end, rdf:rest, rdf:nil)) after the last rdf:first they "
             "add; clear removes rdf:first and rdf:rest of each visited cell; __delitem__ pairs each cell deletion "
             "with a relink of the predecessor", floor=5)
    def _worker(f0):
        """the method that writes the new cell: f0 itself, or the Collection method it hands each item to (`self._append(end, item)`)"""
        def has_first(fn):
            return any(isinstance(c, ast.Call) and isinstance(c.func, ast.Attribute) and c.func.attr in ("add", "set") and c.args and isinstance(c.args[0], ast.Tuple)
                       and len(c.args[0].elts) == 3 and isinstance(c.args[0].elts[1], ast.Attribute) and c.args[0].elts[1].attr == "first" for c in own_nodes(fn))
        if has_first(f0):
            return f0
        # (a plain call `self.h(end, item)`, or h applied to the items by a higher-order callable: `functools.reduce(self.h, items, end)`)
        for _c, hname, _over, _args in _Hb.method_uses(col, f0, methods):
            if has_first(methods[hname]):
                return methods[hname]
        return f0

    for m in ("append", "__iadd__"):
        f = methods.get(m)
        if f is None:
            raise AnalysisError("Collection.%s vanished" % m)
        f = _worker(f)
        al = _graph_aliases(f)
        g = CFG(f)
        nil_adds = set()
        first_adds = []
        for c in own_nodes(f):
            if _gcall(c, al, {"add", "set"}) and c.args and isinstance(c.args[0], ast.Tuple) and len(c.args[0].elts) == 3:
                s, p, o = c.args[0].elts
                if isinstance(p, ast.Attribute) and p.attr == "rest" and isinstance(o, ast.Attribute) and o.attr == "nil":
                    nil_adds.add(g.node_of(c, col))
                if isinstance(p, ast.Attribute) and p.attr == "first":
                    first_adds.append(c)
        if not first_adds:
            raise AnalysisError("Collection.%s adds no rdf:first" % m)
        for c in first_adds:
            ok = g.must_pass_after(g.node_of(c, col), nil_adds)
            rep.ob("C19.d-chain-upkeep", col, "Collection." + m, c, ok,
                   "every path from this rdf:first to the return closes the chain with rdf:nil" if ok else
                   "a path adds a member but returns without (end, rdf:rest, rdf:nil): the chain is left open", node=c)
        # occupancy of the end cell decided by a pattern membership test (not value truthiness: covered by (a))
    f = methods.get("clear")
    if f is None:
        raise AnalysisError("Collection.clear vanished")
    al = _graph_aliases(f)
    removed = set()
    for c in own_nodes(f):
        if _gcall(c, al, {"remove"}) and c.args and isinstance(c.args[0], ast.Tuple):
            p = c.args[0].elts[1]
            if isinstance(p, ast.Attribute):
                removed.add(p.attr)
            elif isinstance(p, ast.Constant) and p.value is None:
                removed |= {"first", "rest"}
    rep.ob("C19.d-chain-upkeep", col, "Collection.clear", "removes rdf:first and rdf:rest of each cell", {"first", "rest"} <= removed,
           "both links removed" if {"first", "rest"} <= removed else "clear leaves %s triples behind (orphaned cells)" % sorted({"first", "rest"} - removed), node=f)
    f = methods.get("__delitem__")
    if f is None:
        raise AnalysisError("Collection.__delitem__ vanished")
    al = _graph_aliases(f)
    g = CFG(f)
    relinks = set()
    dels = []
    for c in own_nodes(f):
        if _gcall(c, al, {"set", "add"}) and c.args and isinstance(c.args[0], ast.Tuple) and len(c.args[0].elts) == 3:
            p = c.args[0].elts[1]
            if isinstance(p, ast.Attribute) and p.attr == "rest":
                relinks.add(g.node_of(c, col))
        if _gcall(c, al, {"remove"}) and c.args and isinstance(c.args[0], ast.Tuple):
            dels.append(c)
    for c in dels:
        cn = g.node_of(c, col)
        ok = g.must_pass_before(cn, relinks) or g.must_pass_after(cn, relinks)
        only_member = False
        if not ok:
            # deleting the only member needs no relink: on every path to the deletion a branch has established that the deleted cell's
            # rdf:rest - a name bound to <graph>.value(<the cell>, rdf:rest) by every definition that reaches here - is rdf:nil or absent,
            # whichever way the test is written (`n is None or n == nil` taken, `n is not None and n != nil` not taken, a guard clause ...)
            from vlib import h_c19 as _Hd

            subj = norm(_Hd.strip_cast(c.args[0].elts[0]))
            only_member = any(_Hd.fact_on_every_path(g, cn, nm, _Hd.atom_none_or_nil(nm)) for nm in sorted(_Hd.successor_names(g, cn, f, subj)))
            ok = only_member
        rep.ob("C19.d-chain-upkeep", col, "Collection.__delitem__", c, ok,
               ("the deleted cell has no successor (only member): nothing to relink" if only_member else "cell deletion paired with a relink of rdf:rest on the same path") if ok else
               "a path deletes a cell without relinking its predecessor: the chain is broken", node=c)
    if not dels:
        raise AnalysisError("Collection.__delitem__ deletes no cell")

    # ------------------------------------------------------------------ (e) errors of guarded walks are not swallowed
    rep.rule("C19.e-walk-errors-propagate",
             "no Collection method catches ValueError/Exception (or everything) around a call to one of the chain walks (index, _end, _get_container, "
             "graph.items, iteration) without re-raising: a cyclic or broken chain must raise, not be reported as `absent`", floor=1)
    # the chain walks, by role: Graph.items, the readers that delegate to it, and every Collection method that holds an rdf:rest walk or
    # reaches one through self (on the pinned tree: index, _end, _get_container and their callers)
    from vlib import h_c19 as _He

    walks = {"items", "__iter__", "__len__"} | {mn for mn in methods if _He.walk_reached_from(methods, mn)}
    if not {"index", "__getitem__", "append"} <= walks:
        raise AnalysisError("Collection.index / __getitem__ / append reach no rdf:rest walk: rule (e) has lost its anchor")
    nh = 0
    for mname, f in methods.items():
        for t in [n for n in own_nodes(f) if isinstance(n, ast.Try)]:
            calls_walk = any(isinstance(c, ast.Call) and isinstance(c.func, ast.Attribute) and c.func.attr in walks for s_ in t.body for c in ast.walk(s_))
            if not calls_walk:
                continue
            for h in t.handlers:
                nh += 1
                tn = norm(h.type) if h.type is not None else "<bare>"
                broad = h.type is None or any(x in tn for x in ("ValueError", "Exception", "BaseException"))
                reraises = any(isinstance(x, ast.Raise) for s_ in h.body for x in ast.walk(s_))
                rep.ob("C19.e-walk-errors-propagate", col, "Collection." + mname, "except %s around a chain walk" % tn, (not broad) or reraises,
                       "narrow / re-raising handler" if (not broad) or reraises else
                       "the handler swallows %s raised by a chain walk: `List contains a recursive rdf:rest reference` is turned into an ordinary answer" % tn, node=h)
    if nh == 0:
        rep.ob("C19.e-walk-errors-propagate", col, "Collection", "no handler encloses a chain walk", True, "nothing can swallow a walk's error", node=col.cls("Collection"))

    # ------------------------------------------------------------------ (f) mutate only over materialised walks / fresh cells
    rep.rule("C19.f-mutating-loops-and-fresh-cells",
             "a loop in Collection whose body removes or re-links cells does not iterate a lazy walk of the same chain (a generator method / "
             "graph iterator): it uses its own cursor or a materialised list, and no statement looks up the rdf:rest of a cell later in the same pass than the removal of that "
             "cell's rdf:rest link (the successor is read first); every new cell is an argument-free BNode()", floor=2)
    gens = {m for m, f in methods.items() if any(isinstance(x, (ast.Yield, ast.YieldFrom)) for x in own_nodes(f))}
    for mname, f in methods.items():
        al = _graph_aliases(f)
        for lp in [n for n in own_nodes(f) if isinstance(n, ast.For)]:
            muts = [c for s_ in lp.body for c in ast.walk(s_) if _gcall(c, al, {"remove", "set"})]
            if not muts:
                continue
            it = lp.iter
            lazy = None
            if isinstance(it, ast.Call) and isinstance(it.func, ast.Attribute):
                if isinstance(it.func.value, ast.Name) and it.func.value.id == "self" and it.func.attr in gens:
                    lazy = "self.%s() is a generator over the chain" % it.func.attr
                if norm(it.func.value) in al and it.func.attr in ("items", "objects", "triples", "subjects", "predicate_objects", "transitive_objects"):
                    lazy = "%s is a live iterator over the graph" % norm(it)[:40]
            if isinstance(it, ast.Name) and it.id == "self":
                lazy = "iterating the collection itself"
            rep.ob("C19.f-mutating-loops-and-fresh-cells", col, "Collection." + mname, "for %s in %s" % (norm(lp.target), norm(it)[:50]), lazy is None,
                   "iterates a materialised / independent sequence while editing cells" if lazy is None else
                   "cells are removed/re-linked while %s: the walk loses its way after the first edit and the remaining cells stay behind as orphans" % lazy, node=lp)
    # the same clause for a walk with its own cursor (which is what a loop over a generator of cells is, once the generator is written out in
    # place): the successor of a cell is looked up BEFORE the cell's rdf:rest link is removed - never later in the same pass
    from vlib import h_c19 as _H

    for mname, f in methods.items():
        al = _graph_aliases(f)
        g = None
        for c in own_nodes(f):
            if not (_gcall(c, al, {"remove"}) and c.args and isinstance(c.args[0], ast.Tuple) and len(c.args[0].elts) == 3):
                continue
            s_, p_, _o = c.args[0].elts
            if not (isinstance(s_, ast.Name) and (loops._is_rest(p_) or (isinstance(p_, ast.Constant) and p_.value is None))):
                continue
            if g is None:
                g = CFG(f)
            late = _H.successor_read_after_unlink(g, g.node_of(c, col), s_.id)
            rep.ob("C19.f-mutating-loops-and-fresh-cells", col, "Collection." + mname, c, late is None,
                   "no lookup of the rdf:rest of %s follows in the same pass" % s_.id if late is None else
                   "the rdf:rest link of %s is removed and `%s` asks the graph for it afterwards: the walk ends (or the re-link is lost) after this cell and the cells behind it stay in the graph as orphans" % (s_.id, norm(late)[:70]), node=c)
    for mname, f in methods.items():
        for c in own_nodes(f):
            if isinstance(c, ast.Call) and norm(c.func) == "BNode":
                ok = not c.args and not c.keywords
                rep.ob("C19.f-mutating-loops-and-fresh-cells", col, "Collection." + mname, c, ok,
                       "fresh cell" if ok else "a new cell is named from data (%s): after deletions the name can coincide with a cell still in the chain" % norm(c)[:60], node=c)


from vlib.core import layer as _layer  # noqa: E402

_run_base = run


def run(repo: Repo, rep: Report) -> None:  # noqa: F811
    _layer(rep, _run_base, repo)
    col = repo.mod("rdflib.collection")
    m = col.methods("Collection")
    from vlib import h_c19 as _Hc

    # the method that maps an index to its cell - private, so found by its role from the public __getitem__ (h_c19.cell_lookup_method)
    gc_name = _Hc.cell_lookup_method(m)
    if gc_name is None:
        raise AnalysisError("Collection.__getitem__ hands its index to no method of the class that finds a cell by an rdf:rest walk: rules (g)-(i) have lost their anchor")
    _Hc.CELL_LOOKUP = gc_name
    gc = m[gc_name]
    idx = gc.args.args[1].arg

    # ------------------------------------------------------------------ (g)
    rep.rule("C19.g-nil-is-not-a-cell",
             "Collection._get_container, the only source of the cell that __getitem__/__setitem__/__delitem__ read and write, never returns rdf:nil: the walk stops being a cell at "
             "rdf:nil (returns None, which the callers turn into IndexError). Returning rdf:nil for index == len makes `c[len(c)] = x` assert rdf:first on rdf:nil itself - the shared "
             "terminator of every list in the graph", floor=2)
    cur = None
    for n in own_nodes(gc):
        if isinstance(n, ast.Assign) and isinstance(n.targets[0], ast.Name) and "RDF.rest" in norm(n.value):
            pass
    rets = [r for r in own_nodes(gc) if isinstance(r, ast.Return) and r.value is not None and not (isinstance(r.value, ast.Constant) and r.value.value is None)]
    if not rets:
        raise AnalysisError("%s: no value return" % gc_name)
    # Stated on values and paths: every value a return can hand out (each arm of a conditional expression is a return of its own: `return None if c == nil
    # else c` is `if c == nil: return None / return c`) is None, or a name for which `!= rdf:nil` is established where it is returned - by the test of
    # the conditional expression that selects it, or by a branch edge on every path to the return (h_c19.never_nil_at_return)
    g_gc = CFG(gc)
    for r in rets:
        for val, conds in _Hc.returned_alternatives(r.value):
            if _Hc._none(val):
                continue
            cur = norm(val)
            ok = _Hc.never_nil_at_return(g_gc, col, r, val, conds)
            if ok is None:
                # not a plain name: the guard has to be written on the same expression, before the return
                ok = bool([n for n in own_nodes(gc) if isinstance(n, ast.If) and n.lineno < r.lineno and any(isinstance(c, ast.Compare) and {norm(c.left), norm(c.comparators[0])} == {cur, "RDF.nil"} for c in ast.walk(n.test))
                           and any(isinstance(x, ast.Return) and (x.value is None or (isinstance(x.value, ast.Constant) and x.value.value is None)) for x in n.body)])
            rep.ob("C19.g-nil-is-not-a-cell", col, "Collection." + gc_name, "return %s" % cur, ok,
                   "rdf:nil is mapped to None before the return" if ok else
                   "for index == len(list) the walk ends on rdf:nil and returns it as if it were a cell: __getitem__ raises KeyError instead of IndexError, and __setitem__ writes (rdf:nil rdf:first x) into the graph", node=r)
    for name in ("__getitem__", "__setitem__"):
        f = m[name]
        raises = any(isinstance(n, ast.Raise) and "IndexError" in norm(n) for n in own_nodes(f))
        rep.ob("C19.g-nil-is-not-a-cell", col, "Collection." + name, "missing cell -> IndexError", raises, "" if raises else "no IndexError raised for a missing cell", node=f)
    # __setitem__: when the addressed cell does not exist, nothing is written (a list raises IndexError for every index outside range(len))
    # Stated on paths, not on the shape of the if: the addressed cell is the plain name that is the subject of the rdf:first write; it
    # exists when it is not None and holds a member, (cell, rdf:first, ..) in graph.  A statement that writes is in order when both facts
    # have been established by branch edges on EVERY path to it (either arm of an if, a guard clause, De Morgan forms: h_c19.edge_establishes);
    # a write some path reaches without them is a write for an index outside range(len)
    from vlib import h_c19 as _Hg

    f = m["__setitem__"]
    g_si = CFG(f)
    cells = sorted({_Hg.strip_cast(c.args[0].elts[0]).id for c in own_nodes(f)
                    if isinstance(c, ast.Call) and isinstance(c.func, ast.Attribute) and c.func.attr in ("set", "add") and c.args and isinstance(c.args[0], ast.Tuple)
                    and len(c.args[0].elts) == 3 and _Hg._is_first(c.args[0].elts[1]) and isinstance(_Hg.strip_cast(c.args[0].elts[0]), ast.Name)})
    if not cells:
        raise AnalysisError("Collection.__setitem__ writes no (cell, rdf:first, value) with a plain name for the cell: rule (g) has lost its anchor")
    write_stmts: dict[int, ast.AST] = {}
    for c in own_nodes(f):
        if (isinstance(c, ast.Call) and isinstance(c.func, ast.Attribute) and c.func.attr in ("append", "add", "set", "__iadd__", "addN", "remove")) or (
                isinstance(c, ast.AugAssign) and norm(c.target) == "self"):
            nid = g_si.node_of(c, col)
            write_stmts.setdefault(nid, g_si.nodes[nid].ast)
    for nid in sorted(write_stmts):
        st = write_stmts[nid]
        if not g_si.reachable(nid):
            continue
        exists = any(_Hg.fact_on_every_path(g_si, nid, cell, _Hg.atom_not_none(cell)) and _Hg.fact_on_every_path(g_si, nid, cell, _Hg.atom_holds_member(cell)) for cell in cells)
        if not exists:
            rep.ob("C19.g-nil-is-not-a-cell", col, "Collection.__setitem__", st, False,
                   "a path reaches this write on which the addressed cell does not exist (%s is None, or holds no rdf:first): the list is modified instead of IndexError being raised" % "/".join(cells), node=st)
        else:
            rep.ob("C19.g-nil-is-not-a-cell", col, "Collection.__setitem__", st, True, "only where the addressed cell exists and holds a member", node=st)

    # ------------------------------------------------------------------ (h)
    rep.rule("C19.h-negative-index-counts-from-the-end",
             "an index below zero is normalised by adding the length (in _get_container, and in __delitem__ before it does arithmetic on the key) - a walk `while i < index` "
             "with a negative index does not move and silently addresses the first cell: c[-1] reads, writes and deletes element 0", floor=2)
    for name, f, var in ((gc_name, gc, idx), ("__delitem__", m["__delitem__"], m["__delitem__"].args.args[1].arg)):
        norm_neg = [n for n in own_nodes(f) if isinstance(n, ast.If) and any(isinstance(c, ast.Compare) and norm(c.left) == var and isinstance(c.ops[0], ast.Lt) and norm(c.comparators[0]) == "0" for c in ast.walk(n.test))
                    and any(isinstance(x, ast.AugAssign) and norm(x.target) == var and "len(" in norm(x.value) for x in ast.walk(n))]
        rep.ob("C19.h-negative-index-counts-from-the-end", col, "Collection." + name, "if %s < 0: %s += len(self)" % (var, var), bool(norm_neg),
               "" if norm_neg else "a negative %s is used as it is: the walk/arithmetic treats it as 0 (or as `before the head`)" % var, node=f)

    # ------------------------------------------------------------------ (i)
    rep.rule("C19.i-head-deletion-does-not-relink-a-predecessor",
             "__delitem__ asks for the predecessor cell (_get_container(key - 1)) only under a test that key > 0: for the head there is no predecessor - with the head's own cell "
             "(or, once negative indices count from the end, the LAST cell) standing in for it, the relink closes the chain into a cycle or leaves a cell without rdf:first", floor=1)
    di = m["__delitem__"]
    kv = di.args.args[1].arg
    n_sites = 0
    g_di = CFG(di)
    for c in own_nodes(di):
        if isinstance(c, ast.Call) and norm(c.func) == "self." + gc_name and c.args and norm(c.args[0]).replace(" ", "") == "%s-1" % kv:
            n_sites += 1
            # `key > 0` established by a branch edge on every path to the lookup, key not re-bound since - the body of `if key > 0`,
            # the else of `if key == 0`, the code after a guard clause `if key <= 0: ...; return` are the same thing (h_c19.positive_on_every_path)
            from vlib import h_c19 as _Hi

            guarded = _Hi.positive_on_every_path(g_di, g_di.node_of(c, col), kv)
            rep.ob("C19.i-head-deletion-does-not-relink-a-predecessor", col, "Collection.__delitem__", c, guarded,
                   "only for key > 0" if guarded else "_get_container(%s - 1) is evaluated for key == 0 as well: the `predecessor` of the head is the head itself (or the last cell)" % kv, node=c)
    if n_sites == 0:
        rep.ob("C19.i-head-deletion-does-not-relink-a-predecessor", col, "Collection.__delitem__", "no predecessor lookup by index arithmetic", True, "", node=di)


_run_base2 = run


def run(repo: Repo, rep: Report) -> None:  # noqa: F811
    _layer(rep, _run_base2, repo)
    from vlib import h_c19 as H

    col = repo.mod("rdflib.collection")
    m = col.methods("Collection")
    # ------------------------------------------------------------------ (j)
    rep.rule("C19.j-cell-occupancy-is-read-from-the-graph",
             "append and __iadd__ decide whether the end cell already holds a member by asking the graph (`(end, rdf:first, None) in graph`) for the cell they are about to fill, "
             "at the point of filling it: inside __iadd__'s loop, once per item. A flag computed before the loop (`the end cell is the head of an empty list`) is wrong for the "
             "one-member list, whose end cell is the head too, and stale after the first item. Stated by value flow: every value that can reach the subject of the rdf:first "
             "write (through copies and the arms of a conditional expression) is a node made in this pass, or a cell for which `(cell, rdf:first, ..) in graph` is evaluated in "
             "the same pass on every path to the write, its outcome deciding a branch (if / conditional expression, directly or through a flag bound once)", floor=2)
    def _first_adds(fn):
        return [c for c in own_nodes(fn) if isinstance(c, ast.Call) and isinstance(c.func, ast.Attribute) and c.func.attr in ("add", "set") and c.args and isinstance(c.args[0], ast.Tuple)
                and len(c.args[0].elts) == 3 and norm(c.args[0].elts[1]).endswith("RDF.first")]

    for name in ("append", "__iadd__"):
        f = m[name]
        adds = _first_adds(f)
        if not adds:
            # the cell is written by a helper that is handed each item: the helper is judged, and in __iadd__ it has to be called once per item (inside the loop)
            # (called in a loop, or applied once per element by a higher-order callable: `functools.reduce(self.h, items, end)` is `for x in items: end = self.h(end, x)`)
            uses = [u for u in H.method_uses(col, f, m) if _first_adds(m[u[1]])]
            calls = [u[0] for u in uses]
            if not calls:
                raise AnalysisError("Collection.%s adds no rdf:first" % name)
            if name == "__iadd__":
                per_item = all(over is not None or any(isinstance(p_, (ast.For, ast.While)) for p_ in col.parents(c) if p_ is not f) for c, _n, over, _a in uses)
                rep.ob("C19.j-cell-occupancy-is-read-from-the-graph", col, "Collection." + name, calls[0], per_item,
                       "the cell-writing helper is called once per item" if per_item else "the cell-writing helper is not called inside the loop over the items", node=calls[0])
            f = m[uses[0][1]]
            adds = _first_adds(f)
        # which cell does the write fill?  By value flow (copies, casts and both arms of a conditional expression are followed): a node made in
        # this pass (BNode()), or a cell that was there before - then the graph has to be asked about THAT cell in this pass (loop round / call),
        # on every path to the write, and the answer has to decide a branch (an if / conditional expression, directly or through a flag)
        g = CFG(f)
        for a in adds:
            subj = a.args[0].elts[0]
            cell = norm(subj)
            aid = g.node_of(a, col)
            # one pass: a round of the nearest enclosing loop, else the call
            scope = f
            for p_ in col.parents(a):
                if isinstance(p_, (ast.For, ast.While)):
                    scope = p_
                    break
                if p_ is f:
                    break
            start = g.entry if scope is f else g.node_of(scope)
            pending = sorted(r for r in H.value_roots(g, start, aid, subj) if r[0] != "fresh")
            if not pending:
                rep.ob("C19.j-cell-occupancy-is-read-from-the-graph", col, "Collection." + name, a, True, "a cell made for this item (a new BNode): it holds no member yet", node=a)
                continue
            later = {}
            asked = [roots for cid, roots, decides in H.occupancy_reads(g, col, scope, start)
                     if H.dominated_in_scope(g, start, aid, cid)
                     and any(t == aid or aid in later.setdefault(t, H.forward_no_back(g, t)) for t in decides)]
            missing = [r for r in pending if not any(r in roots for roots in asked)]
            rep.ob("C19.j-cell-occupancy-is-read-from-the-graph", col, "Collection." + name, a, not missing,
                   "occupancy of %s read from the graph %s" % (cell, "in the loop" if scope is not f else "before filling") if not missing else
                   "the member is written to %s without asking the graph, in this %s, whether that cell already has one: on a one-member list `c += [x]` writes a second rdf:first onto the head cell" % (cell, "loop iteration" if scope is not f else "call"), node=a)


_run_base3 = run


def run(repo: Repo, rep: Report) -> None:  # noqa: F811
    _layer(rep, _run_base3, repo)
    col = repo.mod("rdflib.collection")
    f = col.methods("Collection")["__iadd__"]
    par = f.args.args[1].arg
    rep.rule("C19.k-iadd-works-on-a-materialised-nonempty-input",
             "Collection.__iadd__ (1) materialises its iterable (list(other) / tuple(other)) before the first change to the graph - the argument may be a lazy view of this very "
             "list (`c += c`, `c += (x for x in c)`), and appending while walking it never ends; (2) returns before touching the graph when there is nothing to add - it detaches "
             "the rdf:nil terminator first and re-attaches it at the end, which on an empty list would leave a head cell with rdf:rest but no rdf:first", floor=2)
    _meths = col.methods("Collection")

    def _mutates(fn):
        return any(isinstance(c, ast.Call) and isinstance(c.func, ast.Attribute) and c.func.attr in ("add", "remove", "set") and "graph" in norm(c.func.value) for c in own_nodes(fn))
    from vlib import h_c19 as _Hk

    # a change made through a method of the class: a plain call of it, or the method applied once per element of an iterable by a higher-order
    # callable (`functools.reduce(self.h, items, end)`) - then that iterable is walked like the iterable of a `for`, and the changes are per item
    _uses = [u for u in _Hk.method_uses(col, f, _meths) if _mutates(_meths[u[1]])]
    _applied_over = {id(c): over for c, _n, over, _a in _uses if over is not None}
    muts = [c for c in own_nodes(f) if isinstance(c, ast.Call) and isinstance(c.func, ast.Attribute) and c.func.attr in ("add", "remove", "set") and "graph" in norm(c.func.value)]
    muts += [c for c, _n, _o, _a in _uses if not any(c is x for x in muts)]
    if not muts:
        raise AnalysisError("Collection.__iadd__: no graph mutation found")
    first_mut = min(c.lineno for c in muts)
    mat = [a for a in own_nodes(f) if isinstance(a, ast.Assign) and isinstance(a.value, ast.Call) and norm(a.value.func) in ("list", "tuple") and a.value.args and norm(a.value.args[0]) == par and a.lineno < first_mut]
    loops_ = [n for n in own_nodes(f) if isinstance(n, ast.For)]
    src = norm(mat[0].targets[0]) if mat else None
    ok1 = bool(mat) and all(norm(l.iter) == src for l in loops_) and all(norm(o) == src for o in _applied_over.values())
    rep.ob("C19.k-iadd-works-on-a-materialised-nonempty-input", col, "Collection.__iadd__", mat[0] if mat else "for item in %s" % par, ok1,
           "materialised before the first graph change" if ok1 else "the loop walks the argument itself while cells are appended: `c += c` does not terminate", node=mat[0] if mat else (loops_[0] if loops_ else f))
    early = [n for n in own_nodes(f) if isinstance(n, ast.If) and n.lineno < first_mut and isinstance(n.test, ast.UnaryOp) and isinstance(n.test.op, ast.Not) and norm(n.test.operand) in (src, par)
             and any(isinstance(r, ast.Return) for r in n.body)]
    # (nothing to guard if every change to the graph is made inside the loop over the items: no item, no change)
    outside = [c for c in muts if not (id(c) in _applied_over and norm(_applied_over[id(c)]) == src)
               and not any(isinstance(p_, (ast.For, ast.While)) and norm(getattr(p_, "iter", p_)) == src for p_ in col.parents(c) if p_ is not f)]
    no_change_without_items = not early and not outside and (bool(loops_) or bool(_applied_over))
    shown = early[0].test if early else ("every change is made per item, in `for .. in %s`" % src if no_change_without_items else "if not <items>: return self")
    rep.ob("C19.k-iadd-works-on-a-materialised-nonempty-input", col, "Collection.__iadd__", shown, bool(early) or no_change_without_items,
           "nothing to add: the graph is left alone" if (early or no_change_without_items) else "with an empty argument the terminator is detached and re-attached anyway: on an empty list `c += []` leaves (head rdf:rest rdf:nil) without rdf:first, after which c[0] raises KeyError", node=early[0] if early else ((loops_[0] if loops_ else next(c for c in muts if id(c) in _applied_over)) if no_change_without_items else f))


_run_base4 = run


def run(repo: Repo, rep: Report) -> None:  # noqa: F811
    _layer(rep, _run_base4, repo)
    from vlib import h_c19

    col = repo.mod("rdflib.collection")
    gr = repo.mod("rdflib.graph")
    methods = col.methods("Collection")
    scope = [(col, "Collection." + m, f) for m, f in methods.items()] + [(gr, "Graph.items", gr.func("Graph.items"))]

    # ------------------------------------------------------------------ (l) list nodes / cells by identity
    # (a) looks at Optional[...] values that may be a falsy Literal.  The list node and the cells are terms too: <> (URIRef(''),
    # what a relative IRI reference to the document itself is before resolution) and BNode('') are falsy str instances.
    rep.rule("C19.l-list-node-and-cells-by-identity",
             "in Collection and Graph.items no expression whose static type is a term class (IdentifiedNode, URIRef, BNode, Node ..., Optional or not) is "
             "tested by truthiness: absence of a list node / cell is `is None`. With `uri or BNode()` Collection(g, URIRef('')) silently works on a fresh "
             "blank node instead of <>, and with `while cell:` iteration over [a, b, c] whose second cell is <> stops after a", floor=6)
    term_classes = set(repo.typed.subclasses("rdflib.term.Node")) - set(repo.typed.subclasses("rdflib.graph.Graph"))
    if "rdflib.term.IdentifiedNode" not in term_classes or "rdflib.term.URIRef" not in term_classes:
        raise AnalysisError("term class hierarchy not found under rdflib.term.Node")

    def term_fact(mod, e):
        tf = repo.typed.type_of(mod.name, e)
        if tf is None or not any(i in term_classes for i in tf.items):
            return None
        # sites of rule (a): Optional and able to hold a Literal - not repeated here
        if tf.optional and truthy.domain_hits(repo, tf):
            return None
        return tf

    for mod, q, f in scope:
        nonec = truthy.none_constants(mod)
        for n in own_nodes(f, include_nested=True):
            if isinstance(n, ast.Compare) and len(n.ops) == 1 and isinstance(n.ops[0], (ast.Is, ast.IsNot, ast.Eq, ast.NotEq)):
                l_, r_ = n.left, n.comparators[0]
                tgt = l_ if truthy._is_none(r_, nonec) else (r_ if truthy._is_none(l_, nonec) else None)
                tf = term_fact(mod, tgt) if tgt is not None else None
                if tf is not None:
                    rep.ob("C19.l-list-node-and-cells-by-identity", mod, q, n, True, "%s : %s compared with None" % (norm(tgt), tf.text), node=n)
        seen_l: set[int] = set()
        for e, owner, kind in truthy.bool_contexts(f):
            if id(e) in seen_l or isinstance(e, (ast.Compare, ast.Constant)):
                continue
            seen_l.add(id(e))
            tf = term_fact(mod, e)
            if tf is None:
                continue
            ctx = norm(owner.test) if hasattr(owner, "test") else norm(owner)
            rep.ob("C19.l-list-node-and-cells-by-identity", mod, q, "%s [in %s: %s]" % (norm(e), kind, ctx[:120]), False,
                   "truthiness of %s : %s - the node <> (URIRef('')) or BNode('') is a falsy str: it is taken for `no node`" % (norm(e), tf.text), node=e)

    # ------------------------------------------------------------------ (m) every walk RAISES on a cycle
    # (b) is about termination, and a counter bound terminates - but `while i < index` alone walks round a cyclic chain and hands
    # out a cell for every index, where len() and iteration raise.
    rep.rule("C19.m-every-walk-raises-on-a-cycle",
             "every loop of Collection / Graph.items that follows rdf:rest from its own cursor without consuming the link keeps a visited set and RAISES when "
             "a cell comes up again, on every path between two steps - all readers agree with len()/iteration. A walk that is only bounded by a counter "
             "answers c[k], c[k] = x and del c[k] for any k on a cyclic chain as if the list had that many members", floor=4)
    # a walk is the def-use cycle cursor -> rdf:rest lookup -> cursor inside a loop, `while` or `for` (h_c19.link_walks)
    for mod, q, f in scope:
        g = None
        for loop, cur in h_c19.link_walks(f):
            consumed = loops._removes_link(loop, cur)
            if consumed:
                rep.ob("C19.m-every-walk-raises-on-a-cycle", mod, q, "%s: ... (%s)" % (h_c19.loop_head_text(loop), consumed[:80]), True,
                       "the walk deletes the link it follows: it cannot come back to a cell", node=loop)
                continue
            if g is None:
                g = CFG(f)
            ok, why = h_c19.raising_cycle_guard(g, mod, loop, cur, repo=repo)
            rep.ob("C19.m-every-walk-raises-on-a-cycle", mod, q, "%s: ... %s = rdf:rest of %s" % (h_c19.loop_head_text(loop), cur, cur), ok,
                   why if ok else why + ": on a cyclic rdf:rest chain this walk goes round and returns a cell (or never ends) instead of raising like len(c)", node=loop)
    # the anchor, by role: each public operation that has to find a cell by following the chain reaches a walk that this rule has judged
    # (its own, or that of a method it calls on self) - however many methods the walks are spread over
    if not any(True for _ in h_c19.link_walks(gr.func("Graph.items"))):
        raise AnalysisError("Graph.items holds no rdf:rest walk: rule (m) has lost its anchor")
    for entry in ("index", "__getitem__", "__setitem__", "__delitem__", "append", "__iadd__", "clear"):
        if entry not in methods:
            raise AnalysisError("Collection.%s vanished" % entry)
        via = h_c19.walk_reached_from(methods, entry)
        if not via:
            raise AnalysisError("Collection.%s reaches no rdf:rest walk (own loop or a method called on self): rule (m) has lost its anchor" % entry)
        rep.ob("C19.m-every-walk-raises-on-a-cycle", col, "Collection." + entry, "finds its cell by the walk in %s" % ", ".join(via), True,
               "the walk(s) it relies on are judged above", node=methods[entry])

    # ------------------------------------------------------------------ (n) the list node is never wiped
    rep.rule("C19.n-list-node-is-never-wiped",
             "a removal with a wildcard predicate, graph.remove((x, None, None)), in Collection only hits a cell that cannot be the list node self.uri: x is (by "
             "def-use) the value of an rdf:rest lookup, or _get_container(k) with k > 0 established on every path, or sits on the `!= the list node` side of a comparison "
             "(the list node: self.uri, or a local name every reaching definition of which is a copy of it, self.uri being bound by __init__ only). The list node is a resource of its own "
             "(rdf:type, labels, owl:unionOf subject ...): emptying the list through it - del c[0] on a one-member list - removes rdf:first/rdf:rest only, "
             "exactly like clear() and like del c[0] on a longer list", floor=2)
    nonec = truthy.none_constants(col)
    n_wipes = 0
    n_cell_removals = 0
    for mname, f in methods.items():
        al = _graph_aliases(f)
        g = None
        for c in own_nodes(f):
            if not (_gcall(c, al, {"remove"}) and c.args and isinstance(c.args[0], ast.Tuple) and len(c.args[0].elts) == 3):
                continue
            n_cell_removals += 1
            s, p, o = c.args[0].elts
            if not truthy._is_none(p, nonec):
                continue
            n_wipes += 1
            if g is None:
                g = CFG(f)
            reasons = h_c19.head_possible(g, col, c, s)
            rep.ob("C19.n-list-node-is-never-wiped", col, "Collection." + mname, c, not reasons,
                   "%s is a successor cell / a cell at an index > 0" % norm(s) if not reasons else
                   "%s may be the list node (%s): every statement about the list node goes, not just its rdf:first/rdf:rest - e.g. emptying [x] whose node carries "
                   "(c.uri rdf:type T) deletes that triple too, where removing the two links leaves it" % (norm(s), "; ".join(sorted(set(reasons)))[:300]), node=c)
    if n_cell_removals < 4:
        raise AnalysisError("expected >= 4 graph.remove((s, p, o)) calls in Collection, found %d" % n_cell_removals)
    if n_wipes == 0:
        rep.ob("C19.n-list-node-is-never-wiped", col, "Collection", "no wildcard-predicate removal", True, "cells are removed link by link", node=col.cls("Collection"))


_run_base5 = run


def run(repo: Repo, rep: Report) -> None:  # noqa: F811
    from vlib import h_c19 as H

    # the index-to-cell method is found by role before any layer runs (a layer that is in order on the tree is skipped on the views)
    _role = H.cell_lookup_method(repo.mod("rdflib.collection").methods("Collection")) if repo.mod("rdflib.collection").has("Collection") else None
    if _role is not None:
        H.CELL_LOOKUP = _role
    _layer(rep, _run_base5, repo)
    from vlib.cfg import reaching_defs

    col = repo.mod("rdflib.collection")
    gr = repo.mod("rdflib.graph")
    methods = col.methods("Collection")
    nonec = truthy.none_constants(col)

    def triple_calls(f, al, names):
        for c in own_nodes(f):
            if _gcall(c, al, names) and c.args and isinstance(c.args[0], ast.Tuple) and len(c.args[0].elts) == 3:
                yield c

    def is_link(p):
        return isinstance(p, ast.Attribute) and p.attr in ("first", "rest")

    # ------------------------------------------------------------------ (o) cells other than the list node are dropped whole
    # the dual of (n): (n) keeps the wildcard removal away from the list node, (o) keeps the link-by-link removal away from every
    # other cell - __delitem__ and clear agree on both
    rep.rule("C19.o-only-the-list-node-is-emptied-link-by-link",
             "a removal of just the links, graph.remove((x, rdf:first|rdf:rest, None)), in Collection hits the list node only: x is self.uri, sits on the `== self.uri` side "
             "of a comparison (self.uri or a local copy of it, by reaching definitions), or is _get_container(k) on a path that excludes k > 0 (or the removal is the first half of a re-link: the same link of x is added again on "
             "every path). Every other cell is a blank node the list made for itself and is dropped whole, as __delitem__ drops it: with only its two links removed, "
             "clear() on [a, b] whose second cell carries (cell rdf:type rdf:List) leaves that cell behind as an orphan", floor=4)
    n_links = 0
    for mname, f in methods.items():
        al = _graph_aliases(f)
        g = None
        for c in triple_calls(f, al, {"remove"}):
            s, p, o = c.args[0].elts
            if not (is_link(p) and truthy._is_none(o, nonec)):
                continue
            n_links += 1
            if g is None:
                g = CFG(f)
            relinks = {g.node_of(a, col) for a in triple_calls(f, al, {"add", "set"}) if norm(a.args[0].elts[0]) == norm(s) and norm(a.args[0].elts[1]) == norm(p)}
            if relinks and g.must_pass_after(g.node_of(c, col), relinks):
                rep.ob("C19.o-only-the-list-node-is-emptied-link-by-link", col, "Collection." + mname, c, True, "first half of a re-link: the link is added again on every path", node=c)
                continue
            reasons = H.head_certain(g, col, c, s)
            rep.ob("C19.o-only-the-list-node-is-emptied-link-by-link", col, "Collection." + mname, c, not reasons,
                   "%s is the list node" % norm(s) if not reasons else
                   "%s may be a cell other than the list node (%s): only its %s link is removed, whatever else is said about the cell (rdf:type rdf:List ...) stays in the graph "
                   "as an orphaned blank node, where __delitem__ removes (cell, None, None)" % (norm(s), "; ".join(sorted(set(reasons)))[:300], p.attr), node=c)
    if n_links == 0:
        raise AnalysisError("Collection removes no rdf:first / rdf:rest link: rule (o) has lost its anchor")

    # ------------------------------------------------------------------ (p) a wildcard removal never hits rdf:nil
    rep.rule("C19.p-nil-is-never-wiped",
             "the subject of graph.remove((x, None, None)) in Collection cannot be rdf:nil: x is (by def-use) the value of _get_container (never rdf:nil: rule g), or `x != rdf:nil` "
             "is established by a branch on every path since x was bound - a walk that drops cells stops AT rdf:nil. rdf:nil is shared by every list of the graph: clear() "
             "walking one step too far deletes (rdf:nil rdf:type rdf:List) and whatever else the graph says about it", floor=3)
    n_wild = 0
    for mname, f in methods.items():
        al = _graph_aliases(f)
        g = None
        for c in triple_calls(f, al, {"remove"}):
            s, p, o = c.args[0].elts
            if not truthy._is_none(p, nonec):
                continue
            n_wild += 1
            if g is None:
                g = CFG(f)
            reasons = H.nil_possible(g, col, c, s)
            rep.ob("C19.p-nil-is-never-wiped", col, "Collection." + mname, c, not reasons,
                   "%s cannot be rdf:nil here" % norm(s) if not reasons else
                   "%s may be rdf:nil (%s): every statement about rdf:nil is deleted from the graph" % (norm(s), "; ".join(sorted(set(reasons)))[:300]), node=c)
    if n_wild == 0:
        rep.ob("C19.p-nil-is-never-wiped", col, "Collection", "no wildcard-predicate removal", True, "cells are removed link by link", node=col.cls("Collection"))

    # ------------------------------------------------------------------ (q) a replacement checks the new value before it removes the old
    add_fn = gr.func("Graph.add")
    refusals = H.add_refusals(add_fn)
    if not refusals:
        raise AnalysisError("Graph.add asserts nothing about the components of its triple: rule (q) has lost its anchor")
    term_names = {c.rsplit(".", 1)[-1] for c in repo.typed.subclasses("rdflib.term.Node")}
    if "Node" not in term_names or "Literal" not in term_names:
        raise AnalysisError("term class hierarchy not found under rdflib.term.Node")
    rep.info["graph_add_refuses"] = {str(k): sorted(v) for k, v in refusals.items()}
    rep.rule("C19.q-replacement-validates-before-removing",
             "in rdflib.graph and rdflib.collection, where g.remove((s, p, None)) is followed by g.add((s, p, o)) (a replacement of the old values, Graph.set), every component "
             "that the removal leaves open and that Graph.add refuses unless it is an rdflib term is checked - assert isinstance(o, Node) / raise / _assertnode(o) - BEFORE the "
             "removal (or is a term by construction). add() raising after the removal has lost the old value: c[0] = 5 on a Collection raises and leaves the first cell "
             "without rdf:first, where a Python list is unchanged by a failed assignment", floor=1)
    n_repl = 0
    for mod in (gr, col):
        helpers = H.validator_helpers(mod, term_names)
        for q, f in mod.functions():
            rems = [c for c in own_nodes(f) if isinstance(c, ast.Call) and isinstance(c.func, ast.Attribute) and c.func.attr == "remove" and len(c.args) == 1
                    and isinstance(c.args[0], ast.Tuple) and len(c.args[0].elts) == 3]
            adds = [c for c in own_nodes(f) if isinstance(c, ast.Call) and isinstance(c.func, ast.Attribute) and c.func.attr == "add" and len(c.args) == 1
                    and isinstance(c.args[0], ast.Tuple) and len(c.args[0].elts) == 3]
            if not rems or not adds:
                continue
            nonec_m = truthy.none_constants(mod)
            g = None
            for r in rems:
                for a in adds:
                    if norm(r.func.value) != norm(a.func.value):
                        continue
                    open_pos = [i for i in range(3) if truthy._is_none(r.args[0].elts[i], nonec_m) and not truthy._is_none(a.args[0].elts[i], nonec_m)]
                    same = all(i in open_pos or norm(r.args[0].elts[i]) == norm(a.args[0].elts[i]) for i in range(3))
                    if not open_pos or not same:
                        continue
                    if g is None:
                        g = CFG(f)
                    rn, an = g.node_of(r, mod), g.node_of(a, mod)
                    if an not in g.reach(rn):
                        continue
                    for i in open_pos:
                        if i not in refusals:
                            continue
                        n_repl += 1
                        v = a.args[0].elts[i]
                        classes = term_names
                        def by_construction(e):
                            return (isinstance(e, ast.Call) and bool(H._cls_names(e.func) & term_names)) or H.is_nil(e) or (
                                isinstance(e, ast.Attribute) and isinstance(e.value, ast.Name) and e.value.id.isupper())
                        if isinstance(v, ast.Name):
                            defs = H._resolve(g, an, v.id)
                            built = bool(defs) and all(val is not None and by_construction(H.strip_cast(val)) for _, val in defs)
                            ok = built or H.validated_before(g, f, rn, v.id, classes, helpers)
                            why = ("a term by construction" if built else "checked to be an rdflib term before the removal") if ok else \
                                "%s is handed to add() after the old values are gone, and add() refuses what is not a %s: the removal is not undone" % (v.id, "/".join(sorted(refusals[i])))
                        else:
                            ok = by_construction(v)
                            why = "a term by construction" if ok else "%s is not checked before the removal" % norm(v)[:60]
                        rep.ob("C19.q-replacement-validates-before-removing", mod, q, "%s ; %s" % (norm(r), norm(a)), ok, why, node=r)
    if n_repl == 0:
        raise AnalysisError("no remove((s, p, None)) ... add((s, p, o)) replacement found in rdflib.graph (Graph.set): rule (q) has lost its anchor")

    # ------------------------------------------------------------------ (r) the write that can be refused is the first change
    rep.rule("C19.r-refusable-write-comes-first",
             "in every Collection method, a write that carries a value handed in by the caller as it is (a parameter of a public method, a member or copy of one, or what a "
             "private helper is handed of those) - graph.add/set of a triple with it, a call of a mutating Collection method with it - is not preceded, within the same pass "
             "through the method (loop back edges aside), by another change to the graph, unless the value was checked to be an rdflib term first. The graph refuses what is "
             "not a term by raising: c.append(5) after rdf:nil was detached from the last cell leaves a chain that no longer ends in rdf:nil; with the new cell completed "
             "first and linked last, a refused item leaves the list as it was", floor=5)
    # which methods change the graph (directly or through another method of the class)
    mutating: set[str] = set()
    changed = True
    while changed:
        changed = False
        for mname, f in methods.items():
            if mname in mutating:
                continue
            al = _graph_aliases(f)
            if any(_gcall(c, al, {"add", "set", "remove", "addN"}) for c in own_nodes(f)) or any(
                    hname in mutating for _c, hname, _o, _a in H.method_uses(col, f, methods)) or any(
                    isinstance(c, ast.AugAssign) and norm(c.target) == "self" and "__iadd__" in mutating for c in own_nodes(f)):
                mutating.add(mname)
                changed = True
    for need in ("append", "__iadd__", "__setitem__"):
        if need not in mutating:
            raise AnalysisError("Collection.%s does not change the graph: rule (r) has lost its anchor" % need)

    def private(name):
        return name.startswith("_") and not (name.startswith("__") and name.endswith("__"))

    def params(f):
        return [a.arg for a in f.args.posonlyargs + f.args.args + f.args.kwonlyargs] + ([f.args.vararg.arg] if f.args.vararg else [])

    raw_params: dict[str, set[str]] = {m: (set() if private(m) else set(params(f)[1:])) for m, f in methods.items()}
    cfgs = {m: CFG(f) for m, f in methods.items() if m in mutating}

    handed: dict[int, tuple[str, list]] = {}   # event (a call on self, plain or applied) -> (method, positional arguments of one call)
    applied: dict[str, dict] = {}

    def events(mname):
        """(call/statement, argument expressions, kind) for every change to the graph made by the method's own statements"""
        f = methods[mname]
        al = _graph_aliases(f)
        for c in own_nodes(f):
            if _gcall(c, al, {"add", "set", "remove", "addN"}):
                args = list(c.args[0].elts) if c.args and isinstance(c.args[0], ast.Tuple) else list(c.args)
                yield c, args, c.func.attr
            elif isinstance(c, ast.Call) and isinstance(c.func, ast.Attribute) and norm(c.func.value) == "self" and c.func.attr in mutating:
                handed[id(c)] = (c.func.attr, list(c.args))
                yield c, list(c.args) + [k.value for k in c.keywords], "self." + c.func.attr
            elif isinstance(c, ast.Call) and id(c) in applied.setdefault(mname, {id(a.node): a for a in H.applications(col, f, methods) if a.name in mutating}):
                # a mutating method applied once per element by a higher-order callable: the same event as the call in a loop, an element of the
                # iterable stood for by the iterable (a member of a caller-supplied sequence is caller-supplied)
                a_ = applied[mname][id(c)]
                handed[id(c)] = (a_.name, list(a_.args))
                yield c, list(a_.args), "self." + a_.name
            elif isinstance(c, ast.AugAssign) and norm(c.target) == "self" and isinstance(c.op, ast.Add):
                yield c, [c.value], "self.__iadd__"

    changed = True
    while changed:  # what private helpers are handed
        changed = False
        for mname in mutating:
            g = cfgs[mname]
            for c, args, kind in events(mname):
                if kind.startswith("self.") and id(c) in handed and private(handed[id(c)][0]):
                    callee, pargs = handed[id(c)]
                    ps = params(methods[callee])[1:]
                    at = g.node_of(c, col)
                    for i, a in enumerate(pargs):
                        if i < len(ps) and ps[i] not in raw_params[callee] and H.is_raw(g, at, a, raw_params[mname]):
                            raw_params[callee].add(ps[i])
                            changed = True
    rep.info["raw_parameters_of_private_helpers"] = {m: sorted(v) for m, v in raw_params.items() if private(m) and v}
    n_ref = 0
    for mname in sorted(mutating):
        f = methods[mname]
        g = cfgs[mname]
        evs = [(c, args, kind, g.node_of(c, col)) for c, args, kind in events(mname)]
        for c, args, kind, at in evs:
            if kind == "remove":
                continue
            raws = [a for a in args if H.is_raw(g, at, a, raw_params[mname])]
            if not raws:
                continue
            n_ref += 1
            earlier = [c2 for c2, _, _, at2 in evs if c2 is not c and (at in H.forward_no_back(g, at2) or (at2 == at and getattr(c2, "col_offset", 0) < getattr(c, "col_offset", 0)))]
            unchecked = [a for a in raws if not (isinstance(H.strip_cast(a), ast.Name) and all(
                H.validated_before(g, f, g.node_of(c2, col), H.strip_cast(a).id, term_names, set()) for c2 in earlier))]
            ok = not earlier or not unchecked
            rep.ob("C19.r-refusable-write-comes-first", col, "Collection." + mname, c, ok,
                   ("first change to the graph on every path" if not earlier else "the value is checked before the first change") if ok else
                   "%s is handed to the graph after %s: if it is refused (not an rdflib term, e.g. 5) the method raises with the list half-edited" % (
                       ", ".join(norm(a) for a in unchecked), "; ".join(norm(c2)[:60] for c2 in earlier[:3])), node=c)
    if n_ref == 0:
        raise AnalysisError("no write of a caller-supplied value found in Collection: rule (r) has lost its anchor")

    # ------------------------------------------------------------------ (s) loops over all members reach the next member; verdicts are values
    inf = repo.mod("rdflib.extras.infixowl")
    proxies = sorted(c for c in repo.typed.subclasses("rdflib.extras.infixowl.OWLRDFListProxy") if c.startswith("rdflib.extras.infixowl."))
    if "rdflib.extras.infixowl.OWLRDFListProxy" not in proxies:
        raise AnalysisError("OWLRDFListProxy not found in rdflib.extras.infixowl")
    list_scope = [(col, "Collection." + m, f) for m, f in methods.items()] + [(gr, "Graph.items", gr.func("Graph.items"))]
    for full in proxies:
        cname = full.rsplit(".", 1)[-1]
        list_scope += [(inf, cname + "." + m, f) for m, f in inf.methods(cname).items()]
    for mod, q, f in list_scope:
        rep.analysed("%s:%s" % (mod.rel, q))
    rep.rule("C19.s-member-loops-go-round-and-verdicts-are-values",
             "in the list classes (Collection, Graph.items, OWLRDFListProxy and its subclasses): (1) the body of every for/while loop has a path back to the loop head - a "
             "loop whose every path returns, raises or breaks looks at the first member only; (2) a method that returns a value returns one on every path, it never falls off "
             "the end. With `return True` inside the member loop of __eq__, [a, b] == [a, c] is True after the first pair, and [] == [] runs no iteration and answers None", floor=27)
    for mod, q, f in list_scope:
        g = None
        for lp in own_nodes(f):
            if not isinstance(lp, (ast.For, ast.AsyncFor, ast.While)):
                continue
            if g is None:
                g = CFG(f)
            h = g.node_of(lp)
            if not g.reachable(h):
                continue
            fwd = g.reach(h)
            again = any(g.edge_label.get((p_, h)) == "back" and p_ in fwd for p_ in g.pred[h])
            rep.ob("C19.s-member-loops-go-round-and-verdicts-are-values", mod, q, "%s %s: ..." % ("while" if isinstance(lp, ast.While) else "for", norm(lp.test if isinstance(lp, ast.While) else lp.iter)[:60]), again,
                   "the body can reach the next round" if again else
                   "every path through the body leaves the loop in its first round (return / raise / break): only the first member is looked at", node=lp)
        is_gen = any(isinstance(x, (ast.Yield, ast.YieldFrom)) for x in own_nodes(f))
        valued = [r for r in own_nodes(f) if isinstance(r, ast.Return) and r.value is not None and not truthy._is_none(r.value, set())]
        if is_gen or not valued:
            continue
        if g is None:
            g = CFG(f)
        # (a `for` over an iterator that never runs out - itertools.count() - is a `while True`: nothing falls out of it, and nothing after it is reached)
        live = H.reachable_without_exhaustion(g, mod)
        falls = [p_ for p_ in g.pred[g.exit] if p_ in live and not (isinstance(g.nodes[p_].ast, ast.Return) and g.nodes[p_].ast.value is not None)
                 and not (g.nodes[p_].kind == "iter" and H.endless_for(mod, g.nodes[p_].ast) and g.edge_label.get((p_, g.exit)) not in ("true", "exc"))]
        rep.ob("C19.s-member-loops-go-round-and-verdicts-are-values", mod, q, "every path ends in `return <value>`", not falls,
               "%d return statement(s), no path falls off the end" % len(valued) if not falls else
               "a path leaves the method after `%s` without a return: the caller gets None where the other paths answer %s" % (
                   norm(g.nodes[falls[0]].ast)[:60] if g.nodes[falls[0]].ast is not None else "entry", " / ".join(sorted({norm(r.value)[:20] for r in valued})[:3])), node=f)
