"""C19 - Collection: falsy members, termination on cyclic chains, chain upkeep
(DESIGN.md §2 C19)."""
from __future__ import annotations

import ast

from vlib import loops, truthy
from vlib.cfg import CFG
from vlib.core import AnalysisError, Repo, Report, norm, own_nodes

EXPLANATION = (
    "Rules over rdflib/collection.py and Graph.items: (a) members/cells are tested by identity, never truthiness "
    "(falsy members 0/''/false behave like any other), (b) every rdf:rest link walk terminates on a cyclic chain "
    "(counter bound, visited set that raises, or consumption of the link), (c) the Collection keeps no cached cell "
    "that a cell-deleting method fails to refresh, (d) appenders always terminate the chain with rdf:nil, clear "
    "removes both links of every cell, and a cell deletion is paired with a relink. Index arithmetic (negative "
    "indices, IndexError vs KeyError, head deletion) is value reasoning and not decided."
)


def _graph_aliases(fn: ast.AST) -> set[str]:
    out = {"self.graph"}
    for n in own_nodes(fn):
        if isinstance(n, ast.Assign) and norm(n.value) == "self.graph" and isinstance(n.targets[0], ast.Name):
            out.add(n.targets[0].id)
    return out


def _gcall(c: ast.AST, aliases: set[str], meths: set[str]) -> bool:
    return isinstance(c, ast.Call) and isinstance(c.func, ast.Attribute) and c.func.attr in meths and norm(c.func.value) in aliases


def run(repo: Repo, rep: Report) -> None:
    rep.extra["explanation"] = EXPLANATION
    col = repo.mod("rdflib.collection")
    gr = repo.mod("rdflib.graph")
    methods = col.methods("Collection")
    scope = [(col, "Collection." + m, f) for m, f in methods.items()] + [(gr, "Graph.items", gr.func("Graph.items"))]
    for mod, q, f in scope:
        rep.analysed("%s:%s" % (mod.rel, q))

    # (a)
    rep.rule("C19.a-members-by-identity",
             "in Collection and Graph.items, absence of a member/cell is decided by identity with None (or by a "
             "pattern membership test), never by the truthiness of a term that may be a falsy Literal", floor=3)
    for mod, q, f in scope:
        truthy.scan(repo, rep, "C19.a-members-by-identity", mod, f, q)

    # (b)
    rep.rule("C19.b-link-walk-terminates",
             "every loop that follows rdf:rest from its own cursor is bounded by a counter, guarded by a visited "
             "set whose membership test leaves the loop, or removes the link it follows", floor=5)
    for mod, q, f in scope:
        for loop, cur in loops.link_walk_loops(f):
            why = loops.link_walk_guard(loop, cur, f)
            rep.ob("C19.b-link-walk-terminates", mod, q, "while %s: ... %s = rdf:rest of %s" % (norm(loop.test), cur, cur), why is not None,
                   why or "no counter, visited-set guard or link removal: the walk never ends on a cyclic rdf:rest chain", node=loop)
    # readers must go through a guarded walk: __len__/__iter__ delegate to Graph.items
    for m in ("__len__", "__iter__"):
        f = methods.get(m)
        if f is None:
            raise AnalysisError("Collection.%s vanished" % m)
        deleg = any(isinstance(c, ast.Call) and norm(c.func) == "self.graph.items" for c in ast.walk(f))
        own_loop = any(isinstance(n, (ast.While, ast.For)) for n in own_nodes(f))
        rep.ob("C19.b-link-walk-terminates", col, "Collection." + m, "delegates to Graph.items (guarded walk)", deleg or not own_loop,
               "reads through the cycle-checked Graph.items" if deleg else "walks the chain itself", node=f)

    # (c) derived state
    rep.rule("C19.c-no-stale-cell-cache",
             "an attribute of Collection assigned outside __init__ (derived state such as a cached tail cell) is "
             "re-assigned on every normal path after any statement that deletes a cell (remove((x, None, None)) / "
             "remove((x, RDF.first, None)))", floor=1)
    derived: dict[str, list[str]] = {}
    for m, f in methods.items():
        if m == "__init__":
            continue
        for n in own_nodes(f):
            if isinstance(n, (ast.Assign, ast.AugAssign, ast.AnnAssign)):
                tg = n.targets if isinstance(n, ast.Assign) else [n.target]
                for t in tg:
                    if isinstance(t, ast.Attribute) and isinstance(t.value, ast.Name) and t.value.id == "self":
                        derived.setdefault(t.attr, []).append(m)
    rep.info["derived_state_attributes"] = derived
    ncell = 0
    for m, f in methods.items():
        al = _graph_aliases(f)
        g = None
        for c in own_nodes(f):
            if _gcall(c, al, {"remove"}) and c.args and isinstance(c.args[0], ast.Tuple) and len(c.args[0].elts) == 3:
                s, p, o = c.args[0].elts
                cell_del = (isinstance(p, ast.Constant) and p.value is None) or (isinstance(p, ast.Attribute) and p.attr == "first")
                if not cell_del:
                    continue
                ncell += 1
                if g is None:
                    g = CFG(f)
                cn = g.node_of(c, col)
                missing = []
                for attr in derived:
                    assigns = set()
                    for nd in g.nodes:
                        st = nd.ast
                        if nd.kind == "stmt" and isinstance(st, (ast.Assign, ast.AnnAssign)):
                            tg = st.targets if isinstance(st, ast.Assign) else [st.target]
                            if any(norm(t) == "self." + attr for t in tg):
                                assigns.add(nd.id)
                    if not g.must_pass_after(cn, assigns):
                        missing.append(attr)
                rep.ob("C19.c-no-stale-cell-cache", col, "Collection." + m, c, not missing,
                       "no derived state to refresh" if not derived else ("derived state refreshed after the deletion" if not missing else
                       "cell deleted but cached attribute(s) %s (assigned in %s) are not refreshed on every path: a later operation may start from a detached cell" % (missing, {a: derived[a] for a in missing})),
                       node=c)
    if ncell < 2:
        raise AnalysisError("expected >= 2 cell deletions in Collection, found %d" % ncell)

    # (d) chain upkeep
    rep.rule("C19.d-chain-upkeep",
             "append/__iadd__ end every normal path with add((end, rdf:rest, rdf:nil)) after the last rdf:first they "
             "add; clear removes rdf:first and rdf:rest of each visited cell; __delitem__ pairs each cell deletion "
             "with a relink of the predecessor", floor=5)
    for m in ("append", "__iadd__"):
        f = methods.get(m)
        if f is None:
            raise AnalysisError("Collection.%s vanished" % m)
        al = _graph_aliases(f)
        g = CFG(f)
        nil_adds = set()
        first_adds = []
        for c in own_nodes(f):
            if _gcall(c, al, {"add", "set"}) and c.args and isinstance(c.args[0], ast.Tuple) and len(c.args[0].elts) == 3:
                s, p, o = c.args[0].elts
                if isinstance(p, ast.Attribute) and p.attr == "rest" and isinstance(o, ast.Attribute) and o.attr == "nil":
                    nil_adds.add(g.node_of(c, col))
                if isinstance(p, ast.Attribute) and p.attr == "first":
                    first_adds.append(c)
        if not first_adds:
            raise AnalysisError("Collection.%s adds no rdf:first" % m)
        for c in first_adds:
            ok = g.must_pass_after(g.node_of(c, col), nil_adds)
            rep.ob("C19.d-chain-upkeep", col, "Collection." + m, c, ok,
                   "every path from this rdf:first to the return closes the chain with rdf:nil" if ok else
                   "a path adds a member but returns without (end, rdf:rest, rdf:nil): the chain is left open", node=c)
        # occupancy of the end cell decided by a pattern membership test (not value truthiness: covered by (a))
    f = methods.get("clear")
    if f is None:
        raise AnalysisError("Collection.clear vanished")
    al = _graph_aliases(f)
    removed = set()
    for c in own_nodes(f):
        if _gcall(c, al, {"remove"}) and c.args and isinstance(c.args[0], ast.Tuple):
            p = c.args[0].elts[1]
            if isinstance(p, ast.Attribute):
                removed.add(p.attr)
            elif isinstance(p, ast.Constant) and p.value is None:
                removed |= {"first", "rest"}
    rep.ob("C19.d-chain-upkeep", col, "Collection.clear", "removes rdf:first and rdf:rest of each cell", {"first", "rest"} <= removed,
           "both links removed" if {"first", "rest"} <= removed else "clear leaves %s triples behind (orphaned cells)" % sorted({"first", "rest"} - removed), node=f)
    f = methods.get("__delitem__")
    if f is None:
        raise AnalysisError("Collection.__delitem__ vanished")
    al = _graph_aliases(f)
    g = CFG(f)
    relinks = set()
    dels = []
    for c in own_nodes(f):
        if _gcall(c, al, {"set", "add"}) and c.args and isinstance(c.args[0], ast.Tuple) and len(c.args[0].elts) == 3:
            p = c.args[0].elts[1]
            if isinstance(p, ast.Attribute) and p.attr == "rest":
                relinks.add(g.node_of(c, col))
        if _gcall(c, al, {"remove"}) and c.args and isinstance(c.args[0], ast.Tuple):
            dels.append(c)
    for c in dels:
        cn = g.node_of(c, col)
        ok = g.must_pass_before(cn, relinks) or g.must_pass_after(cn, relinks)
        rep.ob("C19.d-chain-upkeep", col, "Collection.__delitem__", c, ok,
               "cell deletion paired with a relink of rdf:rest on the same path" if ok else
               "a path deletes a cell without relinking its predecessor: the chain is broken", node=c)
    if not dels:
        raise AnalysisError("Collection.__delitem__ deletes no cell")

    # ------------------------------------------------------------------ (e) errors of guarded walks are not swallowed
    rep.rule("C19.e-walk-errors-propagate",
             "no Collection method catches ValueError/Exception (or everything) around a call to one of the chain walks (index, _end, _get_container, "
             "graph.items, iteration) without re-raising: a cyclic or broken chain must raise, not be reported as `absent`", floor=1)
    walks = {"index", "_end", "_get_container", "items", "__iter__", "__len__"}
    nh = 0
    for mname, f in methods.items():
        for t in [n for n in own_nodes(f) if isinstance(n, ast.Try)]:
            calls_walk = any(isinstance(c, ast.Call) and isinstance(c.func, ast.Attribute) and c.func.attr in walks for s_ in t.body for c in ast.walk(s_))
            if not calls_walk:
                continue
            for h in t.handlers:
                nh += 1
                tn = norm(h.type) if h.type is not None else "<bare>"
                broad = h.type is None or any(x in tn for x in ("ValueError", "Exception", "BaseException"))
                reraises = any(isinstance(x, ast.Raise) for s_ in h.body for x in ast.walk(s_))
                rep.ob("C19.e-walk-errors-propagate", col, "Collection." + mname, "except %s around a chain walk" % tn, (not broad) or reraises,
                       "narrow / re-raising handler" if (not broad) or reraises else
                       "the handler swallows %s raised by a chain walk: `List contains a recursive rdf:rest reference` is turned into an ordinary answer" % tn, node=h)
    if nh == 0:
        rep.ob("C19.e-walk-errors-propagate", col, "Collection", "no handler encloses a chain walk", True, "nothing can swallow a walk's error", node=col.cls("Collection"))

    # ------------------------------------------------------------------ (f) mutate only over materialised walks / fresh cells
    rep.rule("C19.f-mutating-loops-and-fresh-cells",
             "a loop in Collection whose body removes or re-links cells does not iterate a lazy walk of the same chain (a generator method / "
             "graph iterator): it uses its own cursor or a materialised list; every new cell is an argument-free BNode()", floor=2)
    gens = {m for m, f in methods.items() if any(isinstance(x, (ast.Yield, ast.YieldFrom)) for x in own_nodes(f))}
    for mname, f in methods.items():
        al = _graph_aliases(f)
        for lp in [n for n in own_nodes(f) if isinstance(n, ast.For)]:
            muts = [c for s_ in lp.body for c in ast.walk(s_) if _gcall(c, al, {"remove", "set"})]
            if not muts:
                continue
            it = lp.iter
            lazy = None
            if isinstance(it, ast.Call) and isinstance(it.func, ast.Attribute):
                if isinstance(it.func.value, ast.Name) and it.func.value.id == "self" and it.func.attr in gens:
                    lazy = "self.%s() is a generator over the chain" % it.func.attr
                if norm(it.func.value) in al and it.func.attr in ("items", "objects", "triples", "subjects", "predicate_objects", "transitive_objects"):
                    lazy = "%s is a live iterator over the graph" % norm(it)[:40]
            if isinstance(it, ast.Name) and it.id == "self":
                lazy = "iterating the collection itself"
            rep.ob("C19.f-mutating-loops-and-fresh-cells", col, "Collection." + mname, "for %s in %s" % (norm(lp.target), norm(it)[:50]), lazy is None,
                   "iterates a materialised / independent sequence while editing cells" if lazy is None else
                   "cells are removed/re-linked while %s: the walk loses its way after the first edit and the remaining cells stay behind as orphans" % lazy, node=lp)
    for mname, f in methods.items():
        for c in own_nodes(f):
            if isinstance(c, ast.Call) and norm(c.func) == "BNode":
                ok = not c.args and not c.keywords
                rep.ob("C19.f-mutating-loops-and-fresh-cells", col, "Collection." + mname, c, ok,
                       "fresh cell" if ok else "a new cell is named from data (%s): after deletions the name can coincide with a cell still in the chain" % norm(c)[:60], node=c)
