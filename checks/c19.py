"""C19 - Collection: falsy members, termination on cyclic chains, chain upkeep
(DESIGN.md §2 C19)."""
from __future__ import annotations

import ast

from vlib import loops, truthy
from vlib.cfg import CFG
from vlib.core import AnalysisError, Repo, Report, norm, own_nodes

EXPLANATION = (
    "Rules over rdflib/collection.py and Graph.items: (a) members/cells are tested by identity, never truthiness "
    "(falsy members 0/''/false behave like any other), (b) every rdf:rest link walk terminates on a cyclic chain "
    "(counter bound, visited set that raises, or consumption of the link), (c) the Collection keeps no cached cell "
    "that a cell-deleting method fails to refresh, (d) appenders always terminate the chain with rdf:nil, clear "
    "removes both links of every cell, and a cell deletion is paired with a relink. Index arithmetic (negative "
    "indices, IndexError vs KeyError, head deletion) is value reasoning and not decided. (l) list nodes / cells (IdentifiedNode-typed, Optional "
    "or not) are never truth-tested either (<> is a falsy str), (m) every non-consuming rdf:rest walk raises on a revisited cell (a counter "
    "bound alone is not enough), (n) a wildcard-predicate removal never hits a subject that may be the list node."
)


def _graph_aliases(fn: ast.AST) -> set[str]:
    out = {"self.graph"}
    for n in own_nodes(fn):
        if isinstance(n, ast.Assign) and norm(n.value) == "self.graph" and isinstance(n.targets[0], ast.Name):
            out.add(n.targets[0].id)
    return out


def _gcall(c: ast.AST, aliases: set[str], meths: set[str]) -> bool:
    return isinstance(c, ast.Call) and isinstance(c.func, ast.Attribute) and c.func.attr in meths and norm(c.func.value) in aliases


def run(repo: Repo, rep: Report) -> None:
    rep.extra["explanation"] = EXPLANATION
    col = repo.mod("rdflib.collection")
    gr = repo.mod("rdflib.graph")
    methods = col.methods("Collection")
    scope = [(col, "Collection." + m, f) for m, f in methods.items()] + [(gr, "Graph.items", gr.func("Graph.items"))]
    for mod, q, f in scope:
        rep.analysed("%s:%s" % (mod.rel, q))

    # (a)
    rep.rule("C19.a-members-by-identity",
             "in Collection and Graph.items, absence of a member/cell is decided by identity with None (or by a "
             "pattern membership test), never by the truthiness of a term that may be a falsy Literal", floor=3)
    for mod, q, f in scope:
        truthy.scan(repo, rep, "C19.a-members-by-identity", mod, f, q)

    # (b)
    rep.rule("C19.b-link-walk-terminates",
             "every loop that follows rdf:rest from its own cursor is bounded by a counter, guarded by a visited "
             "set whose membership test leaves the loop, or removes the link it follows", floor=5)
    for mod, q, f in scope:
        for loop, cur in loops.link_walk_loops(f):
            why = loops.link_walk_guard(loop, cur, f)
            rep.ob("C19.b-link-walk-terminates", mod, q, "while %s: ... %s = rdf:rest of %s" % (norm(loop.test), cur, cur), why is not None,
                   why or "no counter, visited-set guard or link removal: the walk never ends on a cyclic rdf:rest chain", node=loop)
    # readers must go through a guarded walk: __len__/__iter__ delegate to Graph.items
    for m in ("__len__", "__iter__"):
        f = methods.get(m)
        if f is None:
            raise AnalysisError("Collection.%s vanished" % m)
        deleg = any(isinstance(c, ast.Call) and norm(c.func) == "self.graph.items" for c in ast.walk(f))
        own_loop = any(isinstance(n, (ast.While, ast.For)) for n in own_nodes(f))
        rep.ob("C19.b-link-walk-terminates", col, "Collection." + m, "delegates to Graph.items (guarded walk)", deleg or not own_loop,
               "reads through the cycle-checked Graph.items" if deleg else "walks the chain itself", node=f)

    # (c) derived state
    rep.rule("C19.c-no-stale-cell-cache",
             "an attribute of Collection assigned outside __init__ (derived state such as a cached tail cell) is "
             "re-assigned on every normal path after any statement that deletes a cell (remove((x, None, None)) / "
             "remove((x, RDF.first, None)))", floor=1)
    derived: dict[str, list[str]] = {}
    for m, f in methods.items():
        if m == "__init__":
            continue
        for n in own_nodes(f):
            if isinstance(n, (ast.Assign, ast.AugAssign, ast.AnnAssign)):
                tg = n.targets if isinstance(n, ast.Assign) else [n.target]
                for t in tg:
                    if isinstance(t, ast.Attribute) and isinstance(t.value, ast.Name) and t.value.id == "self":
                        derived.setdefault(t.attr, []).append(m)
    rep.info["derived_state_attributes"] = derived
    ncell = 0
    for m, f in methods.items():
        al = _graph_aliases(f)
        g = None
        for c in own_nodes(f):
            if _gcall(c, al, {"remove"}) and c.args and isinstance(c.args[0], ast.Tuple) and len(c.args[0].elts) == 3:
                s, p, o = c.args[0].elts
                cell_del = (isinstance(p, ast.Constant) and p.value is None) or (isinstance(p, ast.Attribute) and p.attr == "first")
                if not cell_del:
                    continue
                ncell += 1
                if g is None:
                    g = CFG(f)
                cn = g.node_of(c, col)
                missing = []
                for attr in derived:
                    assigns = set()
                    for nd in g.nodes:
                        st = nd.ast
                        if nd.kind == "stmt" and isinstance(st, (ast.Assign, ast.AnnAssign)):
                            tg = st.targets if isinstance(st, ast.Assign) else [st.target]
                            if any(norm(t) == "self." + attr for t in tg):
                                assigns.add(nd.id)
                    if not g.must_pass_after(cn, assigns):
                        missing.append(attr)
                rep.ob("C19.c-no-stale-cell-cache", col, "Collection." + m, c, not missing,
                       "no derived state to refresh" if not derived else ("derived state refreshed after the deletion" if not missing else
                       "cell deleted but cached attribute(s) %s (assigned in %s) are not refreshed on every path: a later operation may start from a detached cell" % (missing, {a: derived[a] for a in missing})),
                       node=c)
    if ncell < 2:
        raise AnalysisError("expected >= 2 cell deletions in Collection, found %d" % ncell)

    # (d) chain upkeep
    rep.rule("C19.d-chain-upkeep",
             "append/__iadd__ end every normal path with add((end, rdf:rest, rdf:nil)) after the last rdf:first they "
             "add; clear removes rdf:first and rdf:rest of each visited cell; __delitem__ pairs each cell deletion "
             "with a relink of the predecessor", floor=5)
    def _worker(f0):
        """the method that writes the new cell: f0 itself, or the Collection method it hands each item to (`self._append(end, item)`)"""
        def has_first(fn):
            return any(isinstance(c, ast.Call) and isinstance(c.func, ast.Attribute) and c.func.attr in ("add", "set") and c.args and isinstance(c.args[0], ast.Tuple)
                       and len(c.args[0].elts) == 3 and isinstance(c.args[0].elts[1], ast.Attribute) and c.args[0].elts[1].attr == "first" for c in own_nodes(fn))
        if has_first(f0):
            return f0
        for c in own_nodes(f0):
            if isinstance(c, ast.Call) and isinstance(c.func, ast.Attribute) and isinstance(c.func.value, ast.Name) and c.func.value.id == "self" and c.func.attr in methods and has_first(methods[c.func.attr]):
                return methods[c.func.attr]
        return f0

    for m in ("append", "__iadd__"):
        f = methods.get(m)
        if f is None:
            raise AnalysisError("Collection.%s vanished" % m)
        f = _worker(f)
        al = _graph_aliases(f)
        g = CFG(f)
        nil_adds = set()
        first_adds = []
        for c in own_nodes(f):
            if _gcall(c, al, {"add", "set"}) and c.args and isinstance(c.args[0], ast.Tuple) and len(c.args[0].elts) == 3:
                s, p, o = c.args[0].elts
                if isinstance(p, ast.Attribute) and p.attr == "rest" and isinstance(o, ast.Attribute) and o.attr == "nil":
                    nil_adds.add(g.node_of(c, col))
                if isinstance(p, ast.Attribute) and p.attr == "first":
                    first_adds.append(c)
        if not first_adds:
            raise AnalysisError("Collection.%s adds no rdf:first" % m)
        for c in first_adds:
            ok = g.must_pass_after(g.node_of(c, col), nil_adds)
            rep.ob("C19.d-chain-upkeep", col, "Collection." + m, c, ok,
                   "every path from this rdf:first to the return closes the chain with rdf:nil" if ok else
                   "a path adds a member but returns without (end, rdf:rest, rdf:nil): the chain is left open", node=c)
        # occupancy of the end cell decided by a pattern membership test (not value truthiness: covered by (a))
    f = methods.get("clear")
    if f is None:
        raise AnalysisError("Collection.clear vanished")
    al = _graph_aliases(f)
    removed = set()
    for c in own_nodes(f):
        if _gcall(c, al, {"remove"}) and c.args and isinstance(c.args[0], ast.Tuple):
            p = c.args[0].elts[1]
            if isinstance(p, ast.Attribute):
                removed.add(p.attr)
            elif isinstance(p, ast.Constant) and p.value is None:
                removed |= {"first", "rest"}
    rep.ob("C19.d-chain-upkeep", col, "Collection.clear", "removes rdf:first and rdf:rest of each cell", {"first", "rest"} <= removed,
           "both links removed" if {"first", "rest"} <= removed else "clear leaves %s triples behind (orphaned cells)" % sorted({"first", "rest"} - removed), node=f)
    f = methods.get("__delitem__")
    if f is None:
        raise AnalysisError("Collection.__delitem__ vanished")
    al = _graph_aliases(f)
    g = CFG(f)
    relinks = set()
    dels = []
    for c in own_nodes(f):
        if _gcall(c, al, {"set", "add"}) and c.args and isinstance(c.args[0], ast.Tuple) and len(c.args[0].elts) == 3:
            p = c.args[0].elts[1]
            if isinstance(p, ast.Attribute) and p.attr == "rest":
                relinks.add(g.node_of(c, col))
        if _gcall(c, al, {"remove"}) and c.args and isinstance(c.args[0], ast.Tuple):
            dels.append(c)
    for c in dels:
        cn = g.node_of(c, col)
        ok = g.must_pass_before(cn, relinks) or g.must_pass_after(cn, relinks)
        only_member = False
        if not ok:
            # deleting the only member needs no relink: the deletion sits in a branch taken when the deleted cell's rdf:rest is rdf:nil / absent
            subj = norm(c.args[0].elts[0])
            rest_names = {norm(a.targets[0]) for a in own_nodes(f) if isinstance(a, ast.Assign) and isinstance(a.value, ast.Call) and norm(a.value.func).endswith(".value")
                          and len(a.value.args) == 2 and norm(a.value.args[0]) == subj and norm(a.value.args[1]).endswith("RDF.rest")}
            child = c
            for p_ in col.parents(c):
                if isinstance(p_, ast.If) and any(child is x or any(child is y for y in ast.walk(x)) for x in p_.body):
                    for t in ast.walk(p_.test):
                        if isinstance(t, ast.Compare) and norm(t.left) in rest_names and (norm(t.comparators[0]).endswith("RDF.nil") or norm(t.comparators[0]) == "None") \
                                and isinstance(t.ops[0], (ast.Eq, ast.Is)):
                            only_member = True
                if p_ is f:
                    break
                child = p_
            ok = only_member
        rep.ob("C19.d-chain-upkeep", col, "Collection.__delitem__", c, ok,
               ("the deleted cell has no successor (only member): nothing to relink" if only_member else "cell deletion paired with a relink of rdf:rest on the same path") if ok else
               "a path deletes a cell without relinking its predecessor: the chain is broken", node=c)
    if not dels:
        raise AnalysisError("Collection.__delitem__ deletes no cell")

    # ------------------------------------------------------------------ (e) errors of guarded walks are not swallowed
    rep.rule("C19.e-walk-errors-propagate",
             "no Collection method catches ValueError/Exception (or everything) around a call to one of the chain walks (index, _end, _get_container, "
             "graph.items, iteration) without re-raising: a cyclic or broken chain must raise, not be reported as `absent`", floor=1)
    walks = {"index", "_end", "_get_container", "items", "__iter__", "__len__"}
    nh = 0
    for mname, f in methods.items():
        for t in [n for n in own_nodes(f) if isinstance(n, ast.Try)]:
            calls_walk = any(isinstance(c, ast.Call) and isinstance(c.func, ast.Attribute) and c.func.attr in walks for s_ in t.body for c in ast.walk(s_))
            if not calls_walk:
                continue
            for h in t.handlers:
                nh += 1
                tn = norm(h.type) if h.type is not None else "<bare>"
                broad = h.type is None or any(x in tn for x in ("ValueError", "Exception", "BaseException"))
                reraises = any(isinstance(x, ast.Raise) for s_ in h.body for x in ast.walk(s_))
                rep.ob("C19.e-walk-errors-propagate", col, "Collection." + mname, "except %s around a chain walk" % tn, (not broad) or reraises,
                       "narrow / re-raising handler" if (not broad) or reraises else
                       "the handler swallows %s raised by a chain walk: `List contains a recursive rdf:rest reference` is turned into an ordinary answer" % tn, node=h)
    if nh == 0:
        rep.ob("C19.e-walk-errors-propagate", col, "Collection", "no handler encloses a chain walk", True, "nothing can swallow a walk's error", node=col.cls("Collection"))

    # ------------------------------------------------------------------ (f) mutate only over materialised walks / fresh cells
    rep.rule("C19.f-mutating-loops-and-fresh-cells",
             "a loop in Collection whose body removes or re-links cells does not iterate a lazy walk of the same chain (a generator method / "
             "graph iterator): it uses its own cursor or a materialised list; every new cell is an argument-free BNode()", floor=2)
    gens = {m for m, f in methods.items() if any(isinstance(x, (ast.Yield, ast.YieldFrom)) for x in own_nodes(f))}
    for mname, f in methods.items():
        al = _graph_aliases(f)
        for lp in [n for n in own_nodes(f) if isinstance(n, ast.For)]:
            muts = [c for s_ in lp.body for c in ast.walk(s_) if _gcall(c, al, {"remove", "set"})]
            if not muts:
                continue
            it = lp.iter
            lazy = None
            if isinstance(it, ast.Call) and isinstance(it.func, ast.Attribute):
                if isinstance(it.func.value, ast.Name) and it.func.value.id == "self" and it.func.attr in gens:
                    lazy = "self.%s() is a generator over the chain" % it.func.attr
                if norm(it.func.value) in al and it.func.attr in ("items", "objects", "triples", "subjects", "predicate_objects", "transitive_objects"):
                    lazy = "%s is a live iterator over the graph" % norm(it)[:40]
            if isinstance(it, ast.Name) and it.id == "self":
                lazy = "iterating the collection itself"
            rep.ob("C19.f-mutating-loops-and-fresh-cells", col, "Collection." + mname, "for %s in %s" % (norm(lp.target), norm(it)[:50]), lazy is None,
                   "iterates a materialised / independent sequence while editing cells" if lazy is None else
                   "cells are removed/re-linked while %s: the walk loses its way after the first edit and the remaining cells stay behind as orphans" % lazy, node=lp)
    for mname, f in methods.items():
        for c in own_nodes(f):
            if isinstance(c, ast.Call) and norm(c.func) == "BNode":
                ok = not c.args and not c.keywords
                rep.ob("C19.f-mutating-loops-and-fresh-cells", col, "Collection." + mname, c, ok,
                       "fresh cell" if ok else "a new cell is named from data (%s): after deletions the name can coincide with a cell still in the chain" % norm(c)[:60], node=c)


_run_base = run


def run(repo: Repo, rep: Report) -> None:  # noqa: F811
    _run_base(repo, rep)
    col = repo.mod("rdflib.collection")
    m = col.methods("Collection")
    gc = m["_get_container"]
    idx = gc.args.args[1].arg

    # ------------------------------------------------------------------ (g)
    rep.rule("C19.g-nil-is-not-a-cell",
             "Collection._get_container, the only source of the cell that __getitem__/__setitem__/__delitem__ read and write, never returns rdf:nil: the walk stops being a cell at "
             "rdf:nil (returns None, which the callers turn into IndexError). Returning rdf:nil for index == len makes `c[len(c)] = x` assert rdf:first on rdf:nil itself - the shared "
             "terminator of every list in the graph", floor=2)
    cur = None
    for n in own_nodes(gc):
        if isinstance(n, ast.Assign) and isinstance(n.targets[0], ast.Name) and "RDF.rest" in norm(n.value):
            pass
    rets = [r for r in own_nodes(gc) if isinstance(r, ast.Return) and r.value is not None and not (isinstance(r.value, ast.Constant) and r.value.value is None)]
    if not rets:
        raise AnalysisError("_get_container: no value return")
    for r in rets:
        cur = norm(r.value)
        guard = [n for n in own_nodes(gc) if isinstance(n, ast.If) and n.lineno < r.lineno and any(isinstance(c, ast.Compare) and {norm(c.left), norm(c.comparators[0])} == {cur, "RDF.nil"} for c in ast.walk(n.test))
                 and any(isinstance(x, ast.Return) and (x.value is None or (isinstance(x.value, ast.Constant) and x.value.value is None)) for x in n.body)]
        loop_excl = [n for n in own_nodes(gc) if isinstance(n, ast.While) and "RDF.nil" in norm(n.test) and cur in norm(n.test)]
        ok = bool(guard)
        rep.ob("C19.g-nil-is-not-a-cell", col, "Collection._get_container", "return %s" % cur, ok,
               "rdf:nil is mapped to None before the return" if ok else
               "for index == len(list) the walk ends on rdf:nil and returns it as if it were a cell: __getitem__ raises KeyError instead of IndexError, and __setitem__ writes (rdf:nil rdf:first x) into the graph", node=r)
    for name in ("__getitem__", "__setitem__"):
        f = m[name]
        raises = any(isinstance(n, ast.Raise) and "IndexError" in norm(n) for n in own_nodes(f))
        rep.ob("C19.g-nil-is-not-a-cell", col, "Collection." + name, "missing cell -> IndexError", raises, "" if raises else "no IndexError raised for a missing cell", node=f)
    # __setitem__: when the addressed cell does not exist, nothing is written (a list raises IndexError for every index outside range(len))
    f = m["__setitem__"]
    top = [n for n in f.body if isinstance(n, ast.If)]
    if top:
        def leaves(orelse):
            for st in orelse:
                if isinstance(st, ast.If):
                    yield from ((b, st) for b in st.body)
                    yield from leaves(st.orelse)
                else:
                    yield st, None
        for st, guard in leaves(top[0].orelse):
            if isinstance(st, ast.Raise):
                continue
            writes = any(isinstance(c, ast.Call) and isinstance(c.func, ast.Attribute) and c.func.attr in ("append", "add", "set", "__iadd__") for c in ast.walk(st)) or isinstance(st, ast.AugAssign)
            if writes:
                rep.ob("C19.g-nil-is-not-a-cell", col, "Collection.__setitem__", st, False,
                       "on the path where the addressed cell does not exist (%s) the list is modified instead of IndexError being raised" % (norm(guard.test) if guard is not None else "else"), node=st)

    # ------------------------------------------------------------------ (h)
    rep.rule("C19.h-negative-index-counts-from-the-end",
             "an index below zero is normalised by adding the length (in _get_container, and in __delitem__ before it does arithmetic on the key) - a walk `while i < index` "
             "with a negative index does not move and silently addresses the first cell: c[-1] reads, writes and deletes element 0", floor=2)
    for name, f, var in (("_get_container", gc, idx), ("__delitem__", m["__delitem__"], m["__delitem__"].args.args[1].arg)):
        norm_neg = [n for n in own_nodes(f) if isinstance(n, ast.If) and any(isinstance(c, ast.Compare) and norm(c.left) == var and isinstance(c.ops[0], ast.Lt) and norm(c.comparators[0]) == "0" for c in ast.walk(n.test))
                    and any(isinstance(x, ast.AugAssign) and norm(x.target) == var and "len(" in norm(x.value) for x in ast.walk(n))]
        rep.ob("C19.h-negative-index-counts-from-the-end", col, "Collection." + name, "if %s < 0: %s += len(self)" % (var, var), bool(norm_neg),
               "" if norm_neg else "a negative %s is used as it is: the walk/arithmetic treats it as 0 (or as `before the head`)" % var, node=f)

    # ------------------------------------------------------------------ (i)
    rep.rule("C19.i-head-deletion-does-not-relink-a-predecessor",
             "__delitem__ asks for the predecessor cell (_get_container(key - 1)) only under a test that key > 0: for the head there is no predecessor - with the head's own cell "
             "(or, once negative indices count from the end, the LAST cell) standing in for it, the relink closes the chain into a cycle or leaves a cell without rdf:first", floor=1)
    di = m["__delitem__"]
    kv = di.args.args[1].arg
    n_sites = 0
    for c in own_nodes(di):
        if isinstance(c, ast.Call) and norm(c.func) == "self._get_container" and c.args and norm(c.args[0]).replace(" ", "") == "%s-1" % kv:
            n_sites += 1
            guarded = False
            child = c
            for p_ in col.parents(c):
                if isinstance(p_, ast.If):
                    in_body = any(child is x or any(child is y for y in ast.walk(x)) for x in p_.body)
                    t = norm(p_.test).replace(" ", "")
                    if in_body and ("%s>0" % kv in t or "%s>=1" % kv in t or "%s!=0" % kv in t):
                        guarded = True
                    if not in_body and ("%s==0" % kv == t or "%s<1" % kv == t):
                        guarded = True
                if p_ is di:
                    break
                child = p_
            rep.ob("C19.i-head-deletion-does-not-relink-a-predecessor", col, "Collection.__delitem__", c, guarded,
                   "only for key > 0" if guarded else "_get_container(%s - 1) is evaluated for key == 0 as well: the `predecessor` of the head is the head itself (or the last cell)" % kv, node=c)
    if n_sites == 0:
        rep.ob("C19.i-head-deletion-does-not-relink-a-predecessor", col, "Collection.__delitem__", "no predecessor lookup by index arithmetic", True, "", node=di)


_run_base2 = run


def run(repo: Repo, rep: Report) -> None:  # noqa: F811
    _run_base2(repo, rep)
    col = repo.mod("rdflib.collection")
    m = col.methods("Collection")
    # ------------------------------------------------------------------ (j)
    rep.rule("C19.j-cell-occupancy-is-read-from-the-graph",
             "append and __iadd__ decide whether the end cell already holds a member by asking the graph (`(end, rdf:first, None) in graph`) for the cell they are about to fill, "
             "at the point of filling it: inside __iadd__'s loop, once per item. A flag computed before the loop (`the end cell is the head of an empty list`) is wrong for the "
             "one-member list, whose end cell is the head too, and stale after the first item", floor=2)
    def _first_adds(fn):
        return [c for c in own_nodes(fn) if isinstance(c, ast.Call) and isinstance(c.func, ast.Attribute) and c.func.attr in ("add", "set") and c.args and isinstance(c.args[0], ast.Tuple)
                and len(c.args[0].elts) == 3 and norm(c.args[0].elts[1]).endswith("RDF.first")]

    for name in ("append", "__iadd__"):
        f = m[name]
        adds = _first_adds(f)
        if not adds:
            # the cell is written by a helper that is handed each item: the helper is judged, and in __iadd__ it has to be called once per item (inside the loop)
            calls = [c for c in own_nodes(f) if isinstance(c, ast.Call) and isinstance(c.func, ast.Attribute) and norm(c.func.value) == "self" and c.func.attr in m and _first_adds(m[c.func.attr])]
            if not calls:
                raise AnalysisError("Collection.%s adds no rdf:first" % name)
            if name == "__iadd__":
                per_item = all(any(isinstance(p_, (ast.For, ast.While)) for p_ in col.parents(c) if p_ is not f) for c in calls)
                rep.ob("C19.j-cell-occupancy-is-read-from-the-graph", col, "Collection." + name, calls[0], per_item,
                       "the cell-writing helper is called once per item" if per_item else "the cell-writing helper is not called inside the loop over the items", node=calls[0])
            f = m[calls[0].func.attr]
            adds = _first_adds(f)
        for a in adds:
            cell = norm(a.args[0].elts[0])
            fresh = isinstance(a.args[0].elts[0], ast.Name) and any(isinstance(x, ast.Assign) and norm(x.targets[0]) == cell and isinstance(x.value, ast.Call) and norm(x.value.func) == "BNode" for x in own_nodes(f))
            if fresh:
                rep.ob("C19.j-cell-occupancy-is-read-from-the-graph", col, "Collection." + name, a, True, "a cell made for this item (a new BNode): it holds no member yet", node=a)
                continue
            # the nearest enclosing loop (or the function) must contain, before the add, an If whose test is a membership test on (cell, RDF.first, None)
            scope = f
            for p_ in col.parents(a):
                if isinstance(p_, (ast.For, ast.While)):
                    scope = p_
                    break
                if p_ is f:
                    break
            tests = [n for n in ast.walk(scope) if isinstance(n, ast.If) and n.lineno < a.lineno and any(
                isinstance(c, ast.Compare) and isinstance(c.ops[0], (ast.In, ast.NotIn)) and isinstance(c.left, ast.Tuple) and len(c.left.elts) == 3
                and norm(c.left.elts[0]) == cell and norm(c.left.elts[1]).endswith("RDF.first") for c in ast.walk(n.test))]
            rep.ob("C19.j-cell-occupancy-is-read-from-the-graph", col, "Collection." + name, a, bool(tests),
                   "occupancy of %s read from the graph %s" % (cell, "in the loop" if scope is not f else "before filling") if tests else
                   "the member is written to %s without asking the graph, in this %s, whether that cell already has one: on a one-member list `c += [x]` writes a second rdf:first onto the head cell" % (cell, "loop iteration" if scope is not f else "call"), node=a)


_run_base3 = run


def run(repo: Repo, rep: Report) -> None:  # noqa: F811
    _run_base3(repo, rep)
    col = repo.mod("rdflib.collection")
    f = col.methods("Collection")["__iadd__"]
    par = f.args.args[1].arg
    rep.rule("C19.k-iadd-works-on-a-materialised-nonempty-input",
             "Collection.__iadd__ (1) materialises its iterable (list(other) / tuple(other)) before the first change to the graph - the argument may be a lazy view of this very "
             "list (`c += c`, `c += (x for x in c)`), and appending while walking it never ends; (2) returns before touching the graph when there is nothing to add - it detaches "
             "the rdf:nil terminator first and re-attaches it at the end, which on an empty list would leave a head cell with rdf:rest but no rdf:first", floor=2)
    _meths = col.methods("Collection")

    def _mutates(fn):
        return any(isinstance(c, ast.Call) and isinstance(c.func, ast.Attribute) and c.func.attr in ("add", "remove", "set") and "graph" in norm(c.func.value) for c in own_nodes(fn))
    muts = [c for c in own_nodes(f) if isinstance(c, ast.Call) and isinstance(c.func, ast.Attribute) and (
        c.func.attr in ("add", "remove", "set") and "graph" in norm(c.func.value)
        or norm(c.func.value) == "self" and c.func.attr in _meths and _mutates(_meths[c.func.attr]))]
    if not muts:
        raise AnalysisError("Collection.__iadd__: no graph mutation found")
    first_mut = min(c.lineno for c in muts)
    mat = [a for a in own_nodes(f) if isinstance(a, ast.Assign) and isinstance(a.value, ast.Call) and norm(a.value.func) in ("list", "tuple") and a.value.args and norm(a.value.args[0]) == par and a.lineno < first_mut]
    loops_ = [n for n in own_nodes(f) if isinstance(n, ast.For)]
    src = norm(mat[0].targets[0]) if mat else None
    ok1 = bool(mat) and all(norm(l.iter) == src for l in loops_)
    rep.ob("C19.k-iadd-works-on-a-materialised-nonempty-input", col, "Collection.__iadd__", mat[0] if mat else "for item in %s" % par, ok1,
           "materialised before the first graph change" if ok1 else "the loop walks the argument itself while cells are appended: `c += c` does not terminate", node=mat[0] if mat else (loops_[0] if loops_ else f))
    early = [n for n in own_nodes(f) if isinstance(n, ast.If) and n.lineno < first_mut and isinstance(n.test, ast.UnaryOp) and isinstance(n.test.op, ast.Not) and norm(n.test.operand) in (src, par)
             and any(isinstance(r, ast.Return) for r in n.body)]
    # (nothing to guard if every change to the graph is made inside the loop over the items: no item, no change)
    outside = [c for c in muts if not any(isinstance(p_, (ast.For, ast.While)) and norm(getattr(p_, "iter", p_)) == src for p_ in col.parents(c) if p_ is not f)]
    no_change_without_items = not early and not outside and bool(loops_)
    shown = early[0].test if early else ("every change is made per item, in `for .. in %s`" % src if no_change_without_items else "if not <items>: return self")
    rep.ob("C19.k-iadd-works-on-a-materialised-nonempty-input", col, "Collection.__iadd__", shown, bool(early) or no_change_without_items,
           "nothing to add: the graph is left alone" if (early or no_change_without_items) else "with an empty argument the terminator is detached and re-attached anyway: on an empty list `c += []` leaves (head rdf:rest rdf:nil) without rdf:first, after which c[0] raises KeyError", node=early[0] if early else (loops_[0] if no_change_without_items else f))


_run_base4 = run


def run(repo: Repo, rep: Report) -> None:  # noqa: F811
    _run_base4(repo, rep)
    from vlib import h_c19

    col = repo.mod("rdflib.collection")
    gr = repo.mod("rdflib.graph")
    methods = col.methods("Collection")
    scope = [(col, "Collection." + m, f) for m, f in methods.items()] + [(gr, "Graph.items", gr.func("Graph.items"))]

    # ------------------------------------------------------------------ (l) list nodes / cells by identity
    # (a) looks at Optional[...] values that may be a falsy Literal.  The list node and the cells are terms too: <> (URIRef(''),
    # what a relative IRI reference to the document itself is before resolution) and BNode('') are falsy str instances.
    rep.rule("C19.l-list-node-and-cells-by-identity",
             "in Collection and Graph.items no expression whose static type is a term class (IdentifiedNode, URIRef, BNode, Node ..., Optional or not) is "
             "tested by truthiness: absence of a list node / cell is `is None`. With `uri or BNode()` Collection(g, URIRef('')) silently works on a fresh "
             "blank node instead of <>, and with `while cell:` iteration over [a, b, c] whose second cell is <> stops after a", floor=6)
    term_classes = set(repo.typed.subclasses("rdflib.term.Node")) - set(repo.typed.subclasses("rdflib.graph.Graph"))
    if "rdflib.term.IdentifiedNode" not in term_classes or "rdflib.term.URIRef" not in term_classes:
        raise AnalysisError("term class hierarchy not found under rdflib.term.Node")

    def term_fact(mod, e):
        tf = repo.typed.type_of(mod.name, e)
        if tf is None or not any(i in term_classes for i in tf.items):
            return None
        # sites of rule (a): Optional and able to hold a Literal - not repeated here
        if tf.optional and truthy.domain_hits(repo, tf):
            return None
        return tf

    for mod, q, f in scope:
        nonec = truthy.none_constants(mod)
        for n in own_nodes(f, include_nested=True):
            if isinstance(n, ast.Compare) and len(n.ops) == 1 and isinstance(n.ops[0], (ast.Is, ast.IsNot, ast.Eq, ast.NotEq)):
                l_, r_ = n.left, n.comparators[0]
                tgt = l_ if truthy._is_none(r_, nonec) else (r_ if truthy._is_none(l_, nonec) else None)
                tf = term_fact(mod, tgt) if tgt is not None else None
                if tf is not None:
                    rep.ob("C19.l-list-node-and-cells-by-identity", mod, q, n, True, "%s : %s compared with None" % (norm(tgt), tf.text), node=n)
        seen_l: set[int] = set()
        for e, owner, kind in truthy.bool_contexts(f):
            if id(e) in seen_l or isinstance(e, (ast.Compare, ast.Constant)):
                continue
            seen_l.add(id(e))
            tf = term_fact(mod, e)
            if tf is None:
                continue
            ctx = norm(owner.test) if hasattr(owner, "test") else norm(owner)
            rep.ob("C19.l-list-node-and-cells-by-identity", mod, q, "%s [in %s: %s]" % (norm(e), kind, ctx[:120]), False,
                   "truthiness of %s : %s - the node <> (URIRef('')) or BNode('') is a falsy str: it is taken for `no node`" % (norm(e), tf.text), node=e)

    # ------------------------------------------------------------------ (m) every walk RAISES on a cycle
    # (b) is about termination, and a counter bound terminates - but `while i < index` alone walks round a cyclic chain and hands
    # out a cell for every index, where len() and iteration raise.
    rep.rule("C19.m-every-walk-raises-on-a-cycle",
             "every loop of Collection / Graph.items that follows rdf:rest from its own cursor without consuming the link keeps a visited set and RAISES when "
             "a cell comes up again, on every path between two steps - all readers agree with len()/iteration. A walk that is only bounded by a counter "
             "answers c[k], c[k] = x and del c[k] for any k on a cyclic chain as if the list had that many members", floor=4)
    n_walks = 0
    for mod, q, f in scope:
        g = None
        for loop, cur in loops.link_walk_loops(f):
            n_walks += 1
            consumed = loops._removes_link(loop, cur)
            if consumed:
                rep.ob("C19.m-every-walk-raises-on-a-cycle", mod, q, "while %s: ... (%s)" % (norm(loop.test), consumed[:80]), True,
                       "the walk deletes the link it follows: it cannot come back to a cell", node=loop)
                continue
            if g is None:
                g = CFG(f)
            ok, why = h_c19.raising_cycle_guard(g, mod, loop, cur)
            rep.ob("C19.m-every-walk-raises-on-a-cycle", mod, q, "while %s: ... %s = rdf:rest of %s" % (norm(loop.test), cur, cur), ok,
                   why if ok else why + ": on a cyclic rdf:rest chain this walk goes round and returns a cell (or never ends) instead of raising like len(c)", node=loop)
    if n_walks < 4:
        raise AnalysisError("expected >= 4 rdf:rest walks in Collection / Graph.items, found %d" % n_walks)

    # ------------------------------------------------------------------ (n) the list node is never wiped
    rep.rule("C19.n-list-node-is-never-wiped",
             "a removal with a wildcard predicate, graph.remove((x, None, None)), in Collection only hits a cell that cannot be the list node self.uri: x is (by "
             "def-use) the value of an rdf:rest lookup, or _get_container(k) with k > 0 established on every path. The list node is a resource of its own "
             "(rdf:type, labels, owl:unionOf subject ...): emptying the list through it - del c[0] on a one-member list - removes rdf:first/rdf:rest only, "
             "exactly like clear() and like del c[0] on a longer list", floor=2)
    nonec = truthy.none_constants(col)
    n_wipes = 0
    n_cell_removals = 0
    for mname, f in methods.items():
        al = _graph_aliases(f)
        g = None
        for c in own_nodes(f):
            if not (_gcall(c, al, {"remove"}) and c.args and isinstance(c.args[0], ast.Tuple) and len(c.args[0].elts) == 3):
                continue
            n_cell_removals += 1
            s, p, o = c.args[0].elts
            if not truthy._is_none(p, nonec):
                continue
            n_wipes += 1
            if g is None:
                g = CFG(f)
            reasons = h_c19.head_possible(g, col, c, s)
            rep.ob("C19.n-list-node-is-never-wiped", col, "Collection." + mname, c, not reasons,
                   "%s is a successor cell / a cell at an index > 0" % norm(s) if not reasons else
                   "%s may be the list node (%s): every statement about the list node goes, not just its rdf:first/rdf:rest - e.g. emptying [x] whose node carries "
                   "(c.uri rdf:type T) deletes that triple too, where removing the two links leaves it" % (norm(s), "; ".join(sorted(set(reasons)))[:300]), node=c)
    if n_cell_removals < 4:
        raise AnalysisError("expected >= 4 graph.remove((s, p, o)) calls in Collection, found %d" % n_cell_removals)
    if n_wipes == 0:
        rep.ob("C19.n-list-node-is-never-wiped", col, "Collection", "no wildcard-predicate removal", True, "cells are removed link by link", node=col.cls("Collection"))
