"""C13 - reads are pure: no store mutation reachable from a read-only entry
point on a receiver that may alias the source (DESIGN.md §2 C13)."""
from __future__ import annotations

import ast

from vlib.core import AnalysisError, Repo, Report, canon, norm, own_nodes
from vlib.effects import GRAPH, STORE, Effects  # noqa: F401  (the engine; run() uses its refinement vlib.h_c13.PurityEffects)

EXPLANATION = (
    "Whole-package effect analysis (vlib/effects.py): per-function flow-sensitive origin tracking of every "
    "Graph/Store-typed receiver (FRESH = created here, or parameter-rooted access path), primitive mutators = the "
    "Graph/Store API methods that change triples or the set of graphs (+ `+=`/`-=` on graphs), summaries solved "
    "over the mypy-resolved, override-closed call graph (1-CFA on constant boolean flags; store-identity tests "
    "refine aliasing). The result of a call of a package function has the origin the callee's return statements give it "
    "(return summary, mapped through the arguments), not 'receiver and every argument'; a call whose callee is a value - a "
    "local alias, a lookup in a literal table of functions - calls every function that value can denote "
    "(vlib/h_c13.py: PurityEffects). For every read-only entry point the summary must contain no path rooted at the source. "
    "Also: the in-memory stores' read methods never write their index dicts. Determinism of repeated reads is not decided."
)

# out-parameters: a read API that writes into a graph the CALLER supplies for that purpose
OUT_PARAMS = {
    "rdflib.graph.Graph.cbd": {"target_graph"},
    "rdflib.graph.Graph.skolemize": {"new_graph"},
    "rdflib.graph.Graph.de_skolemize": {"new_graph"},
}

# benign mutation sites on read paths, one line of reason each (function, normalised construct)
# mutation sites on read paths that are accepted, with the reason.  Empty since F174: the two rows this table had
# (`self.graph(DATASET_DEFAULT_GRAPH_ID)` in Dataset.contexts / Dataset.graphs, "idempotent registration of the default graph")
# were a genuine defect - the registration is visible through store.contexts() and changes the order in which the quad
# serializers write the graphs; the audit round found it, /repo commit f71a4649 removed it and the rows went with it.
BENIGN: dict[tuple[str, str], str] = {}

GRAPH_READ_METHODS = [
    "triples", "__iter__", "__len__", "__contains__", "__getitem__", "subjects", "predicates", "objects",
    "subject_predicates", "subject_objects", "predicate_objects", "triples_choices", "value", "items",
    "transitiveClosure", "transitive_objects", "transitive_subjects", "isomorphic", "connected", "all_nodes",
    "cbd", "serialize", "query", "__eq__", "__lt__", "__le__", "__gt__", "__ge__", "__hash__", "__add__", "__sub__",
    "__mul__", "__xor__", "skolemize", "de_skolemize", "namespaces", "print", "n3", "__str__", "__repr__",
    "quads", "contexts", "graphs", "get_graph", "get_context", "context_id", "collection", "resource",
]


def serializer_classes(repo: Repo) -> list[tuple[str, str, str]]:
    """(format name, module, class) from the literal registration table of rdflib/plugin.py"""
    pl = repo.mod("rdflib.plugin")
    out = []
    for n in ast.walk(pl.tree):
        if isinstance(n, ast.Call) and isinstance(n.func, ast.Name) and n.func.id == "register" and len(n.args) == 4:
            name, kind, module, cls = n.args
            if isinstance(kind, ast.Name) and kind.id == "Serializer" and all(isinstance(x, ast.Constant) for x in (name, module, cls)):
                out.append((name.value, module.value, cls.value))
    return out


def drop_benign(eff: Effects, rep: Report, rule: str) -> None:
    """remove the table's benign mutation/call events before solving; each is reported as an instance"""
    eff.interpret_all()
    seen = set()
    benign = {(a, canon(b)): (a, b) for (a, b) in BENIGN}
    for full, fi in eff.funcs.items():
        base = full.split("@")[0]
        keep = []
        for ev in fi.events:
            key = benign.get((base, canon(ev[1])))
            if key in BENIGN:
                if key not in seen:
                    seen.add(key)
                    rep.ob(rule, fi.mod, base, ev[1], True, "benign (table): " + BENIGN[key], node=ev[1])
                continue
            keep.append(ev)
        fi.events = keep
    for key in BENIGN:
        if key not in seen:
            # a stale table row is not an error of the tree, but say so
            rep.info.setdefault("stale_benign_rows", []).append(list(key))


def check_entry(eff: Effects, rep: Report, rule: str, full: str, sources: set[str], label: str, out_params: set[str] = frozenset()) -> None:
    fi = eff.funcs.get(full)
    if fi is None:
        raise AnalysisError("entry point vanished: %s" % full)
    bad = []
    for path in sorted(fi.summary):
        root = path.split(".")[0]
        if root in out_params:
            continue
        if root in sources:
            bad.append(path)
    rep.analysed(full)
    if not bad:
        rep.ob(rule, fi.mod, full.split(".", 2)[-1] if False else full, label, True,
               "no mutation of %s reachable (summary: %s)" % (sorted(sources), sorted(fi.summary) or "{}"), node=fi.node)
        return
    chain = eff.witness_chain(full, bad[0])
    rep.ob(rule, fi.mod, full, label, False,
           "a store mutation on the source (%s) is reachable: %s" % (bad[0], " -> ".join(c.split("  [")[0].split(" ", 1)[-1] + " :: " + c.split("] ", 1)[-1][:70] for c in chain[-3:])),
           node=fi.node, path=chain)


def run(repo: Repo, rep: Report) -> None:
    rep.extra["explanation"] = EXPLANATION
    from vlib.h_c13 import PurityEffects

    eff = PurityEffects(repo)
    typed = repo.typed

    rep.rule("C13.z-benign-sites", "mutation sites on read paths that are exempt by an explicit table row with a reason", floor=0)
    drop_benign(eff, rep, "C13.z-benign-sites")
    eff.solve()
    n_mut = sum(1 for f in eff.funcs.values() for e in f.events if e[0] == "mut")
    n_call = sum(1 for f in eff.funcs.values() for e in f.events if e[0] == "call")
    rep.info["functions_interpreted"] = len(eff.funcs)
    rep.info["primitive_mutation_sites"] = n_mut
    rep.info["resolved_call_sites"] = n_call
    rep.info["evalfn_targets"] = len(eff.evalfns)
    rep.info["calls_whose_result_is_judged_by_the_callees_return_summary"] = eff.n_return_summaries_used
    rep.info["calls_through_a_table_or_local_alias_resolved"] = eff.n_table_calls
    if n_mut < 100 or n_call < 3000 or len(eff.evalfns) < 40:
        raise AnalysisError("effect analysis lost resolution: %d mutation sites, %d call sites, %d evalfns" % (n_mut, n_call, len(eff.evalfns)))
    # positive control: known writers must be seen as writers
    for w, p in (("rdflib.graph.Graph.add", "self"), ("rdflib.graph.Graph.__iadd__", "self"), ("rdflib.graph.Graph.parse", "self"),
                 ("rdflib.plugins.sparql.update.evalUpdate", "graph"), ("rdflib.graph.ConjunctiveGraph.add", "self")):
        fi = eff.funcs.get(w)
        if fi is None or not any(x.split(".")[0] == p for x in fi.summary):
            raise AnalysisError("positive control failed: %s is not recognised as mutating %s" % (w, p))

    # ------------------------------------------------------------ serializers
    rep.rule("C13.a-serializers-pure",
             "constructing and running any registered serializer never mutates the graph/dataset it serialises", floor=20)
    sers = serializer_classes(repo)
    if len(sers) < 20:
        raise AnalysisError("expected >= 20 serializer registrations, found %d" % len(sers))
    seen = set()
    for fmt, module, cls in sers:
        if (module, cls) in seen:
            continue
        seen.add((module, cls))
        cfull = "%s.%s" % (module, cls)
        for meth in ("__init__", "serialize"):
            m = typed.resolve_method(cfull, meth)
            if m is None or m not in eff.funcs:
                raise AnalysisError("serializer method not found: %s.%s" % (cfull, meth))
            src = {"self"} if meth == "serialize" else {"store", "self"}
            check_entry(eff, rep, "C13.a-serializers-pure", m, src, "%s.%s (format %s)" % (cls, meth, fmt))

    # ------------------------------------------------------------------ query
    rep.rule("C13.b-queries-pure",
             "evaluating a SELECT/ASK/CONSTRUCT/DESCRIBE query (evalQuery and everything evalPart / expression "
             "functions dispatch to, QueryContext construction with FROM clauses) never mutates the queried graph", floor=8)
    check_entry(eff, rep, "C13.b-queries-pure", "rdflib.plugins.sparql.evaluate.evalQuery", {"graph"}, "evalQuery(graph, ...)")
    check_entry(eff, rep, "C13.b-queries-pure", "rdflib.plugins.sparql.processor.SPARQLProcessor.query", {"self"}, "SPARQLProcessor.query")
    check_entry(eff, rep, "C13.b-queries-pure", "rdflib.plugins.sparql.sparql.QueryContext.__init__", {"graph"}, "QueryContext(graph, datasetClause=...)")
    check_entry(eff, rep, "C13.b-queries-pure", "rdflib.plugins.sparql.evaluate.evalPart", {"ctx"}, "evalPart(ctx, part)")
    for q in ("evalConstructQuery", "evalDescribeQuery", "evalSelectQuery", "evalAskQuery"):
        check_entry(eff, rep, "C13.b-queries-pure", "rdflib.plugins.sparql.evaluate." + q, {"ctx"}, q)
    for fn in eff.evalfns:
        check_entry(eff, rep, "C13.b-queries-pure", fn, set(eff.funcs[fn].params[-1:]) | {"ctx", "e", "expr"}, "expression function %s" % fn.rsplit(".", 1)[1])

    # ------------------------------------------------------------------ paths
    rep.rule("C13.c-paths-pure", "evaluating a property path never mutates the graph", floor=6)
    for c in typed.subclasses("rdflib.paths.Path"):
        m = c + ".eval"
        if m in eff.funcs and c != "rdflib.paths.Path":
            check_entry(eff, rep, "C13.c-paths-pure", m, {"graph"}, c.rsplit(".", 1)[1] + ".eval")
    check_entry(eff, rep, "C13.c-paths-pure", "rdflib.paths.eval_path", {"graph"}, "eval_path")

    # ---------------------------------------------------------------- compare
    rep.rule("C13.d-compare-pure", "isomorphism, canonicalisation and graph_diff never mutate their input graphs", floor=5)
    cmpm = repo.mod("rdflib.compare")
    for q, f in cmpm.functions():
        if "." in q and not q.startswith(("IsomorphicGraph.", "_TripleCanonicalizer.")):
            continue
        if q.split(".")[-1].startswith("__") and q.split(".")[-1] not in ("__init__", "__eq__", "__ne__", "__hash__"):
            continue
        full = "rdflib.compare." + q
        params = eff.funcs[full].params
        src = {p for p in params if p in ("graph", "graph1", "graph2", "g1", "g2", "self", "other")}
        if not src:
            continue
        if q == "IsomorphicGraph.__init__":
            src = {"self"} & src  # a new graph being built
            continue
        check_entry(eff, rep, "C13.d-compare-pure", full, src, q)

    # --------------------------------------------------------------- read API
    rep.rule("C13.e-read-api-pure",
             "the read API of Graph / ConjunctiveGraph / Dataset / ReadOnlyGraphAggregate (pattern access, iteration, "
             "len, membership, slicing, value/items, set operators, closures, serialize, query) never mutates the receiver", floor=60)
    for cls in ("rdflib.graph.Graph", "rdflib.graph.ConjunctiveGraph", "rdflib.graph.Dataset", "rdflib.graph.ReadOnlyGraphAggregate", "rdflib.graph.QuotedGraph"):
        for meth in GRAPH_READ_METHODS:
            m = cls + "." + meth
            if m not in eff.funcs:
                continue
            outp = OUT_PARAMS.get(m, set())
            src = {"self"}
            if meth in ("__add__", "__sub__", "__mul__", "__xor__", "__eq__", "isomorphic"):
                src = {"self", "other"}
            check_entry(eff, rep, "C13.e-read-api-pure", m, src, "%s.%s" % (cls.rsplit(".", 1)[1], meth), out_params=outp)
    # out-parameter sanity: cbd/skolemize really write only into the out-parameter or a fresh graph
    for m, outs in OUT_PARAMS.items():
        fi = eff.funcs.get(m)
        if fi is None:
            raise AnalysisError("out-param table row stale: %s" % m)
        for o in outs:
            if o not in fi.params:
                raise AnalysisError("out-param table row stale: %s has no parameter %s" % (m, o))

    # ------------------------------------------------- other read-only views
    rep.rule("C13.g-views-pure",
             "read methods of the graph views and helpers - Collection (len/iter/index/getitem/n3), Resource (pattern access, value, items, "
             "closures, qname), rdflib.util.find_roots/get_tree, Result.serialize, void.generateVoID (source graph) - never mutate the graph they read", floor=20)
    views = [("rdflib.collection.Collection", ("__len__", "__iter__", "index", "__getitem__", "n3", "_get_container", "_end"), {"self"}),
             ("rdflib.resource.Resource", ("subjects", "predicates", "objects", "subject_predicates", "subject_objects", "predicate_objects", "value", "items",
                                           "transitive_objects", "transitive_subjects", "qname", "__iter__", "__getitem__", "__str__", "__eq__", "__hash__", "__lt__"), {"self"}),
             ("rdflib.container.Container", ("__len__", "__getitem__", "items", "index", "n3", "type_of_conatiner", "_get_container"), {"self"})]
    for cls, meths, src in views:
        for meth in meths:
            m = cls + "." + meth
            if m in eff.funcs:
                check_entry(eff, rep, "C13.g-views-pure", m, src, "%s.%s" % (cls.rsplit(".", 1)[1], meth))
    for fn, src in (("rdflib.util.find_roots", {"graph"}), ("rdflib.util.get_tree", {"graph"}), ("rdflib.query.Result.serialize", {"self"}),
                    ("rdflib.void.generateVoID", {"g"}), ("rdflib.graph.Graph.__reduce__", {"self"}), ("rdflib.graph.Graph.absolutize", {"self"}),
                    ("rdflib.graph.Graph.qname", {"self"}), ("rdflib.graph.Graph.compute_qname", {"self"})):
        if fn in eff.funcs:
            check_entry(eff, rep, "C13.g-views-pure", fn, src, fn.split(".", 1)[1])

    # ------------------------------------------------- no shared mutable class state is changed by a read
    rep.rule("C13.h-no-shared-class-state-mutated",
             "no method of a serializer class mutates in place a list/dict/set that is defined at class level (in the class or a base class) - "
             "`self.X += [...]`, `self.X.append(...)`, `self.X[k] = v` without first giving the instance its own X: such state is shared by every "
             "instance, so one serialisation would change the output of all later ones", floor=1)
    cls_mut: dict[str, dict[str, str]] = {}
    ser_mods = [m for n_, m in repo.modules.items() if n_.startswith("rdflib.plugins.serializers.") or n_ == "rdflib.serializer"]
    for m in ser_mods:
        for q, node in m.defs.items():
            if isinstance(node, ast.ClassDef):
                for st in node.body:
                    if isinstance(st, (ast.Assign, ast.AnnAssign)) and getattr(st, "value", None) is not None:
                        t = st.targets[0] if isinstance(st, ast.Assign) else st.target
                        v = st.value
                        if isinstance(t, ast.Name) and (isinstance(v, (ast.List, ast.Dict, ast.Set)) or (isinstance(v, ast.Call) and norm(v.func) in ("list", "dict", "set", "defaultdict", "OrderedDict"))):
                            cls_mut.setdefault("%s.%s" % (m.name, q), {})[t.id] = norm(v)[:40]
    n_checked = 0
    for m in ser_mods:
        for q, node in m.defs.items():
            if not isinstance(node, ast.ClassDef):
                continue
            full = "%s.%s" % (m.name, q)
            shared = {}
            for b in typed.mro(full):
                shared.update(cls_mut.get(b, {}))
            if not shared:
                continue
            for mname, f in m.methods(q).items():
                own = set()
                for n_ in own_nodes(f):
                    # plain (re)assignment gives the instance its own object
                    if isinstance(n_, (ast.Assign, ast.AnnAssign)) and getattr(n_, "value", None) is not None:
                        for t in (n_.targets if isinstance(n_, ast.Assign) else [n_.target]):
                            if isinstance(t, ast.Attribute) and isinstance(t.value, ast.Name) and t.value.id == "self" and t.attr in shared:
                                v = n_.value
                                fresh = not (isinstance(v, ast.Attribute) and v.attr == t.attr)
                                if fresh:
                                    own.add((t.attr, n_.lineno))
                for n_ in own_nodes(f):
                    attr = None
                    if isinstance(n_, ast.AugAssign) and isinstance(n_.target, ast.Attribute) and isinstance(n_.target.value, ast.Name) and n_.target.value.id == "self":
                        attr = n_.target.attr
                    if isinstance(n_, ast.Call) and isinstance(n_.func, ast.Attribute) and n_.func.attr in ("append", "extend", "insert", "update", "add", "setdefault", "pop", "remove", "clear", "sort") \
                            and isinstance(n_.func.value, ast.Attribute) and isinstance(n_.func.value.value, ast.Name) and n_.func.value.value.id == "self":
                        attr = n_.func.value.attr
                    if isinstance(n_, ast.Assign) and any(isinstance(t, ast.Subscript) and isinstance(t.value, ast.Attribute) and isinstance(t.value.value, ast.Name)
                                                          and t.value.value.id == "self" for t in n_.targets):
                        attr = [t.value.attr for t in n_.targets if isinstance(t, ast.Subscript) and isinstance(t.value, ast.Attribute)][0]
                    if attr is None or attr not in shared:
                        continue
                    n_checked += 1
                    # the instance got its own object earlier in this method or in __init__/reset (which run per serialisation)
                    init_own = False
                    for setup in ("__init__", "reset", "preprocess"):
                        for b in typed.mro(full):
                            bm, _, bc = b.rpartition(".")
                            if bm in repo.modules and repo.modules[bm].has(bc + "." + setup):
                                sf = repo.modules[bm].func(bc + "." + setup)
                                for a in own_nodes(sf):
                                    if isinstance(a, (ast.Assign, ast.AnnAssign)) and getattr(a, "value", None) is not None:
                                        for t in (a.targets if isinstance(a, ast.Assign) else [a.target]):
                                            if norm(t) == "self." + attr and not (isinstance(a.value, ast.Attribute) and a.value.attr == attr) and not (setup == mname and a.lineno >= n_.lineno):
                                                init_own = True
                    local_own = any(a == attr and ln < n_.lineno for a, ln in own)
                    ok = init_own or local_own
                    rep.ob("C13.h-no-shared-class-state-mutated", m, "%s.%s" % (q, mname), n_, ok,
                           "the instance has its own %s" % attr if ok else
                           "self.%s is the class-level %s shared by all %s instances (and subclasses): this in-place change persists, so the same graph serialises differently afterwards" % (attr, shared[attr], q), node=n_)
    rep.info["class_level_mutables_in_serializers"] = {k: sorted(v) for k, v in cls_mut.items()}
    if n_checked == 0:
        rep.ob("C13.h-no-shared-class-state-mutated", ser_mods[0], "<serializers>", "no in-place mutation of a class-level container through self", True, "%d class-level containers, none mutated via self" % sum(len(v) for v in cls_mut.values()), node=None)

    # ------------------------------------------------- store read methods
    rep.rule("C13.f-store-reads-dont-write",
             "the read methods of the in-memory stores (the public read API - triples, triples_choices, __len__, contexts, namespaces, "
             "prefix, namespace, query - and every method of the class they reach through self.<method>, whatever it is called) "
             "contain no write to the store's state: no subscript / attribute store, del, setdefault / pop / update / add / discard ... "
             "on a self.<...> path.  One kind of write is not state: `self.A[k] = v` where A is a table the class only does point "
             "lookups on and k is a string built from v alone (an interning memo: key -> an object with that identity)", floor=10)
    from vlib import h_c13 as _H
    mem = repo.mod("rdflib.plugins.stores.memory")

    def rooted_self(e):
        while isinstance(e, (ast.Subscript, ast.Attribute, ast.Call)):
            if isinstance(e, ast.Attribute) and isinstance(e.value, ast.Name) and e.value.id == "self":
                return True
            e = e.value if not isinstance(e, ast.Call) else e.func
        return False

    for cls in ("Memory", "SimpleMemory"):
        cdef = mem.cls(cls)
        reads = _H.store_read_methods(cdef)
        # anchors: the entry points every store must answer; a class that lost one is not the class this rule was written for
        for must in ("triples", "__len__", "namespaces"):
            if must not in reads:
                raise AnalysisError("C13.f: %s defines no %s() - the read side of the store cannot be delimited" % (cls, must))
        tables = _H.lookup_only_tables(mem, cdef)
        for mname in sorted(reads):
            fs = reads[mname]
            rep.analysed("rdflib/plugins/stores/memory.py:%s.%s" % (cls, mname))
            writes = []
            for f in fs:
                for n in own_nodes(f, include_nested=True):
                    w = False
                    if isinstance(n, (ast.Assign, ast.AugAssign, ast.AnnAssign)):
                        tg = n.targets if isinstance(n, ast.Assign) else [n.target]
                        w = any(isinstance(t, (ast.Subscript, ast.Attribute)) and rooted_self(t) for t in tg)
                    if isinstance(n, ast.Delete) and any(rooted_self(t) for t in n.targets):
                        w = True
                    if isinstance(n, ast.Call) and isinstance(n.func, ast.Attribute) and n.func.attr in (
                            "setdefault", "pop", "popitem", "update", "add", "discard", "remove", "clear", "append", "extend", "insert") and rooted_self(n.func.value):
                        w = True
                    # interning memo: key -> an object from which that very key is computed (for Memory: context key ->
                    # a Graph view carrying that identifier); any object stored under it is identifier-equal; not triple state
                    if w and not _H.interning_store(mem, f, n, tables):
                        writes.append(n)
            writes.sort(key=lambda n: (n.lineno, n.col_offset))
            rep.ob("C13.f-store-reads-dont-write", mem, "%s.%s" % (cls, mname), "no index write in %s.%s" % (cls, mname), not writes,
                   "read-only" if not writes else "store read method writes store state: %s" % norm(writes[0])[:80], node=writes[0] if writes else fs[-1])
    rep.info["store_read_side"] = {c: sorted(_H.store_read_methods(mem.cls(c))) for c in ("Memory", "SimpleMemory")}


def _stated_first(mod, call: ast.Call, w) -> bool:
    """the asserting argument of `call` is a local name X and, earlier in the same block, `if ... (<wrapped term>, RDF.type, X) not in <g> ...: X = None`
    resets it whenever the graph does not state that type for the term: the constructor's own `if triple not in graph: add` then adds nothing"""
    term = call.args[0] if call.args else None
    given = {k.arg: k.value for k in call.keywords if k.arg}
    xs = [v for p_, v in given.items() if p_ in w.gating_params() and isinstance(v, ast.Name)]
    if not isinstance(term, ast.Name) or len(xs) != 1:
        return False
    x = xs[0].id
    st = call
    while mod.parent.get(id(st)) is not None and not isinstance(st, ast.stmt):
        st = mod.parent[id(st)]
    owner = mod.parent.get(id(st))
    for field in ("body", "orelse"):
        blk = getattr(owner, field, None)
        if isinstance(blk, list) and st in blk:
            for prev in blk[:blk.index(st)]:
                if not isinstance(prev, ast.If) or prev.orelse:
                    continue
                hit = any(isinstance(c, ast.Compare) and len(c.ops) == 1 and isinstance(c.ops[0], ast.NotIn) and isinstance(c.left, ast.Tuple) and len(c.left.elts) == 3
                          and norm(c.left.elts[0]) == term.id and norm(c.left.elts[1]) == "RDF.type" and norm(c.left.elts[2]) == x for c in ast.walk(prev.test))
                resets = any(isinstance(a, ast.Assign) and norm(a.targets[0]) == x and isinstance(a.value, ast.Constant) and a.value.value is None for a in prev.body)
                later = any(isinstance(a, ast.Assign) and norm(a.targets[0]) == x for q_ in blk[blk.index(prev) + 1:blk.index(st)] for a in ast.walk(q_))
                if hit and resets and not later:
                    return True
    return False


from vlib.core import layer as _layer  # noqa: E402

_run_base1 = run


def run(repo: Repo, rep: Report) -> None:  # noqa: F811
    """rules i-m: reads that write through a helper the effect analysis does not follow (the untyped infixowl wrappers, the lazy
    SELECT Result, the prefix a Turtle-family serializer binds while it serialises)"""
    _layer(rep, _run_base1, repo)
    from vlib import h_c13 as H
    from vlib.cfg import CFG, eval3

    # ------------------------------------------------------------------ i / j: infixowl readers wrap without asserting
    ow = repo.mod("rdflib.extras.infixowl")
    modes = H.wrapper_modes(ow)
    if len(modes) < 2:
        raise AnalysisError("infixowl: expected the constructors of Class and Property to gate their rdf:type assertion on a parameter, found %s" % sorted(modes))
    mode_txt = "; ".join("%s(%s)" % (n, w.mode_text()) for n, w in sorted(modes.items()))
    rep.info["infixowl_wrap_only_modes"] = {n: w.mode_text() for n, w in modes.items()}
    rep.rule("C13.i-infixowl-readers-wrap-only",
             "rdflib.extras.infixowl: a wrapper class whose constructor asserts `<identifier> rdf:type <T>` unless a parameter says otherwise "
             "(derived from the guards of __init__: %s) is constructed in that wrap-only mode by every read accessor - a property getter, "
             "__repr__/__eq__/__hash__/__len__/__iter__/__contains__/__getitem__, a module-level listing generator, and every function of the "
             "module these call. Otherwise reading adds triples: with g = {A owl:equivalentClass B}, list(Class(A, graph=g).equivalentClass) "
             "(or repr(), isPrimitive()) adds (B rdf:type owl:Class) to g" % mode_txt, floor=20)
    rep.rule("C13.j-infixowl-catch-all-asserts-nothing",
             "rdflib.extras.infixowl: where a read accessor chooses the type a wrapper is to assert from what it found in the graph (the mode argument is "
             "a local name with several definitions), every asserting value is assigned under a positive test (body of an if / elif), and the "
             "catch-all (else branch, or no test at all) assigns the wrap-only value: the catch-all covers every type that was not enumerated, about "
             "which nothing follows - AllProperties(g) with g = {p rdf:type owl:AnnotationProperty} must not add (p rdf:type owl:DatatypeProperty)", floor=1)
    readers = H.read_accessors(ow)
    rep.info["infixowl_read_accessors"] = len(readers)
    if len(readers) < 40:
        raise AnalysisError("infixowl: only %d read accessors recognised (property getters, read dunders, listing generators)" % len(readers))
    if "AllProperties" not in readers or "AllClasses" not in readers:
        raise AnalysisError("infixowl: the listing generators AllClasses / AllProperties are no longer recognised as read accessors")
    n_choice = 0
    for q, (fn, why) in sorted(readers.items()):
        rep.analysed("rdflib/extras/infixowl.py:%s" % q)
        where = q.split("#")[0]
        for n in own_nodes(fn, include_nested=True):
            if not (isinstance(n, ast.Call) and isinstance(n.func, ast.Name) and n.func.id in modes):
                continue
            w = modes[n.func.id]
            bad = w.call_may_assert(n, fn)
            if bad is not None and H.found_as_type(fn, n, w.asserted_type):
                # legitimate: the term was just read as `?x rdf:type <T>` with <T> the type the constructor asserts
                rep.ob("C13.i-infixowl-readers-wrap-only", ow, where, n, True,
                       "%s: asserting mode, but the term ranges over subjects(RDF.type, %s): the asserted triple is the one that was read" % (why, w.asserted_type), node=n)
                continue
            if bad is not None and _stated_first(ow, n, w):
                # legitimate: the type is passed on only if the graph already states it for the term (`if (t, RDF.type, T) not in graph: T = None` just before)
                rep.ob("C13.i-infixowl-readers-wrap-only", ow, where, n, True,
                       "%s: the type argument is reset to the wrap-only value unless (<term>, rdf:type, <type>) is in the graph: nothing new is asserted" % why, node=n)
                continue
            rep.ob("C13.i-infixowl-readers-wrap-only", ow, where, n, bad is None,
                   "%s: wrap-only (%s)" % (why, w.mode_text()) if bad is None else
                   "%s constructs %s in asserting mode (%s; wrap-only would be %s): its __init__ then adds (<term> rdf:type ...) to the graph that is being read"
                   % (why, n.func.id, ", ".join("%s is %s" % (p, v or "not a constant") for p, v in sorted(bad.items())), w.mode_text()), node=n)
            # j: a mode argument chosen among several values
            given = {k.arg: k.value for k in n.keywords if k.arg}
            pos, _ = H.init_params(w.init)
            given.update(dict(zip(pos, n.args)))
            for p in w.gating_params():
                e = given.get(p)
                defs = H.name_values(fn, e.id) if isinstance(e, ast.Name) else None
                if not defs or len(defs) < 2:
                    continue  # not a choice among several values
                for v, st in defs:
                    if not w.asserting({p: H.absval(v)}):
                        continue
                    n_choice += 1
                    pos_, iff = H.guard_position(ow, fn, st)
                    rep.ob("C13.j-infixowl-catch-all-asserts-nothing", ow, where, st, pos_ == "positive",
                           "asserting value chosen under the positive test `%s`" % norm(iff.test)[:80] if pos_ == "positive" else
                           "the %s branch makes %s assert %s for everything the tests before it did not name" % (pos_, n.func.id, norm(v)), node=st)

    if n_choice == 0:
        # every reader passes a fixed mode (rule i says which): nothing is chosen at run time
        rep.ob("C13.j-infixowl-catch-all-asserts-nothing", ow, "<read accessors>", "no read accessor chooses the type a wrapper asserts from what it found", True,
               "%d read accessors, every mode argument is a constant or a default" % len(readers), node=None)

    # ------------------------------------------------------------------ k / l: the lazy result keeps and replays every solution
    rep.rule("C13.k-one-shot-source-fully-cached",
             "a class that reads from a one-shot iterator held in an attribute (taken from with next()/for/list() and reset to None when exhausted, "
             "Result._genbindings) puts EVERY element it takes into its cache list, on every path, before it yields, returns or takes the next "
             "one - no test of the element in between. Otherwise what the object answers depends on whether it was iterated before: "
             "r = g.query('SELECT ?x {}'); len(r) is 1, but after `for _ in r: pass` the all-unbound solution was dropped and len(r) is 0", floor=2)
    rep.rule("C13.l-replay-cache-before-source",
             "a generator method (which the caller may abandon part-way) that takes elements from the one-shot iterator reads the cache list on "
             "every path before it does so: the elements an earlier, abandoned iteration already took are only in the cache. Otherwise "
             "it = iter(r); next(it); list(r) starts at the second solution", floor=1)
    found_result = False
    for mname, m in sorted(repo.modules.items()):
        for c in [x for x in ast.walk(m.tree) if isinstance(x, ast.ClassDef)]:
            shots = H.one_shot_attrs(m, c)
            if not shots:
                continue
            cq = m.qual_of(c)
            if mname == "rdflib.query" and cq == "Result":
                found_result = True
            sites = []
            caches: set[str] = set()
            for f in H.class_functions(c):
                for cons in H.consumptions(m, f, shots):
                    g = CFG(f)
                    ok, whyk, used = H.every_element_cached(m, f, g, cons)
                    caches |= used
                    sites.append((f, g, cons))
                    rep.analysed("%s:%s.%s" % (m.rel, cq, f.name))
                    rep.ob("C13.k-one-shot-source-fully-cached", m, "%s.%s" % (cq, f.name), cons.expr if cons.kind != "for" else "for ... in self.%s" % cons.attr,
                           ok, whyk, node=cons.stmt)
            for f, g, cons in sites:
                if not H.has_yield(f):
                    continue
                reads = H.cache_reads(m, g, caches)
                src = g.node_of(cons.stmt, m)
                ok = bool(reads) and g.must_pass_before(src, reads - {src} if cons.kind == "for" else reads)
                rep.ob("C13.l-replay-cache-before-source", m, "%s.%s" % (cq, f.name), cons.expr if cons.kind != "for" else "for ... in self.%s" % cons.attr, ok,
                       "self.%s is read on every path before an element is taken from self.%s" % ("/".join(sorted(caches)) or "?", cons.attr) if ok else
                       "a path reaches this without having read the cache (self.%s): the solutions an earlier, abandoned iteration took from self.%s are skipped"
                       % ("/".join(sorted(caches)) or "none", cons.attr), node=cons.stmt)
    if not found_result:
        raise AnalysisError("rdflib.query.Result no longer has a one-shot iterator attribute (consumed and reset to None): anchor of C13.k/l vanished")

    # ------------------------------------------------------------------ m: a prefix is generated only for a name that can use it
    rep.rule("C13.m-prefix-generated-only-if-usable",
             "a serializer function that asks the graph for a qname with prefix generation on (compute_qname without generate=False: the new "
             "prefix is BOUND IN THE GRAPH) and afterwards refuses the qname by a test of its local part (`if R.search(local): return None`) "
             "applies the very same test, to the unaltered local name split_uri(uri)[1], on every path before the generating call, and does not "
             "generate when it holds. Otherwise a binding nobody uses stays in the graph: g = {s <http://e/p.> o}; g.serialize(format='turtle') "
             "binds ns1 and writes <http://e/p.>, and the second serialize() of the unchanged graph writes another document (@prefix ns1)", floor=2)
    for mname, m in sorted(repo.modules.items()):
        if not mname.startswith("rdflib.plugins.serializers."):
            continue
        for q, fn in m.functions():
            calls = H.qname_calls(fn)
            gens = [c for c, gen_ in calls if gen_]
            if not gens:
                continue
            tainted = H.derived_names(fn, lambda x: isinstance(x, ast.Call) and isinstance(x.func, ast.Attribute) and x.func.attr in H.QNAME_CALLS)
            g = CFG(fn)
            post = []
            for n in own_nodes(fn):
                if isinstance(n, ast.If) and H.returns_nothing(n.body):
                    for p in H.string_preds(n.test):
                        if H.names_in(p.subject) & tainted:
                            post.append((n, p))
            if not post:
                continue
            rep.analysed("%s:%s" % (m.rel, q))
            tests = [n for n in own_nodes(fn) if isinstance(n, (ast.If, ast.While))]
            for gc in gens:
                gnode = g.node_of(gc, m)
                uri_text = norm(gc.args[0])
                for t2, p2 in post:
                    if not g.can_follow(gnode, g.node_of(t2, m)):
                        continue
                    ok, why = False, "no test `%s` of the local name stands before the generating call" % norm(p2.call.func)
                    for t1 in tests:
                        t1n = g.node_of(t1, m)
                        for p1 in H.string_preds(t1.test):
                            if p1.sig != p2.sig or not g.can_follow(t1n, gnode) or t1 is t2:
                                continue
                            raw, contains = H.raw_local_of(fn, p1.subject, uri_text)
                            if not raw:
                                why = ("the test before the generating call is applied to `%s`, not to the local name itself%s: names the later test refuses still get a prefix bound"
                                       % (norm(p1.subject)[:60], " (altered)" if contains else ""))
                                continue
                            verdict = eval3(t1.test, {norm(p1.call): True})
                            if verdict is None:
                                why = "`%s` does not decide the test `%s`" % (norm(p1.call)[:50], norm(t1.test)[:60])
                                continue
                            starts = H.edge_starts(g, t1n, verdict)
                            after = set(starts)
                            for s in starts:
                                after |= g.reach(s, avoid={t1n})
                            if not g.must_pass_before(gnode, {t1n}):
                                why = "the test `%s` is not on every path to the generating call" % norm(t1.test)[:60]
                            elif gnode in after:
                                why = "the generating call is still reached when `%s` holds" % norm(p1.call)[:50]
                            else:
                                ok, why = True, "guarded by `%s`: nothing is generated for a local name the later `%s` refuses" % (norm(t1.test)[:70], norm(p2.call)[:40])
                                break
                        if ok:
                            break
                    rep.ob("C13.m-prefix-generated-only-if-usable", m, q, gc, ok, why, node=gc)


_run_before_borrow = run


def run(repo: Repo, rep: Report) -> None:  # noqa: F811
    _layer(rep, _run_before_borrow, repo)
    from vlib.core import borrow

    borrow(repo, rep, "C13", "C15", ('C15.a',))
    borrow(repo, rep, "C13", "C11", ('C11.g',))
    borrow(repo, rep, "C13", "C03", ('C03.m',))
    borrow(repo, rep, "C13", "C08", ('C08.e',))
