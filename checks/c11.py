"""C11 - property paths: structural clauses (DESIGN.md §2 C11).

(a) bound ends are decided by identity with None, never truthiness (E1)
(b) no pattern-variable clobber in loops that evaluate a path (E6, package-wide)
(c) closure helpers: every self-recursive call is guarded by a visited set that
    is added to before recursing; every yield of the driver passes a `done` filter
    ("helpers of X.eval" always means: the private callables the public eval reaches -
    closures nested in it, private methods called through self, private module
    functions - vlib/h_c11.Evaluator; where a helper lives is not part of the property)
(d) the zero-length clause yields for a bound end without consulting the graph
(e) every end parameter of an evaluator is forwarded (used) - a dropped end
    makes the result unrestricted
(l) a helper that walks in a fixed direction is handed the rest of a walk with a
    known node on the end it starts from (never an all-unbound first step)
(m) a result a path production can leave unset is tested for absence by the arm
    of translatePath that consumes it
(n) no element inside a path production refuses preceding white space, unless an
    alternative arm takes it after white space behind the necessary lookaheads
(o) a Graph class with member graphs does not answer a pattern that may hold a Path
    by asking every member in turn (the path may need triples of several members)
(p) an optional element at the end of a path production that begins like a longer
    token of the object list is guarded by a lookahead for that token in every arm
"""
from __future__ import annotations

import ast

from vlib import h_c11 as _h
from vlib import loops, truthy
from vlib.core import AnalysisError, Repo, Report, norm, own_nodes

EXPLANATION = (
    "Static rules over rdflib/paths.py and the triples() methods that accept a Path predicate. "
    "Decides the structural clauses (a)-(e) of C11 named in DESIGN.md; does NOT decide that the "
    "evaluators compute the relational definition (semantic, value-level)."
)


def _r(t: ast.AST) -> ast.AST:
    while isinstance(t, ast.Subscript):
        t = t.value
    return t


def _guarded_by_membership(mod, call: ast.Call, arg: str, seen: str, fn: ast.FunctionDef) -> bool:
    """The recursive call is reached only when `arg` is not in `seen`:
    either inside `if arg not in seen:` or after `if arg in seen: continue/return/break`
    in the same or an enclosing block (preceding the call)."""
    # enclosing if with `arg not in seen`
    for p in mod.parents(call):
        if p is fn:
            break
        if isinstance(p, ast.If):
            # the test itself or a conjunct of it (`if self.more and o not in seen:`)
            for t in (p.test.values if isinstance(p.test, ast.BoolOp) and isinstance(p.test.op, ast.And) else [p.test]):
                if (
                    isinstance(t, ast.Compare)
                    and len(t.ops) == 1
                    and isinstance(t.ops[0], ast.NotIn)
                    and norm(t.left) == arg
                    and norm(t.comparators[0]) == seen
                    and any(call is x for s in p.body for x in ast.walk(s))
                ):
                    return True
    # preceding sibling guard in any enclosing block
    node: ast.AST = call
    for p in mod.parents(call):
        for field in ("body", "orelse", "finalbody"):
            blk = getattr(p, field, None)
            if not isinstance(blk, list):
                continue
            idx = None
            for i, st in enumerate(blk):
                if st is node or any(node is x for x in ast.walk(st)):
                    idx = i
                    break
            if idx is None:
                continue
            for st in blk[:idx]:
                if isinstance(st, ast.If) and not st.orelse:
                    t = st.test
                    if (
                        isinstance(t, ast.Compare)
                        and len(t.ops) == 1
                        and isinstance(t.ops[0], ast.In)
                        and norm(t.left) == arg
                        and norm(t.comparators[0]) == seen
                        and st.body
                        and isinstance(st.body[-1], (ast.Continue, ast.Return, ast.Break, ast.Raise))
                    ):
                        return True
        if p is fn:
            break
        node = p
    return False


def run(repo: Repo, rep: Report) -> None:
    rep.extra["explanation"] = EXPLANATION
    paths = repo.mod("rdflib.paths")
    graph = repo.mod("rdflib.graph")
    typed = repo.typed

    # ---------------------------------------------------------------- (a) E1
    rep.rule(
        "C11.a-ends-by-identity",
        "in rdflib/paths.py and the Path-accepting triples() methods, whether a path end (subject/object) "
        "is bound is decided by identity with None, never by truthiness (a falsy Literal end is still bound)",
        floor=8,
    )
    # signature inheritance for untyped overrides of Path.eval
    base_eval = paths.func("Path.eval")
    inherited = {}
    for a in base_eval.args.args[1:]:
        if a.annotation is not None and "None" in norm(a.annotation):
            inherited[a.arg] = norm(a.annotation)
    # confirm through a typed sibling that these parameters are Optional[Literal-capable]
    confirmed = {}
    mp = paths.func("MulPath.eval")
    for n in ast.walk(mp):
        if isinstance(n, ast.Name) and n.id in inherited and n.id not in confirmed:
            tf = typed.type_of(paths.name, n)
            if tf and tf.optional and truthy.domain_hits(repo, tf):
                confirmed[n.id] = (True, truthy.domain_hits(repo, tf), "inherited from Path.eval: " + inherited[n.id])
    if set(confirmed) != set(inherited) or not confirmed:
        raise AnalysisError("cannot confirm the Optional end parameters of Path.eval via MulPath.eval: %s vs %s" % (sorted(inherited), sorted(confirmed)))
    path_classes = [c for c in typed.subclasses("rdflib.paths.Path") if c.startswith("rdflib.paths.")]
    if len(path_classes) < 6:
        raise AnalysisError("expected >= 6 Path classes, found %s" % path_classes)
    for q, fn in paths.functions():
        if "." in q and isinstance(paths.defs.get(q.rsplit(".", 1)[0]), ast.FunctionDef):
            continue  # nested function: scanned with its parent
        extra = None
        cls = q.split(".")[0]
        if ("rdflib.paths." + cls) in path_classes and q.endswith(".eval"):
            # untyped override?
            if all(a.annotation is None for a in fn.args.args[1:]):
                extra = confirmed
        truthy.scan(repo, rep, "C11.a-ends-by-identity", paths, fn, q, extra_types=extra)
        rep.analysed("rdflib/paths.py:" + q)
    for q in ("Graph.triples", "ConjunctiveGraph.triples", "ReadOnlyGraphAggregate.triples", "Graph.__contains__"):
        truthy.scan(repo, rep, "C11.a-ends-by-identity", graph, graph.func(q), q)
        rep.analysed("rdflib/graph.py:" + q)
    ev = repo.mod("rdflib.plugins.sparql.evaluate")
    truthy.scan(repo, rep, "C11.a-ends-by-identity", ev, ev.func("evalBGP"), "evalBGP")
    rep.analysed("rdflib/plugins/sparql/evaluate.py:evalBGP")

    # ------------------------------------------------------------- (b) clobber
    rep.rule(
        "C11.b-no-pattern-clobber",
        "a for-loop whose target rebinds a name that its own iterable reads from the scope of the loop (a free variable of the iterable: the parameters "
        "of a lambda and the targets of a comprehension inside it are variables of their own) must not be re-executed by an "
        "enclosing loop without the name being re-established (package-wide)",
        floor=3,
    )
    nloops = 0
    for name, mod in repo.modules.items():
        for q, fn in mod.functions():
            nloops += _h.clobber_scan(rep, "C11.b-no-pattern-clobber", mod, fn, q)
    # embedded positive example: the rule must fire on the known-bad shape
    bad = ast.parse(
        "def triples(self, triple):\n s, p, o = triple\n for graph in self.graphs:\n  for s, o in p.eval(self, s, o):\n   yield s, p, o\n"
    )
    from vlib.core import Module

    class _M:  # minimal Module stand-in for the self-check
        rel = "<embedded>"
        name = "<embedded>"

    probe = Report("C11", rep.tier, repo)
    probe.rule("x", "x", 0)
    _h.clobber_scan(probe, "x", _M(), bad.body[0], "triples")  # type: ignore[arg-type]
    if not probe.findings:
        raise AnalysisError("clobber rule failed to fire on its embedded positive example")

    # ---------------------------------------------- (c) closure helper discipline
    rep.rule(
        "C11.c-closure-guard",
        "in the evaluator of MulPath (the public eval and the private callables it reaches: nested closures, private methods called through self, "
        "private module functions) every self-recursive traversal helper adds its cursor to a visited set before iterating and recurses only on "
        "nodes not in that set; a helper that keeps its frontier in a work list pushes a further step only for a node not in the set and adds it "
        "with the push; every value the driver hands out - the zero-length pair and the results of every traversal helper it calls - passes a "
        "done-set filter",
        floor=4,
    )
    mev = _h.Evaluator(paths, "MulPath")
    helpers = mev.helpers
    rec = 0
    expanding: list = []  # the helpers that expand a frontier
    for h in helpers:
        hname = h.name
        calls = [c for c in ast.walk(h.fn) if mev.callee(c) is h]
        if not calls:
            continue
        params = h.params
        for c in calls:
            rec += 1
            if h not in expanding:
                expanding.append(h)
            # the visited-set parameter: passed through unchanged by name
            seen = [p for i, p in enumerate(params) if isinstance(h.arg(c, i), ast.Name) and h.arg(c, i).id == p]
            seen = [p for p in seen if any(
                isinstance(x, ast.Call) and isinstance(x.func, ast.Attribute) and x.func.attr == "add" and norm(x.func.value) == p
                for x in ast.walk(h.fn))]
            if not seen:
                rep.ob("C11.c-closure-guard", paths, h.label, c, False,
                       "recursive call passes no visited set that the helper adds to", node=c)
                continue
            sv = seen[0]
            # what does the helper add?  seen.add(<param P>) as a top-level statement before the loop
            added = None
            for st in h.fn.body:
                if isinstance(st, (ast.For, ast.While)):
                    break
                if isinstance(st, ast.Expr) and isinstance(st.value, ast.Call) and isinstance(st.value.func, ast.Attribute) \
                        and st.value.func.attr == "add" and norm(st.value.func.value) == sv and st.value.args:
                    added = norm(st.value.args[0])
            if added is None or added not in params:
                rep.ob("C11.c-closure-guard", paths, h.label, c, False,
                       "helper does not add its cursor parameter to %s before iterating" % sv, node=c)
                continue
            pos = params.index(added)
            arg = norm(h.arg(c, pos)) if h.arg(c, pos) is not None else None
            ok = arg is not None and _guarded_by_membership(paths, c, arg, sv, h.fn)
            rep.ob("C11.c-closure-guard", paths, h.label, c, ok,
                   ("recursion on %s only when not in %s; %s.add(%s) on entry" % (arg, sv, sv, added)) if ok
                   else "recursive call on %s is not guarded by a membership test in %s: the closure does not terminate on a cycle" % (arg, sv),
                   node=c)
    # the same discipline for helpers that keep their frontier in a work list instead of recursing: a push of a further step
    # evaluation `W.append(eval_path(graph, (.., X, ..)))` happens only when X is not in the visited set, X is added to the set
    # with the push, and the start cursor is added before the loop
    def _step_pushes(fn_: ast.AST):
        return [c for c in own_nodes(fn_) if isinstance(c, ast.Call) and isinstance(c.func, ast.Attribute) and c.func.attr in ("append", "extend", "appendleft") and c.args
                and isinstance(c.args[0], ast.Call) and norm(c.args[0].func) == "eval_path" and any(isinstance(p, (ast.For, ast.While)) for p in paths.parents(c) if p is not fn_)]

    for h in mev.all():
        params = h.params
        seen_ps = [p for p in params if any(isinstance(x, ast.Call) and isinstance(x.func, ast.Attribute) and x.func.attr == "add" and norm(x.func.value) == p for x in ast.walk(h.fn))]
        if not seen_ps or h is mev.entry:
            # a frontier that is expanded where the rule cannot name the visited set (in the driver itself, in a helper that is not
            # handed the set) is not judged: an analysis error, never a silent pass
            if _step_pushes(h.fn):
                raise AnalysisError("%s pushes further steps on a work list (%s) but %s: cannot tell what keeps the walk from revisiting a node" % (
                    h.label, norm(_step_pushes(h.fn)[0]), "is the public generator itself" if h is mev.entry else "no parameter of it is a set it adds to"))
            continue
        sv = seen_ps[0]
        loop_targets = {n.id for l in ast.walk(h.fn) if isinstance(l, ast.For) for n in ast.walk(l.target) if isinstance(n, ast.Name)}
        for c in ast.walk(h.fn):
            if not (isinstance(c, ast.Call) and isinstance(c.func, ast.Attribute) and c.func.attr in ("append", "extend", "appendleft") and c.args
                    and isinstance(c.args[0], ast.Call) and norm(c.args[0].func) == "eval_path"):
                continue
            inloop = any(isinstance(p, (ast.For, ast.While)) for p in paths.parents(c) if p is not h.fn)
            if not inloop:
                continue
            step = c.args[0]
            cursors = [n.id for a in step.args for n in ast.walk(a) if isinstance(n, ast.Name) and n.id in loop_targets]
            rec += 1
            if h not in expanding:
                expanding.append(h)
            if len(cursors) != 1:
                rep.ob("C11.c-closure-guard", paths, h.label, c, False, "cannot tell which node the pushed step starts from: %s" % norm(step), node=c)
                continue
            cur = cursors[0]
            guarded = _guarded_by_membership(paths, c, cur, sv, h.fn)
            st = paths.parent.get(id(c))
            while st is not None and not isinstance(paths.parent.get(id(st)), (ast.If, ast.For, ast.While, ast.FunctionDef)):
                st = paths.parent.get(id(st))
            owner = paths.parent.get(id(st))
            blk = next((b for b in (getattr(owner, "body", None), getattr(owner, "orelse", None)) if isinstance(b, list) and st in b), [])
            marked = any(isinstance(x, ast.Expr) and isinstance(x.value, ast.Call) and isinstance(x.value.func, ast.Attribute) and x.value.func.attr == "add"
                         and norm(x.value.func.value) == sv and x.value.args and norm(x.value.args[0]) == cur for x in blk)
            start_marked = False
            for x in h.fn.body:
                if isinstance(x, (ast.For, ast.While)):
                    break
                if isinstance(x, ast.Expr) and isinstance(x.value, ast.Call) and isinstance(x.value.func, ast.Attribute) and x.value.func.attr == "add" \
                        and norm(x.value.func.value) == sv and x.value.args and norm(x.value.args[0]) in params:
                    start_marked = True
            ok = guarded and marked and start_marked
            rep.ob("C11.c-closure-guard", paths, h.label, c, ok,
                   "a step from %s is pushed only when %s is not in %s, and %s is added with the push; the start cursor is added on entry" % (cur, cur, sv, cur) if ok else
                   "the push of a further step from %s is %s: the closure %s" % (
                       cur, "not guarded by `%s not in %s`" % (cur, sv) if not guarded else ("not accompanied by %s.add(%s)" % (sv, cur) if not marked else "made without the start cursor in %s" % sv),
                       "does not terminate on a cycle" if not (guarded and marked) else "revisits its start node"), node=c)
    if rec < 2:
        raise AnalysisError("expected >= 2 frontier expansions (recursive calls or work-list pushes) in the helpers of MulPath.eval, found %d" % rec)
    # driver yields: what the public generator hands out itself
    helper_nodes = {id(x) for h in helpers if h.kind == "nested" for x in ast.walk(h.fn)}
    driver = [n for n in ast.walk(mp) if id(n) not in helper_nodes]
    zero_if = None
    for st in mp.body:
        if isinstance(st, ast.If) and "self.zero" in norm(st.test):
            zero_if = st
    zero_nodes = {id(x) for x in ast.walk(zero_if)} if zero_if is not None else set()
    filtered: dict[int, bool] = {}
    for y in driver:
        if isinstance(y, ast.YieldFrom):
            filtered[id(y)] = False
            rep.ob("C11.c-closure-guard", paths, "MulPath.eval", y, False,
                   "`yield from` hands every value on as it comes: none of them passes the done-set filter, a pair can be produced twice", node=y)
        if isinstance(y, ast.Yield):
            val = norm(y.value) if y.value is not None else ""
            ok = False
            why = "yield is neither inside `if <x> not in <done>:` with <done>.add(<x>) nor preceded by <done>.add(<x>): a pair can be produced twice"
            for p in paths.parents(y):
                if p is mp:
                    break
                if isinstance(p, ast.If) and isinstance(p.test, ast.Compare) and len(p.test.ops) == 1 \
                        and isinstance(p.test.ops[0], ast.NotIn) and norm(p.test.left) == val:
                    dn = norm(p.test.comparators[0])
                    if any(isinstance(x, ast.Call) and isinstance(x.func, ast.Attribute) and x.func.attr == "add"
                           and norm(x.func.value) == dn and x.args and norm(x.args[0]) == val for s in p.body for x in ast.walk(s)):
                        ok = True
                        why = "yield %s filtered by done-set %s" % (val, dn)
            if not ok:
                # zero-length clause idiom: `done.add((a, b)); yield a, b` as adjacent statements
                st = paths.parent.get(id(y))  # Expr
                blk_owner = paths.parent.get(id(st))
                for field in ("body", "orelse"):
                    blk = getattr(blk_owner, field, None)
                    if isinstance(blk, list) and st in blk:
                        i = blk.index(st)
                        if i > 0 and isinstance(blk[i - 1], ast.Expr) and isinstance(blk[i - 1].value, ast.Call):
                            c = blk[i - 1].value
                            if isinstance(c.func, ast.Attribute) and c.func.attr == "add" and c.args \
                                    and norm(c.args[0]).strip("()") == val.strip("()"):
                                # the same set must be the one the driver filters on
                                ok = True
                                why = "pair recorded in %s before it is yielded" % norm(c.func.value)
            filtered[id(y)] = ok
            rep.ob("C11.c-closure-guard", paths, "MulPath.eval", y, ok, why, node=y)
    # What is counted is not the yield statements (three identical loops may be one loop over the generator chosen from the bound
    # ends) but the SOURCES of results: every call of a result-producing helper in the driver must be seen to end in a yield of
    # the loop variable that iterates over it - directly or through a local name that may hold it - and every helper that
    # expands a frontier must be reachable from the driver; the zero-length clause must hand out something itself.
    def _is_generator(h) -> bool:
        return any(isinstance(x, (ast.Yield, ast.YieldFrom)) for x in h.own())

    def _may_hold(e: ast.AST, call: ast.Call) -> bool:
        """may the iterable expression e evaluate to the result of `call`?"""
        return any(v is call or any(x is call for x in ast.walk(v)) for v in _h.possible_values(e, mp, lambda _c: None)) or any(x is call for x in ast.walk(e))

    sources = [(c, k) for c, k in mev.calls(mev.entry) if _is_generator(k)]
    for c, k in sources:
        consumers = [l for l in driver if isinstance(l, ast.For) and _may_hold(l.iter, c)]
        handed = [y for l in consumers for y in ast.walk(l) if isinstance(y, ast.Yield) and id(y) in filtered and y.value is not None
                  and {x.id for x in ast.walk(y.value) if isinstance(x, ast.Name)} & {x.id for x in ast.walk(l.target) if isinstance(x, ast.Name)}]
        direct = [y for y in driver if isinstance(y, ast.YieldFrom) and _may_hold(y.value, c)]
        if not handed and not direct:
            raise AnalysisError("MulPath.eval: cannot see where the results of %s are handed out (no loop over them that yields its variable)" % norm(c))
    fed = {id(k.fn) for _c, k in sources}
    grew = True
    while grew:  # helpers whose results reach the driver through another helper
        grew = False
        for h in helpers:
            if id(h.fn) in fed:
                for _c, k in mev.calls(h):
                    if id(k.fn) not in fed:
                        fed.add(id(k.fn))
                        grew = True
    lost = [h.label for h in expanding if id(h.fn) not in fed]
    if not sources or lost:
        raise AnalysisError("MulPath.eval: %s" % ("the driver calls no result-producing helper" if not sources else
                                                 "the traversal helper(s) %s are not reachable from the driver" % ", ".join(lost)))
    if zero_if is None or not any(isinstance(y, ast.Yield) and id(y) in zero_nodes for y in driver):
        raise AnalysisError("MulPath.eval: the zero-length clause (if self.zero ...) hands out nothing itself")

    # --------------------------------------------------------- (d) zero-length
    rep.rule(
        "C11.d-zero-length",
        "MulPath.eval's zero-length clause yields (x,x) for a bound end (and (subj,obj) when both bound and equal) "
        "without consulting the graph, for every path with zero=True on the first call (the pairs may be written in the clause or be "
        "what a private helper called there returns; such a helper computes from its arguments alone)",
        floor=3,
    )
    if zero_if is None:
        raise AnalysisError("MulPath.eval: zero-length clause (if self.zero ...) not found")

    def _bookkeeping(c: ast.Call) -> bool:
        return isinstance(c.func, ast.Attribute) and c.func.attr == "add" and isinstance(c.func.value, ast.Name)

    calls_in_zero = []
    for c in ast.walk(zero_if):
        if isinstance(c, ast.Call) and not _bookkeeping(c):
            k = mev.callee(c)
            # a private helper that is handed the ends only and calls nothing itself cannot consult the graph
            if k is not None and not any(isinstance(x, ast.Name) and x.id == mp.args.args[1].arg for a in list(c.args) + [kw.value for kw in c.keywords] for x in ast.walk(a)) \
                    and k.kind != "nested" and _h.call_free(k, mev.callee, _bookkeeping) is None:
                continue
            calls_in_zero.append(c)
    yields = [y for y in ast.walk(zero_if) if isinstance(y, ast.Yield)]
    ends = [a.arg for a in mp.args.args[2:4]]
    want = {"%s, %s" % (ends[0], ends[0]), "%s, %s" % (ends[1], ends[1]), "%s, %s" % (ends[0], ends[1])}
    # the values a yield of the clause can hand out: a name stands for what is assigned to it, a helper call for what it returns
    got = {norm(v).strip("()") for y in yields if y.value is not None for v in _h.possible_values(y.value, mp, mev.callee)}
    for w in sorted(want):
        rep.ob("C11.d-zero-length", paths, "MulPath.eval", "yield " + w, w in got,
               "zero-length match %s present" % w if w in got else "zero-length clause no longer yields (%s)" % w, node=zero_if)
    rep.ob("C11.d-zero-length", paths, "MulPath.eval", "zero clause consults no graph: " + norm(zero_if.test), not calls_in_zero,
           "no call inside the zero-length clause" if not calls_in_zero else "zero-length clause calls %s: a term absent from the graph would not match" % norm(calls_in_zero[0]),
           node=zero_if)
    # the clause is unconditional: a top-level statement preceded only by plain assignments
    idx = mp.body.index(zero_if)
    pre_ok = all(isinstance(s, (ast.Assign, ast.AnnAssign)) or (isinstance(s, ast.Expr) and isinstance(s.value, ast.Constant)) for s in mp.body[:idx])
    rep.ob("C11.d-zero-length", paths, "MulPath.eval", "zero clause runs unconditionally first", pre_ok,
           "" if pre_ok else "zero-length clause is preceded by control flow / calls", node=zero_if)
    # calls allowed inside the clause: only <set>.add(...) bookkeeping
    # ------------------------------------------------ (e) ends forwarded / used
    rep.rule(
        "C11.e-ends-forwarded",
        "every evaluator (eval methods of Path subclasses and the private callables they reach) uses each of its end "
        "parameters: forwards it to a call, compares it or yields it.  The end parameters of eval are the public subject/object; "
        "those of a helper are the parameters that receive, at some call, an end of the caller or a node reached by a loop over results",
        floor=10,
    )
    endnames = set(confirmed)
    evaluators = {}
    for c in path_classes:
        cname = c.rsplit(".", 1)[1]
        q = cname + ".eval"
        if not paths.has(q) or cname == "Path":
            continue
        ev_ = evaluators[cname] = _h.Evaluator(paths, cname)

        def _results(e: ast.AST, _ev=ev_) -> bool:
            return any(isinstance(x, ast.Call) and (norm(x.func) == "eval_path" or _ev.callee(x) is not None) for x in ast.walk(e))

        ends_of = ev_.end_params(sorted(endnames), _results)
        for hlp in ev_.all():
            f = hlp.fn
            for p in ends_of.get(id(f), []):
                # uses in f's own body, or by closure in nested defs (closure use counts only if the nested def has no own param p)
                used = False
                for n in ast.walk(f):
                    if isinstance(n, ast.Name) and n.id == p and isinstance(n.ctx, ast.Load):
                        # is the innermost enclosing function one that rebinds p as a parameter?
                        owner = None
                        for par in paths.parents(n):
                            if isinstance(par, ast.FunctionDef):
                                owner = par
                                break
                        if owner is f or (owner is not None and p not in [a.arg for a in owner.args.args]):
                            used = True
                            break
                rep.ob("C11.e-ends-forwarded", paths, hlp.label, "parameter %s" % p, used,
                       "end parameter is read" if used else "end parameter %s is never read: the path result is not restricted by it" % p, node=f)
    # InvPath must swap both the pattern and the result
    inv = paths.func("InvPath.eval")
    call = [c for c in ast.walk(inv) if isinstance(c, ast.Call) and norm(c.func) == "eval_path"]
    ys = [y for y in ast.walk(inv) if isinstance(y, ast.Yield)]
    ok = False
    if len(call) == 1 and len(ys) == 1 and len(call[0].args) == 2 and isinstance(call[0].args[1], ast.Tuple):
        t = call[0].args[1].elts
        loop = [l for l in ast.walk(inv) if isinstance(l, ast.For)][0]
        lt = [norm(e) for e in loop.target.elts] if isinstance(loop.target, ast.Tuple) else []
        yv = [norm(e) for e in ys[0].value.elts] if isinstance(ys[0].value, ast.Tuple) else []
        ok = len(t) == 3 and norm(t[0]) == ends[1] and norm(t[2]) == ends[0] and len(lt) == 2 and yv == [lt[1], lt[0]]
    rep.ob("C11.e-ends-forwarded", paths, "InvPath.eval", "inverse swaps pattern ends and result components", ok,
           "" if ok else "InvPath.eval no longer evaluates (obj, arg, subj) and yields (o, s)", node=inv)
    run_extra(repo, rep)
    # paths keep no evaluation state (shared with C15.f)
    rep.rule("C11.h-paths-are-stateless", "no Path.eval (nor a private callable it reaches: nested helper, private method, private function) assigns an attribute of the path object", floor=5)
    for c in path_classes:
        cname = c.rsplit(".", 1)[1]
        if not paths.has(cname + ".eval"):
            continue
        ev_ = evaluators.get(cname) or _h.Evaluator(paths, cname)
        f = ev_.entry.fn
        writes = []
        for hlp in ev_.all():
            if hlp.kind == "nested":
                continue  # walked with the callable it is nested in
            recv = hlp.receiver if hlp.kind in ("entry", "method") else None
            if recv is None:
                continue
            writes += [n for n in own_nodes(hlp.fn, include_nested=True) if isinstance(n, (ast.Assign, ast.AugAssign, ast.AnnAssign)) and any(
                isinstance(_r(t), ast.Attribute) and isinstance(_r(t).value, ast.Name) and _r(t).value.id == recv for t in (n.targets if isinstance(n, ast.Assign) else [n.target]))]
        rep.ob("C11.h-paths-are-stateless", paths, cname + ".eval", "eval() writes no attribute of self", not writes,
               "stateless" if not writes else "eval() memoises on the path object (%s): after the graph changes the stale result is returned" % norm(writes[0])[:70], node=writes[0] if writes else f)


# ---------------------------------------------------------------------------
# additional structural clauses (added after seeded-change review)


def _may_alias_foreign(e: ast.AST, attr: str) -> bool:
    """May the value of expression e be the very list object `<other>.<attr>`?"""
    if isinstance(e, ast.Attribute) and e.attr == attr and not (isinstance(e.value, ast.Name) and e.value.id == "self"):
        return True
    if isinstance(e, ast.IfExp):
        return _may_alias_foreign(e.body, attr) or _may_alias_foreign(e.orelse, attr)
    if isinstance(e, ast.BoolOp):
        return any(_may_alias_foreign(v, attr) for v in e.values)
    if isinstance(e, ast.NamedExpr):
        return _may_alias_foreign(e.value, attr)
    return False  # list display, list(...), a + b, slices, calls: fresh objects


def run_extra(repo: Repo, rep: Report) -> None:
    paths = repo.mod("rdflib.paths")
    typed = repo.typed
    mev = _h.Evaluator(paths, "MulPath")
    helpers = mev.helpers

    def _pushes_step(h) -> bool:
        return any(isinstance(c, ast.Call) and isinstance(c.func, ast.Attribute) and c.func.attr in ("append", "extend", "appendleft") and c.args
                   and isinstance(c.args[0], ast.Call) and norm(c.args[0].func) == "eval_path" and any(isinstance(p, (ast.For, ast.While)) for p in paths.parents(c) if p is not h.fn)
                   for c in ast.walk(h.fn))

    # (c2) the visited set prunes expansion only, never results
    rep.rule(
        "C11.c2-seen-prunes-expansion-only",
        "in the traversal helpers of MulPath's evaluator (the private callables eval reaches that call themselves or push further steps on a work "
        "list) the yield of the edge just found is not control-dependent on the "
        "visited-set membership test: an edge that closes a cycle is still a result, only its expansion is skipped",
        floor=2,
    )
    from vlib.cfg import CFG

    for h in helpers:
        expands = any(mev.callee(c) is h for c in ast.walk(h.fn)) or _pushes_step(h)
        if not expands:
            continue
        g = CFG(h.fn)
        loops_ = [n for n in own_nodes(h.fn) if isinstance(n, ast.For) and any(isinstance(y, ast.Yield) for y in ast.walk(n))
                  and not any(mev.callee(c) is h for c in ast.walk(n.iter))]
        if not loops_:
            raise AnalysisError("%s: no traversal loop" % h.label)
        loop = loops_[0]
        head = g.by_ast[id(loop)]
        params = h.params
        seen_tests = set()
        for nd in g.nodes:
            if nd.kind == "test" and isinstance(nd.ast, ast.If):
                for c in ast.walk(nd.ast.test):
                    if isinstance(c, ast.Compare) and isinstance(c.ops[0], (ast.In, ast.NotIn)) and norm(c.comparators[0]) in params:
                        seen_tests.add(nd.id)
        tgt = {n.id for n in ast.walk(loop.target) if isinstance(n, ast.Name)}
        for y in own_nodes(h.fn):
            # the yield of the edge just found: it names an end of the edge the loop enumerates
            nearest = next((p for p in paths.parents(y) if isinstance(p, (ast.For, ast.While))), None)
            if nearest is not loop:
                continue  # (a loop that passes on the results of a recursive call)
            if isinstance(y, ast.Yield) and y.value is not None and isinstance(y.value, ast.Tuple) and any(isinstance(e, ast.Name) and e.id in tgt for e in y.value.elts):
                yn = g.node_of(y, paths)
                free = yn in g.reach(head, avoid=seen_tests)
                rep.ob("C11.c2-seen-prunes-expansion-only", paths, h.label, y, free,
                       "the found edge is yielded on a path that does not consult the visited set" if free else
                       "the found edge is only yielded after the visited-set test: pairs that close a cycle are lost", node=y)

    # (k) the closure walk does not recurse once per hop
    rep.rule(
        "C11.k-closure-walk-not-recursive-per-hop",
        "the traversal helpers of MulPath's evaluator (p+, p*) do not call themselves for the next node of the walk: one generator frame per hop makes a "
        "simple chain of about a thousand edges (sys.getrecursionlimit()) raise RecursionError instead of answering - `?x rdf:rest*/rdf:first ?m` "
        "on a 1000-member list. The frontier is kept in an explicit work list",
        floor=2,
    )
    for h in helpers:
        if not any(isinstance(x, ast.Call) and norm(x.func) == "eval_path" for x in ast.walk(h.fn)):
            continue
        selfcalls = [c for c in ast.walk(h.fn) if mev.callee(c) is h]
        if not selfcalls and not any(isinstance(x, (ast.For, ast.While)) for x in own_nodes(h.fn)):
            continue
        rep.ob("C11.k-closure-walk-not-recursive-per-hop", paths, h.label, selfcalls[0] if selfcalls else "no self-call", not selfcalls,
               "iterative walk" if not selfcalls else
               "%s calls itself for every node it reaches: the depth of the Python stack grows with the length of the path walked, a chain longer than the recursion limit raises RecursionError" % h.name,
               node=selfcalls[0] if selfcalls else h.fn)

    # (f) composition is unfiltered
    rep.rule(
        "C11.f-composition-unfiltered",
        "the code that composes sub-path results (the evaluators of SequencePath, AlternativePath and InvPath: eval and the private callables it "
        "reaches) passes every pair on: a loop over a sub-path evaluation or over the results of a helper - written in the loop header, held in a "
        "local that an assignment gives such results, or received through a parameter that a call of the evaluator hands them - contains no "
        "if/continue/break between the evaluation and the yield; `yield from <evaluation>` passes everything on by construction",
        floor=6,
    )
    for cname in ("SequencePath", "AlternativePath", "InvPath"):
        cev = _h.Evaluator(paths, cname)

        def _composes(e: ast.AST, _ev=cev) -> bool:
            return any(isinstance(c, ast.Call) and (norm(c.func) == "eval_path" or _ev.callee(c) is not None) for c in ast.walk(e))

        def _carries(hlp_, e: ast.AST, seen: frozenset = frozenset(), _ev=cev) -> bool:
            """e can evaluate to the pairs of a sub-path evaluation / of a helper: it contains one, or it is a local name some assignment of
            which gives it one, or a parameter that some call of the evaluator hands one (value flow, not spelling)"""
            if _composes(e):
                return True
            if not isinstance(e, ast.Name) or (id(hlp_.fn), e.id) in seen:
                return False
            seen = seen | {(id(hlp_.fn), e.id)}
            if e.id in hlp_.params:
                if any(isinstance(t, ast.Name) and t.id == e.id and isinstance(t.ctx, ast.Store) for t in own_nodes(hlp_.fn)):
                    return False
                i = hlp_.params.index(e.id)
                return any(k is hlp_ and k.arg(c, i) is not None and _carries(g_, k.arg(c, i), seen) for g_ in _ev.all() for c, k in _ev.calls(g_))
            return any(isinstance(a, ast.Assign) and any(isinstance(t, ast.Name) and t.id == e.id for t in a.targets) and _carries(hlp_, a.value, seen)
                       for a in own_nodes(hlp_.fn))

        n_here = 0
        for hlp in cev.all():
            q, f = hlp.label, hlp.fn
            for loop in [n for n in own_nodes(f) if isinstance(n, ast.For)]:
                if not _carries(hlp, loop.iter):
                    continue
                filt = [s for s in loop.body if not isinstance(s, (ast.For, ast.Expr))]
                filt += [s for s in loop.body if isinstance(s, ast.Expr) and not isinstance(s.value, (ast.Yield, ast.YieldFrom, ast.Constant))]
                n_here += 1
                rep.ob("C11.f-composition-unfiltered", paths, q, "for %s in %s" % (norm(loop.target), norm(loop.iter)), not filt,
                       "every pair of the sub-path is passed on" if not filt else
                       "composition loop filters its pairs (%s): the composed relation loses members" % norm(filt[0])[:80], node=loop)
            for y in own_nodes(f):
                if isinstance(y, ast.YieldFrom) and _carries(hlp, y.value):
                    n_here += 1
                    rep.ob("C11.f-composition-unfiltered", paths, q, y, True, "every pair of the evaluation is handed on as it comes", node=y)
        if not n_here:
            raise AnalysisError("%s.eval: no loop over (and no `yield from`) a sub-path evaluation found in the evaluator" % cname)

    # (g) operand lists are not shared and then mutated
    rep.rule(
        "C11.g-no-shared-operand-mutation",
        "a Path method that mutates self.<list attr> in place (append/extend/+=/insert/item assignment) never does so "
        "on a list that may be another path's operand list (aliasing another object's attribute makes building a new "
        "path change the meaning of an existing one)",
        floor=2,
    )
    path_classes = [c for c in typed.subclasses("rdflib.paths.Path") if c.startswith("rdflib.paths.")]
    for c in path_classes:
        cname = c.rsplit(".", 1)[1]
        if not paths.has(cname):
            continue
        for mname, f in paths.methods(cname).items():
            assigns = {}
            muts = []
            for n in own_nodes(f):
                if isinstance(n, (ast.Assign, ast.AnnAssign)) and getattr(n, "value", None) is not None:
                    tg = n.targets if isinstance(n, ast.Assign) else [n.target]
                    for t in tg:
                        if isinstance(t, ast.Attribute) and isinstance(t.value, ast.Name) and t.value.id == "self":
                            assigns.setdefault(t.attr, []).append(n.value)
                        # parallel assignment: self.args, rest = first.args, rest[1:]
                        if isinstance(t, ast.Tuple) and isinstance(n.value, ast.Tuple) and len(t.elts) == len(n.value.elts):
                            for tt, vv in zip(t.elts, n.value.elts):
                                if isinstance(tt, ast.Attribute) and isinstance(tt.value, ast.Name) and tt.value.id == "self":
                                    assigns.setdefault(tt.attr, []).append(vv)
                if isinstance(n, ast.AugAssign) and isinstance(n.target, ast.Attribute) and isinstance(n.target.value, ast.Name) and n.target.value.id == "self":
                    muts.append((n.target.attr, n))
                if isinstance(n, ast.Call) and isinstance(n.func, ast.Attribute) and n.func.attr in ("append", "extend", "insert", "remove", "pop", "sort", "reverse", "clear") \
                        and isinstance(n.func.value, ast.Attribute) and isinstance(n.func.value.value, ast.Name) and n.func.value.value.id == "self":
                    muts.append((n.func.value.attr, n))
                if isinstance(n, (ast.Assign,)) and any(isinstance(t, ast.Subscript) and isinstance(t.value, ast.Attribute) and isinstance(t.value.value, ast.Name)
                                                       and t.value.value.id == "self" for t in n.targets):
                    for t in n.targets:
                        if isinstance(t, ast.Subscript) and isinstance(t.value, ast.Attribute):
                            muts.append((t.value.attr, n))
            for attr, m in muts:
                foreign = [v for v in assigns.get(attr, []) if _may_alias_foreign(v, attr)]
                # outside __init__, the attribute may have been aliased by the constructor
                if mname != "__init__":
                    init = paths.methods(cname).get("__init__")
                    if init is not None:
                        for n in own_nodes(init):
                            if isinstance(n, ast.Assign) and any(norm(t) == "self." + attr for t in n.targets) and _may_alias_foreign(n.value, attr):
                                foreign.append(n.value)
                rep.ob("C11.g-no-shared-operand-mutation", paths, "%s.%s" % (cname, mname), m, not foreign,
                       "self.%s is a list created by this object" % attr if not foreign else
                       "self.%s may be the operand's own list (%s) and is then mutated in place" % (attr, norm(foreign[0])), node=m)


from vlib.core import layer as _layer  # noqa: E402

_run_base = run


def run(repo: Repo, rep: Report) -> None:  # noqa: F811
    _layer(rep, _run_base, repo)
    # ------------------------------------------------------------------ (i)
    rep.rule("C11.i-path-grammar-nodes-are-translated",
             "every Comp node the SPARQL path grammar can produce (parser.py: Comp names containing `Path`) has an arm in algebra.translatePath - a comparison `p.name == <name>` in the "
             "code of translatePath (the function and the module functions it reaches) or a key <name> of a module-level table it looks `p.name` up in -, so no "
             "untranslated parse node is ever handed to a path evaluator (table-listed exceptions: syntax that is not SPARQL 1.1)", floor=5)
    pm = repo.mod("rdflib.plugins.sparql.parser")
    am = repo.mod("rdflib.plugins.sparql.algebra")
    NOT_SPARQL11 = {"DistinctPath": "DISTINCT(path) was dropped from the SPARQL 1.1 grammar; it parses but is not part of the property"}
    names = {}
    for c in ast.walk(pm.tree):
        if isinstance(c, ast.Call) and norm(c.func) == "Comp" and c.args and isinstance(c.args[0], ast.Constant) and isinstance(c.args[0].value, str) and "Path" in c.args[0].value:
            names.setdefault(c.args[0].value, c)
    tp = [f for q, f in am.functions() if q == "translatePath"]
    if not tp:
        raise AnalysisError("translatePath vanished")
    # The code of translatePath: the public function and every function of the module that it calls by name or that an entry of a
    # table it dispatches through names, transitively (an arm may be a branch of an if-chain or a function of its own).
    module_funcs = {st.name: st for st in am.tree.body if isinstance(st, ast.FunctionDef)}
    tables = _h.module_tables(am)
    tcode: list = list(tp)
    arms: set = set()
    k_ = 0
    while k_ < len(tcode):
        f = tcode[k_]
        k_ += 1
        for n in ast.walk(f):
            nxt = []
            if isinstance(n, ast.Call) and isinstance(n.func, ast.Name) and n.func.id in module_funcs:
                nxt.append(module_funcs[n.func.id])
            lk = _h.table_lookup(n, tables)
            if lk is not None and norm(lk[1]).endswith(".name"):
                # the set of things the table maps: a key is an arm, the function it names is the arm's code
                for key, val in tables[lk[0]].items():
                    arms.add(key)
                    if isinstance(val, ast.Name) and val.id in module_funcs:
                        nxt.append(module_funcs[val.id])
            for g_ in nxt:
                if g_.name != "translatePath" and not any(g_ is x for x in tcode):
                    tcode.append(g_)
    arms |= {n.comparators[0].value for f in tcode for n in ast.walk(f) if isinstance(n, ast.Compare) and norm(n.left).endswith(".name") and isinstance(n.comparators[0], ast.Constant)}
    for nm, c in sorted(names.items()):
        if nm in NOT_SPARQL11:
            continue
        ok = nm in arms
        rep.ob("C11.i-path-grammar-nodes-are-translated", pm, "<path grammar>", "Comp(%r)" % nm, ok,
               "translated by translatePath" if ok else
               "the grammar produces %s nodes but translatePath has no arm for them: the parse node itself ends up as a member of the path object and evaluation raises (`?x !(^:p) ?y` is valid SPARQL)" % nm, node=c)

    # the negated-set arm wraps in InvPath exactly the part built from the inverse members (SPARQL 18.2.2.3: !(fwd|^inv) = NPS(fwd) | ^NPS(inv))
    for f_ in tcode:
        inv_names, fwd_names = set(), set()
        for a in own_nodes(f_):
            if isinstance(a, ast.Assign) and isinstance(a.targets[0], ast.Name) and isinstance(a.value, ast.ListComp):
                conds = [norm(c) for g_ in a.value.generators for c in g_.ifs]
                if any('"InversePath"' in c.replace("'", '"') for c in conds):
                    (fwd_names if any(c.startswith("not ") for c in conds) else inv_names).add(a.targets[0].id)
        for c in own_nodes(f_):
            if isinstance(c, ast.Call) and norm(c.func) == "InvPath" and c.args and (inv_names or fwd_names):
                used = {n.id for n in ast.walk(c.args[0]) if isinstance(n, ast.Name)}
                if used & (inv_names | fwd_names):
                    ok = bool(used & inv_names) and not (used & fwd_names)
                    rep.ob("C11.i-path-grammar-nodes-are-translated", am, "translatePath" if f_.name == "translatePath" else f_.name, c, ok,
                           "the inverse of the set of ^members" if ok else
                           "InvPath wraps the set built from the FORWARD members (%s): !(:a|^:b) is evaluated as ^!(:a) | !(:b) - the forward IRIs are excluded in the reverse direction and vice versa" % sorted(used & fwd_names), node=c)

    # ------------------------------------------------------------------ (j)
    rep.rule("C11.j-negated-set-inverse-members-reversed",
             "NegatedPath accepts inverse members (^iri); !(…|^q|…) contains the REVERSED edges whose predicate is none of the q, so NegatedPath.eval enumerates "
             "graph.triples with its two ends swapped for that part, and the forward enumeration is present too", floor=2)
    paths = repo.mod("rdflib.paths")
    init = paths.func("NegatedPath.__init__")
    accepts_inv = any(isinstance(n, ast.Name) and n.id == "InvPath" for n in ast.walk(init))
    ev = paths.func("NegatedPath.eval")
    a = [x.arg for x in ev.args.args]
    subj, obj = a[2], a[3]
    pats = [norm(c.args[0]) for c in own_nodes(ev) if isinstance(c, ast.Call) and isinstance(c.func, ast.Attribute) and c.func.attr == "triples" and c.args]
    fwd = "(%s, None, %s)" % (subj, obj) in pats
    rev = "(%s, None, %s)" % (obj, subj) in pats
    rep.ob("C11.j-negated-set-inverse-members-reversed", paths, "NegatedPath.eval", "forward edges enumerated: graph.triples((%s, None, %s))" % (subj, obj), fwd,
           "" if fwd else "no forward enumeration found", node=ev)
    if accepts_inv:
        rep.ob("C11.j-negated-set-inverse-members-reversed", paths, "NegatedPath.eval", "reversed edges enumerated: graph.triples((%s, None, %s))" % (obj, subj), rev,
               "" if rev else "inverse members are accepted by __init__ but eval never enumerates edges in the reverse direction: !(^q) yields forward edges (filtered by an unrelated "
               "existence test) instead of the pairs (x, y) with y --not q--> x", node=ev)


# ---------------------------------------------------------------------------
# layer 3 (F170-F173): direction of a continued walk, optional grammar parts, white space inside path productions


def _none_facts(test: ast.AST) -> tuple[dict, dict]:
    """(facts if the test is true, facts if it is false); a fact is name -> True (is not None) / False (is None)"""
    if isinstance(test, ast.Compare) and len(test.ops) == 1 and isinstance(test.left, ast.Name) \
            and isinstance(test.comparators[0], ast.Constant) and test.comparators[0].value is None:
        if isinstance(test.ops[0], ast.IsNot):
            return {test.left.id: True}, {test.left.id: False}
        if isinstance(test.ops[0], ast.Is):
            return {test.left.id: False}, {test.left.id: True}
    if isinstance(test, ast.UnaryOp) and isinstance(test.op, ast.Not):
        t, f = _none_facts(test.operand)
        return f, t
    if isinstance(test, ast.BoolOp):
        parts = [_none_facts(v) for v in test.values]
        merged: dict = {}
        for t, f in parts:
            merged.update(t if isinstance(test.op, ast.And) else f)
        return (merged, {}) if isinstance(test.op, ast.And) else ({}, merged)
    return {}, {}


def _known_ends(mod, node: ast.AST, stop: ast.AST) -> dict:
    """what the `if X is [not] None` statements enclosing node (inside stop) say about names at node"""
    facts: dict = {}
    child = node
    for p in mod.parents(node):
        if isinstance(p, ast.If):
            t, f = _none_facts(p.test)
            got = t if any(child is s for s in p.body) else f if any(child is s for s in p.orelse) else {}
            for k, v in got.items():
                facts.setdefault(k, v)
        if p is stop:
            break
        child = p
    return facts


def _step_pattern(c: ast.AST):
    """the (start, step, end) pattern of a step evaluation eval_path(graph, (a, p, b)), else None"""
    if isinstance(c, ast.Call) and norm(c.func) == "eval_path" and len(c.args) == 2 and isinstance(c.args[1], ast.Tuple) and len(c.args[1].elts) == 3:
        return c.args[1].elts
    return None


def _is_none(e: ast.AST) -> bool:
    return isinstance(e, ast.Constant) and e.value is None


def _walk_anchor(h):
    """(index of the parameter the helper (a vlib.h_c11.Helper) starts its walk from - among the parameters a caller supplies -, side of the step
    pattern it sits on: 0 start / 2 end), read off the helper's own step evaluations that leave exactly the other end open; None if the helper has
    no fixed direction"""
    params = h.params
    found = set()
    for c in own_nodes(h.fn):
        pat = _step_pattern(c)
        if pat is None:
            continue
        a, _, b = pat
        if _may_be_open(b) and isinstance(a, ast.Name) and a.id in params:
            found.add((params.index(a.id), 0))
        if _may_be_open(a) and isinstance(b, ast.Name) and b.id in params:
            found.add((params.index(b.id), 2))
    return next(iter(found)) if len(found) == 1 else None


def _may_be_open(e: ast.AST) -> bool:
    """the end of a step pattern is left open on some evaluation: the constant None, or a conditional expression one arm of which is"""
    if isinstance(e, ast.IfExp):
        return _may_be_open(e.body) or _may_be_open(e.orelse)
    return _is_none(e)


def _relay(mod, h):
    """A helper WITHOUT a start of its own that extends a walk it is handed: it loops over a stream of (start, end) pairs it receives as a
    parameter (never rebound) and evaluates one more step from a node of each pair.  -> (index of the stream parameter, side of the step pattern
    the node of the pair sits on: 0 the step goes on from it / 2 the step leads to it), None if the helper has no such step or its steps disagree"""
    rebound = {t.id for n in own_nodes(h.fn) for t in ast.walk(n) if isinstance(t, ast.Name) and isinstance(t.ctx, ast.Store)}
    found = set()
    for c in own_nodes(h.fn):
        pat = _step_pattern(c)
        if pat is None:
            continue
        for nm, (loop, _pos) in _reached(mod, c, h.fn).items():
            if not (isinstance(loop.iter, ast.Name) and loop.iter.id in h.params and loop.iter.id not in rebound):
                continue
            for side in (0, 2):
                if isinstance(pat[side], ast.Name) and pat[side].id == nm:
                    found.add((h.params.index(loop.iter.id), side))
    return next(iter(found)) if len(found) == 1 else None


def _stream_sources(h, e: ast.AST, seen: frozenset = frozenset()):
    """the expressions a stream handed on by helper h can have been produced by: e itself, or - for a local name - the right-hand sides of
    ALL its assignments in h (flow-insensitive); None if some producer cannot be read (a parameter, a non-trivial target)"""
    if not isinstance(e, ast.Name):
        return [e]
    if e.id in seen or e.id in h.params:
        return None if e.id in h.params else []
    out = []
    stored = False
    for n in own_nodes(h.fn):
        if isinstance(n, ast.Assign) and any(isinstance(t, ast.Name) and t.id == e.id for t in n.targets):
            stored = True
            sub = _stream_sources(h, n.value, seen | {e.id})
            if sub is None:
                return None
            out += sub
        elif isinstance(n, ast.Name) and n.id == e.id and isinstance(n.ctx, ast.Store):
            p = None
            # a store that is not the plain target of an assignment (loop target, with-as, augmented, unpacking): unreadable
            if not any(isinstance(a, ast.Assign) and any(t is n for t in a.targets) for a in own_nodes(h.fn)):
                return None
    return out if stored else None


def _reached(mod, node: ast.AST, h: ast.AST) -> dict:
    """names bound by the for-loops of h that enclose node -> (loop, position in the loop target)"""
    out: dict = {}
    for p in mod.parents(node):
        if p is h:
            break
        if isinstance(p, ast.For):
            elts = p.target.elts if isinstance(p.target, ast.Tuple) else [p.target]
            for i, e in enumerate(elts):
                if isinstance(e, ast.Name):
                    out.setdefault(e.id, (p, i if isinstance(p.target, ast.Tuple) else None))
    return out


# --- a tiny reader of the pyparsing grammar module (expressions are never evaluated)
_LW = ("leave_whitespace", "leaveWhitespace")
_TRANSPARENT_METHODS = ("copy", "set_parse_action", "setParseAction", "add_parse_action", "addParseAction", "set_name", "setName", "suppress",
                        "set_results_name", "setResultsName", "set_debug", "streamline")


def _grammar_env(pm) -> dict:
    """module-level grammar definitions: name -> expression; a Forward() name resolves to what `<<=` gives it"""
    env: dict = {}
    for st in pm.tree.body:
        if isinstance(st, ast.Assign) and len(st.targets) == 1 and isinstance(st.targets[0], ast.Name):
            env[st.targets[0].id] = st.value
        elif isinstance(st, ast.AugAssign) and isinstance(st.op, ast.LShift) and isinstance(st.target, ast.Name):
            env[st.target.id] = st.value
    return env


def _flat(e: ast.AST, op) -> list:
    if isinstance(e, ast.BinOp) and isinstance(e.op, op):
        return _flat(e.left, op) + _flat(e.right, op)
    return [e]


def _cname(c: ast.Call) -> str:
    return c.func.id if isinstance(c.func, ast.Name) else c.func.attr if isinstance(c.func, ast.Attribute) else ""


def _is_param(c: ast.AST) -> bool:
    return isinstance(c, ast.Call) and isinstance(c.func, ast.Name) and c.func.id in ("Param", "ParamList") and bool(c.args) \
        and isinstance(c.args[0], ast.Constant) and isinstance(c.args[0].value, str)


def _is_comp(c: ast.AST) -> bool:
    return isinstance(c, ast.Call) and isinstance(c.func, ast.Name) and c.func.id == "Comp"


def _param_names(e: ast.AST, env: dict, seen: frozenset = frozenset()) -> set:
    """names of the Param/ParamList results the expression can set on the enclosing Comp (nested Comp nodes keep their own)"""
    if _is_param(e):
        return {e.args[0].value}
    if _is_comp(e):
        return set()
    if isinstance(e, ast.Name):
        if e.id in env and e.id not in seen:
            return _param_names(env[e.id], env, seen | {e.id})
        return set()
    out = set()
    for ch in ast.iter_child_nodes(e):
        out |= _param_names(ch, env, seen)
    return out


def _may_be_absent(e: ast.AST, name: str, env: dict, seen: frozenset = frozenset()) -> bool:
    """can the expression match without setting result `name`?"""
    if _is_param(e):
        return e.args[0].value != name
    if _is_comp(e) or isinstance(e, (ast.Constant, ast.UnaryOp)):
        return True
    if isinstance(e, ast.BinOp) and isinstance(e.op, ast.Add):
        return all(_may_be_absent(x, name, env, seen) for x in _flat(e, ast.Add))
    if isinstance(e, ast.BinOp) and isinstance(e.op, (ast.BitOr, ast.BitXor)):
        return any(_may_be_absent(x, name, env, seen) for x in _flat(e, type(e.op)))
    if isinstance(e, ast.Name):
        if e.id in env and e.id not in seen:
            return _may_be_absent(env[e.id], name, env, seen | {e.id})
        return True
    if isinstance(e, ast.Call):
        if isinstance(e.func, ast.Name) and e.func.id in ("Optional", "Opt", "ZeroOrMore"):
            return True
        if isinstance(e.func, ast.Attribute):  # X.copy(), X.leave_whitespace(), ...
            return _may_be_absent(e.func.value, name, env, seen)
        return all(_may_be_absent(a, name, env, seen) for a in e.args)
    return True


def _ws_sensitive(e: ast.AST, env: dict, mutated: dict, seen: frozenset = frozenset()):
    """the .leave_whitespace() call that makes the START of this element refuse preceding white space, or None.  An alternation
    `X.leave_whitespace() | <lookaheads> + X` is not sensitive: its second arm takes X after white space."""
    if isinstance(e, ast.Call):
        if isinstance(e.func, ast.Attribute):
            if e.func.attr in _LW:
                return e
            if e.func.attr in _TRANSPARENT_METHODS:
                return _ws_sensitive(e.func.value, env, mutated, seen)
            return None
        for a in e.args:
            r = _ws_sensitive(a, env, mutated, seen)
            if r is not None:
                return r
        return None
    if isinstance(e, ast.BinOp) and isinstance(e.op, ast.Add):
        return _ws_sensitive(_flat(e, ast.Add)[0], env, mutated, seen)
    if isinstance(e, ast.BinOp) and isinstance(e.op, (ast.BitOr, ast.BitXor)):
        alts = _flat(e, type(e.op))
        for a in alts:
            r = _ws_sensitive(a, env, mutated, seen)
            if r is None:
                continue
            if r is a and any(_ws_cover(b, r, env, mutated, seen) is not None for b in alts if b is not a):
                continue
            return r
        return None
    if isinstance(e, ast.Name):
        if e.id in mutated:
            return mutated[e.id]
        if e.id.startswith("Path") and e.id in env and e.id not in seen:
            return _ws_sensitive(env[e.id], env, mutated, seen | {e.id})
    return None


def _lw_base(call: ast.Call) -> ast.AST:
    b = call.func.value
    while isinstance(b, ast.Call) and isinstance(b.func, ast.Attribute) and b.func.attr == "copy" and not b.args:
        b = b.func.value
    return b


def _ws_cover(b: ast.AST, lw: ast.Call, env: dict, mutated: dict, seen: frozenset):
    """if alternative b matches the element of `lw` with white space skipped (only lookaheads before it), the lookaheads; else None"""
    chain = _flat(b, ast.Add)
    if norm(chain[-1]) != norm(_lw_base(lw)) or _ws_sensitive(chain[-1], env, mutated, seen) is not None:
        return None
    if not all(isinstance(x, ast.UnaryOp) and isinstance(x.op, ast.Invert) for x in chain[:-1]):
        return None
    return [x.operand for x in chain[:-1]]


def _lead(e: ast.AST, env: dict, seen: frozenset = frozenset()) -> set:
    """first characters of the literal strings an element can start with (regular-expression tokens contribute nothing)"""
    if isinstance(e, ast.Constant):
        return {e.value[0]} if isinstance(e.value, str) and e.value else set()
    if isinstance(e, ast.BinOp) and isinstance(e.op, ast.Add):
        out = set()
        for x in _flat(e, ast.Add):
            out |= _lead(x, env, seen)
            nullable = (isinstance(x, ast.Call) and isinstance(x.func, ast.Name) and x.func.id in ("Optional", "Opt", "ZeroOrMore")) or isinstance(x, ast.UnaryOp)
            if not nullable:
                break
        return out
    if isinstance(e, ast.BinOp) and isinstance(e.op, (ast.BitOr, ast.BitXor)):
        return set().union(*[_lead(x, env, seen) for x in _flat(e, type(e.op))])
    if isinstance(e, ast.UnaryOp):
        return set()
    if isinstance(e, ast.Name):
        if e.id in env and e.id not in seen:
            return _lead(env[e.id], env, seen | {e.id})
        return set()
    if isinstance(e, ast.Call):
        if isinstance(e.func, ast.Attribute):
            return _lead(e.func.value, env, seen)
        if isinstance(e.func, ast.Name) and e.func.id == "Regex":
            return set()
        args = e.args[1:] if (_is_param(e) or _is_comp(e)) else e.args[:1]
        return set().union(*[_lead(a, env, seen) for a in args]) if args else set()
    return set()


_run_base2 = run


def run(repo: Repo, rep: Report) -> None:  # noqa: F811
    _layer(rep, _run_base2, repo)
    paths = repo.mod("rdflib.paths")
    typed = repo.typed

    # ------------------------------------------------------------------ (l)
    # A helper of a path evaluator that walks in a fixed direction evaluates its own step from one of its end parameters and leaves
    # the other end of that step open.  Whoever hands it the rest of a walk must put a node it KNOWS on that parameter.
    # What is counted: not the call sites (two branches of the driver that make the same call may be one) but, for each of the
    # public evaluators that compose a walk out of steps (SequencePath.eval, MulPath.eval), (1) every directional helper is entered
    # at least once from the driver, directly or through another helper, and (2) at least one continuation of a walk from a reached
    # node (a call between helpers or a pushed step) is seen; a directional helper the driver cannot reach, or an evaluator without a
    # continuation, is a lost anchor.
    rep.rule(
        "C11.l-walk-continues-from-known-node",
        "in the evaluators of the Path classes (the public eval and the private callables it reaches - nested closures, private methods called through "
        "self, private module functions), a helper whose own step starts from one of its end parameters (eval_path(graph, (P, step, None)) "
        "or (None, step, P)) receives on that parameter the node just reached by the caller's loop - the far end of the caller's step - or an end "
        "the enclosing `is not None` tests prove bound; a step pushed for a reached node keeps the helper's direction.  The other end of the helper's own "
        "step counts as open when it CAN be None (None, or a conditional expression with a None arm).  The iterative form is judged alike: a helper "
        "without a start of its own that loops over a stream of pairs it receives as a parameter and evaluates one more step per pair (a relay) must "
        "join the step on the FAR end of each pair (second member when the step goes on from it, first when the step leads to it); a directional helper "
        "may hand to a relay only its own walk (a step from its own end, or that walk already extended by a relay of the same direction), and the relay "
        "must extend at the end the helper walks towards.  Otherwise the callee's first "
        "step runs with BOTH ends unbound and a zero-length match on a term that is not in the graph is lost: "
        "Graph().subjects(p*/q*/r*, X) must yield X",
        floor=4,
    )
    rid = "C11.l-walk-continues-from-known-node"
    path_classes = [c for c in typed.subclasses("rdflib.paths.Path") if c.startswith("rdflib.paths.")]
    composed = {}
    for c in path_classes:
        cname = c.rsplit(".", 1)[1]
        if cname == "Path" or not paths.has(cname + ".eval"):
            continue
        pev = _h.Evaluator(paths, cname)
        ev = pev.entry.fn
        if not pev.helpers:
            continue
        anchors = {id(h.fn): _walk_anchor(h) for h in pev.helpers}
        ends = list(pev.entry.params[1:3])
        n_cont = 0
        # the helpers the driver starts, directly or through another helper
        entered: set[int] = {id(k.fn) for _c, k in pev.calls(pev.entry)}
        grew = True
        while grew:
            grew = False
            for h in pev.helpers:
                if id(h.fn) in entered:
                    for _c, k in pev.calls(h):
                        if id(k.fn) not in entered:
                            entered.add(id(k.fn))
                            grew = True
        # (1) calls between helpers that continue a walk, (2) steps pushed for a reached node.  The rule must see EVERY continuation
        # of a walk in the evaluator, wherever it stands: one it cannot judge (in the driver itself, in a helper without a direction of
        # its own, a directional helper started from something that is neither a reached node nor an end) is an analysis error, never a
        # silent pass
        unjudged: list[str] = []
        anchors[id(ev)] = None
        # helpers without a start of their own that extend, by one step, a stream of pairs they are handed (the iterative form of a continued walk)
        relays = {id(h.fn): _relay(paths, h) for h in pev.helpers if anchors[id(h.fn)] is None}
        for h in pev.all():
            hn = h.name
            for n in own_nodes(h.fn):
                if not isinstance(n, ast.Call):
                    continue
                k = pev.callee(n)
                reached = _reached(paths, n, h.fn)
                if k is not None and anchors[id(k.fn)] is None and relays.get(id(k.fn)) is not None:
                    # (1b) the walk is continued by handing the pairs found so far to a relay: the relay must extend them at the end the
                    # walk of the caller advances on, and what it is handed must be the caller's own walk (its step from its own end, or
                    # that walk already extended in the same direction)
                    sidx, kside = relays[id(k.fn)]
                    mine = anchors[id(h.fn)]
                    if mine is None:
                        unjudged.append("%s: %s hands a walk to %s, which extends it by one step, but %s has no direction of its own" % (h.label, norm(n), k.name, hn))
                        continue
                    srcs = _stream_sources(h, k.arg(n, sidx)) if k.arg(n, sidx) is not None else None
                    if not srcs:
                        unjudged.append("%s: cannot tell which pairs %s hands to %s" % (h.label, norm(n), k.name))
                        continue
                    ok, why = kside == mine[1], "%s extends the pairs at their %s, the direction %s walks in" % (k.name, "end" if kside == 0 else "start", hn)
                    if not ok:
                        why = "%s walks %s, but hands its pairs to %s, which extends them at their %s: the walk turns round" % (
                            hn, "forwards" if mine[1] == 0 else "backwards", k.name, "end" if kside == 0 else "start")
                    for src in srcs:
                        sp = _step_pattern(src)
                        k2 = pev.callee(src)
                        if sp is not None:
                            if not (isinstance(sp[mine[1]], ast.Name) and sp[mine[1]].id == h.params[mine[0]]):
                                ok, why = False, "the pairs handed to %s come from %s, which does not start from %s, the end %s walks from" % (k.name, norm(src), h.params[mine[0]], hn)
                        elif k2 is not None and relays.get(id(k2.fn)) is not None:
                            if relays[id(k2.fn)][1] != mine[1]:
                                ok, why = False, "the pairs handed to %s were extended by %s in the other direction" % (k.name, k2.name)
                        else:
                            unjudged.append("%s: the pairs handed to %s may come from %s, which is neither a step nor an extended walk" % (h.label, k.name, norm(src)))
                    n_cont += 1
                    rep.ob(rid, paths, h.label, n, ok, why, node=n)
                    continue
                if not reached:
                    if h is not pev.entry and k is not None and anchors[id(k.fn)] is not None:
                        unjudged.append("%s: %s starts a directional helper outside any loop over results" % (h.label, norm(n)))
                    continue
                pat_ = _step_pattern(n)
                if pat_ is not None and anchors[id(h.fn)] is None and relays.get(id(h.fn)) is not None:
                    # (2b) the step a relay evaluates for each pair of the walk it is handed: relational composition joins the pairs and the
                    # step on the FAR end of the pair - (s, mid) then (mid, o) forwards, (mid, o) preceded by (s, mid) backwards
                    sidx, side = relays[id(h.fn)]
                    nm = pat_[side].id if isinstance(pat_[side], ast.Name) else None
                    other = pat_[2 - side]
                    loop, pos = reached.get(nm, (None, None))
                    if loop is None or not (isinstance(loop.iter, ast.Name) and loop.iter.id == h.params[sidx]) or (isinstance(other, ast.Name) and other.id in reached):
                        unjudged.append("%s: cannot tell how the step %s continues the walk %s is handed" % (h.label, norm(n), hn))
                        continue
                    far = 1 if side == 0 else 0
                    ok = pos == far
                    n_cont += 1
                    rep.ob(rid, paths, h.label, n, ok,
                           "the step goes on from the far end of each pair handed in (%s)" % nm if ok else
                           "%s extends the pairs it is handed at their %s, but the step is evaluated for %s, which is not the %s of the pair: the composition joins on the wrong node" % (
                               hn, "end" if side == 0 else "start", nm, "end" if side == 0 else "start"), node=n)
                    continue
                if pat_ is not None and anchors[id(h.fn)] is None and any(isinstance(x, ast.Name) and x.id in reached for x in (pat_[0], pat_[2])):
                    unjudged.append("%s: the step %s continues a walk from a reached node, but %s has no direction of its own (no step from one of its end parameters)" % (h.label, norm(n), hn))
                if k is not None and anchors[id(k.fn)] is not None:
                    idx, _side = anchors[id(k.fn)]
                    arg = k.arg(n, idx)
                    pname = k.params[idx]
                    facts = _known_ends(paths, n, h.fn)
                    ok = isinstance(arg, ast.Name) and (arg.id in reached or facts.get(arg.id) is True)
                    why = "%s starts from its parameter %s, which receives %s" % (k.name, pname, norm(arg) if arg is not None else "nothing")
                    if ok and arg.id in reached and anchors[id(h.fn)] is not None:
                        loop, pos = reached[arg.id]
                        if _step_pattern(loop.iter) is not None and pos is not None:
                            far = 1 if anchors[id(h.fn)][1] == 0 else 0
                            ok = pos == far
                            if not ok:
                                why = "%s walks from its %s end, but the continuation starts from the NEAR end of the step just evaluated (%s), not from the node reached" % (
                                    hn, "start" if far == 1 else "end", arg.id)
                    elif not ok:
                        others = [norm(a) for a in n.args if isinstance(a, ast.Name) and a.id in reached]
                        why = ("%s starts its walk from its parameter %s, but the node just reached (%s) is passed as the other end and %s receives %s, which may be unbound: "
                               "the first step of the remaining walk is evaluated with both ends open and zero-length matches on terms absent from the graph are lost" % (
                                   k.name, pname, ", ".join(others) or "-", pname, norm(arg) if arg is not None else "nothing"))
                    n_cont += 1
                    rep.ob(rid, paths, h.label, n, ok, why, node=n)
                pat = _step_pattern(n)
                if pat is not None and anchors[id(h.fn)] is not None and any(isinstance(x, ast.Name) and x.id in reached for x in (pat[0], pat[2])):
                    side = anchors[id(h.fn)][1]
                    ok = isinstance(pat[side], ast.Name) and pat[side].id in reached
                    n_cont += 1
                    rep.ob(rid, paths, h.label, n, ok,
                           "the step pushed for a reached node starts from it in the helper's own direction" if ok else
                           "%s walks %s, but the step evaluated for the node just reached puts it on the other end: the walk turns round" % (hn, "forwards" if side == 0 else "backwards"), node=n)
        # (3) the driver picks a helper that starts from an end it knows to be bound
        for n in own_nodes(ev):
            k = pev.callee(n)
            if k is None or anchors[id(k.fn)] is None:
                continue
            idx, _side = anchors[id(k.fn)]
            arg = k.arg(n, idx)
            if _reached(paths, n, ev):
                continue  # judged above, as a continuation
            if not (isinstance(arg, ast.Name) and arg.id in ends):
                unjudged.append("%s: cannot tell which end %s starts %s from" % (pev.entry.label, norm(n), k.name))
                continue
            facts = _known_ends(paths, n, ev)
            better = [a.id for a in list(n.args) + [kw.value for kw in n.keywords] if isinstance(a, ast.Name) and a.id in ends and a.id != arg.id and facts.get(a.id) is True]
            ok = facts.get(arg.id) is True or not better
            rep.ob(rid, paths, pev.entry.label, n, ok,
                   ("%s starts from %s, known bound here" % (k.name, arg.id) if facts.get(arg.id) is True else "no end is known to be bound on this branch") if ok else
                   "on the branch where %s is bound and %s is not known to be, the walk is handed to %s, which starts from %s: its first step is evaluated with both ends unbound" % (
                       better[0], arg.id, k.name, arg.id), node=n)
        if unjudged:
            raise AnalysisError("; ".join(unjudged))
        directional = [h for h in pev.helpers if anchors[id(h.fn)] is not None]
        if directional:
            composed[cname] = (n_cont, [h.label for h in directional if id(h.fn) not in entered])
    for cname in ("SequencePath", "MulPath"):
        if cname not in composed:
            raise AnalysisError("%s.eval: no helper that walks from one of its end parameters (eval_path(graph, (P, step, None)) / (None, step, P)) found in the evaluator" % cname)
    for cname, (n_cont, unentered) in sorted(composed.items()):
        if unentered:
            raise AnalysisError("%s.eval: the driver never starts the directional helper(s) %s from one of its ends" % (cname, ", ".join(unentered)))
        if not n_cont:
            raise AnalysisError("%s.eval: no continuation of a walk from a reached node (call between helpers / pushed step) found" % cname)

    # ------------------------------------------------------------------ (m)
    pm = repo.mod("rdflib.plugins.sparql.parser")
    am = repo.mod("rdflib.plugins.sparql.algebra")
    env = _grammar_env(pm)
    rep.rule(
        "C11.m-optional-path-part-tested-for-absence",
        "a result (Param/ParamList) that a path production of parser.py can leave unset - it sits under Optional/ZeroOrMore or in one arm of an alternation only - "
        "reads as None on the parse node; the arm of algebra.translatePath for that production (the body of `if p.name == <name>:` or the function a dispatch table "
        "names for <name>, followed into the module functions the node is handed to) consults it and every use is either the absence test itself "
        "(`is None`, `is not None`, truthiness) or lies under one.  Otherwise None is wrapped into the path object: `?s !() ?o` raises 'Can only negate ... not: None'",
        floor=2,
    )
    tps = [f for q, f in am.functions() if q == "translatePath"]
    if not tps:
        raise AnalysisError("translatePath vanished")
    tp = tps[0]
    # the arms of the dispatch on <node>.name: bodies of `if p.name == "X":`, functions named by the entries of a table looked up with
    # p.name; each extended into the module functions it hands the node to (vlib/h_c11.dispatch_arms)
    arms = _h.dispatch_arms(am, tp, "name")

    def is_absence_test(u: ast.AST) -> bool:
        p = am.parent.get(id(u))
        if isinstance(p, ast.Compare) and p.left is u and len(p.ops) == 1 and isinstance(p.ops[0], (ast.Is, ast.IsNot)) and _is_none(p.comparators[0]):
            return True
        if isinstance(p, ast.UnaryOp) and isinstance(p.op, ast.Not):
            return True
        if isinstance(p, (ast.If, ast.IfExp, ast.While)) and p.test is u:
            return True
        return isinstance(p, ast.BoolOp)

    def tests_absence(test: ast.AST, attr: str, pvar: str) -> bool:
        return any(isinstance(x, ast.Attribute) and x.attr == attr and norm(x.value) == pvar and is_absence_test(x) for x in ast.walk(test))

    def guarded(u: ast.AST, attr: str, arm) -> bool:
        """the use lies under a test for the absence of <node>.attr inside its region of the arm, or the region is only entered from a
        place of the arm that does"""
        child = u
        for p in am.parents(u):
            if isinstance(p, (ast.If, ast.IfExp)) and p is not arm.root and child is not p.test and tests_absence(p.test, attr, arm.var):
                return True
            if isinstance(p, ast.BoolOp) and any(tests_absence(v, attr, arm.var) for v in p.values[: next(i for i, v in enumerate(p.values) if v is child)]):
                return True
            for field in ("body", "orelse", "finalbody"):
                blk = getattr(p, field, None)
                if isinstance(blk, list) and any(child is s for s in blk):
                    i = next(i for i, s in enumerate(blk) if s is child)
                    if any(isinstance(s, ast.If) and tests_absence(s.test, attr, arm.var) and s.body and isinstance(s.body[-1], (ast.Return, ast.Raise)) for s in blk[:i]):
                        return True
            if p is arm.root:
                break
            child = p
        return arm.via is not None and guarded(arm.via[1], attr, arm.via[0])

    for c in ast.walk(pm.tree):
        if not (_is_comp(c) and len(c.args) >= 2 and isinstance(c.args[0], ast.Constant) and isinstance(c.args[0].value, str) and "Path" in c.args[0].value):
            continue
        kname = c.args[0].value
        if kname not in arms:
            continue  # (i) reports productions without an arm
        for pn in sorted(_param_names(c.args[1], env)):
            if not _may_be_absent(c.args[1], pn, env):
                continue
            uses = [(x, arm) for arm in arms[kname] if arm.var for s in arm.body for x in ast.walk(s)
                    if isinstance(x, ast.Attribute) and x.attr == pn and norm(x.value) == arm.var and isinstance(x.ctx, ast.Load)]
            bad = [u for u, arm in uses if not is_absence_test(u) and not guarded(u, pn, arm)]
            ok = bool(uses) and not bad
            pv = uses[0][1].var if uses else (arms[kname][0].var or "p")
            rep.ob("C11.m-optional-path-part-tested-for-absence", am, "translatePath", "%s: optional result %r" % (kname, pn), ok,
                   "every use of %s.%s lies under a test for its absence" % (pv, pn) if ok else
                   ("the %s production can leave %r unset, but the arm for it never consults %s.%s: the optional part is ignored" % (kname, pn, pv, pn) if not uses else
                    "the %s production can leave %r unset (the parse node then reads None), but %s is used without a test for absence: None ends up as a member of the path "
                    "(for the empty negated set !() : 'Can only negate URIRefs, InvPaths or AlternativePaths, not: None')" % (kname, pn, norm(am.parent.get(id(bad[0]), bad[0]))[:80])),
                   node=bad[0] if bad else arms[kname][0].root)

    # ------------------------------------------------------------------ (n)
    rep.rule(
        "C11.n-path-grammar-skips-white-space",
        "SPARQL tokens may be separated by white space, also inside a path: no element that FOLLOWS another one in a path production of parser.py (Path*) is made "
        "white-space sensitive by .leave_whitespace(), unless it is one arm of an alternation whose other arm takes the same element after white space "
        "(`X.copy().leave_whitespace() | ~T1 + ~T2 + X`, X itself not modified in place); the lookaheads of that arm exclude every token of the following "
        "object list that begins with a character the element begins with.  Otherwise `?s <p> * ?o`, `(<p>) + <q>` and `<p> ? <b>` are syntax errors / "
        "`?s <p> ?o` and `<p> +1` no longer parse",
        floor=17,
    )
    rid = "C11.n-path-grammar-skips-white-space"
    prods = {k: v for k, v in env.items() if k.startswith("Path")}
    if len(prods) < 8:
        raise AnalysisError("expected >= 8 path productions (Path*) in parser.py, found %s" % sorted(prods))
    mutated = {}
    for x in ast.walk(pm.tree):
        if isinstance(x, ast.Call) and isinstance(x.func, ast.Attribute) and x.func.attr in _LW and isinstance(x.func.value, ast.Name):
            mutated.setdefault(x.func.value.id, x)
    if "ObjectListPath" not in env:
        raise AnalysisError("parser.py: ObjectListPath (what follows a path in a triple pattern) not found")
    follow = _lead(env["ObjectListPath"], env)
    if "?" not in follow:
        raise AnalysisError("parser.py: cannot see that an object may start with '?' (leading literals of ObjectListPath: %s)" % sorted(follow))
    for pname_, expr in sorted(prods.items()):
        for n in ast.walk(expr):
            if isinstance(n, ast.BinOp) and isinstance(n.op, ast.Add):
                par = pm.parent.get(id(n))
                if isinstance(par, ast.BinOp) and isinstance(par.op, ast.Add) and par.left is n:
                    continue
                for x in _flat(n, ast.Add)[1:]:
                    off = _ws_sensitive(x, env, mutated)
                    rep.ob(rid, pm, "<path grammar> " + pname_, x, off is None,
                           "white space before this element is skipped" if off is None else
                           "%s must follow the preceding element immediately: white space, which SPARQL allows between any two tokens, makes the path a syntax error "
                           "(`?s <p> * ?o`)%s" % (norm(off), " - %s is modified in place, every use of it is affected" % norm(off.func.value) if isinstance(off.func.value, ast.Name) else ""),
                           node=x)
            if isinstance(n, ast.BinOp) and isinstance(n.op, (ast.BitOr, ast.BitXor)):
                par = pm.parent.get(id(n))
                if isinstance(par, ast.BinOp) and isinstance(par.op, type(n.op)) and par.left is n:
                    continue
                alts = _flat(n, type(n.op))
                for a in alts:
                    if not (isinstance(a, ast.Call) and isinstance(a.func, ast.Attribute) and a.func.attr in _LW):
                        continue
                    for b in alts:
                        looks = _ws_cover(b, a, env, mutated, frozenset()) if b is not a else None
                        if looks is None:
                            continue
                        # lookaheads written before the whole choice guard each of its arms: `~T + (X.leave_whitespace() | ~U + X)`
                        top = n
                        while isinstance(pm.parent.get(id(top)), ast.BinOp) and isinstance(pm.parent[id(top)].op, type(n.op)):
                            top = pm.parent[id(top)]
                        host = pm.parent.get(id(top))
                        if isinstance(host, ast.BinOp) and isinstance(host.op, ast.Add):
                            while isinstance(pm.parent.get(id(host)), ast.BinOp) and isinstance(pm.parent[id(host)].op, ast.Add):
                                host = pm.parent[id(host)]
                            chain_ = _flat(host, ast.Add)
                            if any(top is x for x in chain_):
                                i_ = [k for k, x in enumerate(chain_) if x is top][0]
                                k_ = i_ - 1
                                while k_ >= 0 and isinstance(chain_[k_], ast.UnaryOp) and isinstance(chain_[k_].op, ast.Invert):
                                    looks = looks + [chain_[k_].operand]
                                    k_ -= 1
                        clash = _lead(_lw_base(a), env) & follow
                        excluded = set().union(*[_lead(l, env) for l in looks]) if looks else set()
                        missing = sorted(clash - excluded)
                        rep.ob(rid, pm, "<path grammar> " + pname_, b, not missing,
                               "lookaheads exclude the following tokens that start with %s" % sorted(clash) if not missing else
                               "after white space %s also matches the first character of the NEXT term (%s starts both this element and a token of the object list) and no "
                               "lookahead excludes that token: the start of the object is swallowed as a path modifier (`?s <p> ?o`, `?s <p> +1`)" % (norm(_lw_base(a)), missing), node=b)


# ---------------------------------------------------------------------------
# layer 4 (F212, F292): an aggregate answers a path pattern over the union of its members; a modifier yields to a longer token

from vlib import h_c11 as _h  # noqa: E402

_run_base3 = run


def run(repo: Repo, rep: Report) -> None:  # noqa: F811
    _layer(rep, _run_base3, repo)
    typed = repo.typed

    # ------------------------------------------------------------------ (o)
    # A path over an aggregate may use triples of several members; asking the members one by one and combining the answers
    # gives the union of the per-member relations, which is smaller.
    rid = "C11.o-aggregate-evaluates-path-over-union"
    rep.rule(
        rid,
        "in a Graph class that iterates over its member graphs (a for-loop / comprehension over something of `self` whose variable is statically a Graph), "
        "a pattern whose static type admits a Path predicate is not evaluated member by member (`pattern in member`, `member.triples(pattern)`, ...) to give an "
        "answer about the aggregate: the evaluation stands where the type of the pattern excludes a Path (the non-Path branch of triples()), or the loop is "
        "restricted to selected members (a condition that cannot hold for every member, e.g. member.identifier == context.identifier, with no "
        "`context is None or ...` way round it), or every value handed out names the member it was found in (quads).  Such a pattern goes through the "
        "object's own triples(), which evaluates the path over the union.  Otherwise `(a, p/q, c) in ReadOnlyGraphAggregate([g1, g2])` with a-p->b in g1 and "
        "b-q->c in g2 is False although triples((a, p/q, c)) yields it",
        floor=5,
    )
    path_classes_all = set(typed.subclasses("rdflib.paths.Path"))
    graph_classes = set(typed.subclasses("rdflib.graph.Graph"))
    if "rdflib.graph.ReadOnlyGraphAggregate" not in graph_classes:
        raise AnalysisError("rdflib.graph.ReadOnlyGraphAggregate is no longer a Graph class")

    def admits_path(m, e: ast.AST):
        """True / False / None (unknown): may the value hold a Path (itself or as a component of a tuple)?"""
        if isinstance(e, ast.Starred):
            e = e.value
        if isinstance(e, ast.Constant):
            return False
        if isinstance(e, (ast.Tuple, ast.List)):
            vs = [admits_path(m, x) for x in e.elts]
            return True if any(v is True for v in vs) else None if any(v is None for v in vs) else False
        tf = typed.type_of(m.name, e)
        if tf is None:
            return None
        if tf.any:
            return True
        return any(c in tf.text for c in path_classes_all)

    def pattern_like(m, e: ast.AST) -> bool:
        if isinstance(e, ast.Tuple):
            return True
        tf = typed.type_of(m.name, e)
        return tf is not None and "builtins.tuple" in tf.items and "rdflib.term." in tf.text  # a tuple of terms

    nsites = 0
    for full in sorted(graph_classes):
        mname, _, cname = full.rpartition(".")
        if mname not in repo.modules:
            continue
        m = repo.mod(mname)
        if not m.has(cname):
            continue

        def is_graph(n: ast.AST, _m=m) -> bool:
            tf = typed.type_of(_m.name, n)
            return tf is not None and bool(tf.items) and all(i in graph_classes for i in tf.items)

        def never_none(n: ast.AST, _m=m) -> bool:
            tf = typed.type_of(_m.name, n)
            return tf is not None and not tf.optional and not tf.any and bool(tf.items) and "<PartialType>" not in tf.items and "None" not in tf.text.split(" | ")

        for meth, fn in m.methods(cname).items():
            for loop in _h.member_loops(m, fn, is_graph):
                for site, args in _h.member_evaluations(loop):
                    pats = [a for a in args if pattern_like(m, a)]
                    if not pats:
                        continue
                    nsites += 1
                    adm = [admits_path(m, a) for a in pats]
                    where = "%s.%s" % (cname, meth)
                    if all(a is False for a in adm):
                        rep.ob(rid, m, where, site, True, "the static type of the pattern excludes a Path here (non-Path branch)", node=site)
                        continue
                    conds = [(t, True, loop.cond_vars) for t in loop.conds]
                    conds += [(t, pos, {loop.var}) for t, pos in _h.conditions_between(m, site, loop.node if isinstance(loop.node, ast.For) else m.parent.get(id(loop.node)))]
                    selecting = [t for t, pos, mv in conds if _h.holds_for_all_members(t, pos, mv, never_none) is False]
                    named = _h.results_name_member(loop)
                    ok = bool(selecting) or named is True
                    rep.ob(rid, m, where, site, ok,
                           ("only selected members are asked (%s)" % norm(selecting[0]) if selecting else "every value handed out names the member it was found in") if ok else
                           "a pattern that may hold a Path is evaluated on each member in turn (no condition on the way singles members out: %s) and the answers are "
                           "combined: a path that needs triples of several members is not found although triples() finds it" % (
                               "; ".join(norm(t) for t, _p, _v in conds) or "none"), node=site)
    if nsites < 5:
        raise AnalysisError("expected >= 5 per-member pattern evaluations in the Graph classes (ReadOnlyGraphAggregate.triples/__contains__/quads/triples_choices), found %d" % nsites)

    # ------------------------------------------------------------------ (p)
    # SPARQL is tokenised by longest match: where an optional element at the end of a path may begin like a longer token of what
    # follows the path (the object list), that token wins - with or without white space in front.
    rid = "C11.p-path-modifier-yields-to-longer-token"
    pm = repo.mod("rdflib.plugins.sparql.parser")
    env = _grammar_env(pm)
    rep.rule(
        rid,
        "every element that an optional part at the END of a path production of parser.py (Path*) can start with, and that begins with a character a token of "
        "the following object list (ObjectListPath) also begins with, is guarded AT ITS OWN POSITION by negative lookaheads (~T) for those tokens - in every "
        "arm of a choice, the one that refuses white space included.  SPARQL tokens are the longest match: in `?s :p?o` and `<urn:p>?1` the `?o` / `?1` is a "
        "variable (triple pattern with predicate :p), not the zero-or-one modifier followed by `o` / 1; unguarded, these are a syntax error or silently read "
        "as `:p? 1`",
        floor=2,
    )
    if "ObjectListPath" not in env:
        raise AnalysisError("parser.py: ObjectListPath (what follows a path in a triple pattern) not found")
    follow = _lead(env["ObjectListPath"], env)
    if "?" not in follow:
        raise AnalysisError("parser.py: cannot see that an object may start with '?' (leading literals of ObjectListPath: %s)" % sorted(follow))
    nel = 0
    for pname_, expr in sorted((k, v) for k, v in env.items() if k.startswith("Path")):
        for opt in _h.trailing_optionals(pm, expr):
            for x in (y for a in opt.args[:1] for y in _h.first_elements(a)):
                clash = sorted(_lead(x, env) & follow)
                if not clash:
                    continue
                looks = _h.guards_at(pm, x, expr)
                excluded = set().union(*[_lead(l, env) for l in looks]) if looks else set()
                for ch in clash:
                    nel += 1
                    ok = ch in excluded
                    rep.ob(rid, pm, "<path grammar> " + pname_, "%r at the start of %s" % (ch, norm(x)), ok,
                           "a lookahead at this position excludes the object tokens that start with %r (%s)" % (ch, ", ".join("~" + norm(l) for l in looks if ch in _lead(l, env))) if ok else
                           "%s may take %r although it is the first character of a longer token of the object list, and no negative lookahead at this position excludes "
                           "that token (lookaheads here: %s): the start of the object is swallowed as a path modifier (%s)" % (
                               norm(x), ch, ", ".join("~" + norm(l) for l in looks) or "none",
                               {"?": "`?s :p?o` is a syntax error, `<urn:p>?1` is read as `<urn:p>? 1`",
                                "+": "`?s <urn:p>+1` is read as the closure `<urn:p>+` with object 1, not as predicate <urn:p> with object +1"}.get(
                                   ch, "`<urn:p>%sx`, where `%sx` is one token" % (ch, ch))), node=x)
    if nel < 2:
        raise AnalysisError("expected the optional modifier at the end of PathElt to clash with the object list on '?' (and '+'), found %d clashing element(s)" % nel)
