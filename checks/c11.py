"""C11 - property paths: structural clauses (DESIGN.md §2 C11).

(a) bound ends are decided by identity with None, never truthiness (E1)
(b) no pattern-variable clobber in loops that evaluate a path (E6, package-wide)
(c) closure helpers: every self-recursive call is guarded by a visited set that
    is added to before recursing; every yield of the driver passes a `done` filter
(d) the zero-length clause yields for a bound end without consulting the graph
(e) every end parameter of an evaluator is forwarded (used) - a dropped end
    makes the result unrestricted
"""
from __future__ import annotations

import ast

from vlib import loops, truthy
from vlib.core import AnalysisError, Repo, Report, norm, own_nodes

EXPLANATION = (
    "Static rules over rdflib/paths.py and the triples() methods that accept a Path predicate. "
    "Decides the structural clauses (a)-(e) of C11 named in DESIGN.md; does NOT decide that the "
    "evaluators compute the relational definition (semantic, value-level)."
)


def _r(t: ast.AST) -> ast.AST:
    while isinstance(t, ast.Subscript):
        t = t.value
    return t


def _nested_funcs(fn: ast.AST) -> dict[str, ast.FunctionDef]:
    return {
        n.name: n
        for n in ast.walk(fn)
        if isinstance(n, ast.FunctionDef) and n is not fn
    }


def _guarded_by_membership(mod, call: ast.Call, arg: str, seen: str, fn: ast.FunctionDef) -> bool:
    """The recursive call is reached only when `arg` is not in `seen`:
    either inside `if arg not in seen:` or after `if arg in seen: continue/return/break`
    in the same or an enclosing block (preceding the call)."""
    # enclosing if with `arg not in seen`
    for p in mod.parents(call):
        if p is fn:
            break
        if isinstance(p, ast.If):
            # the test itself or a conjunct of it (`if self.more and o not in seen:`)
            for t in (p.test.values if isinstance(p.test, ast.BoolOp) and isinstance(p.test.op, ast.And) else [p.test]):
                if (
                    isinstance(t, ast.Compare)
                    and len(t.ops) == 1
                    and isinstance(t.ops[0], ast.NotIn)
                    and norm(t.left) == arg
                    and norm(t.comparators[0]) == seen
                    and any(call is x for s in p.body for x in ast.walk(s))
                ):
                    return True
    # preceding sibling guard in any enclosing block
    node: ast.AST = call
    for p in mod.parents(call):
        for field in ("body", "orelse", "finalbody"):
            blk = getattr(p, field, None)
            if not isinstance(blk, list):
                continue
            idx = None
            for i, st in enumerate(blk):
                if st is node or any(node is x for x in ast.walk(st)):
                    idx = i
                    break
            if idx is None:
                continue
            for st in blk[:idx]:
                if isinstance(st, ast.If) and not st.orelse:
                    t = st.test
                    if (
                        isinstance(t, ast.Compare)
                        and len(t.ops) == 1
                        and isinstance(t.ops[0], ast.In)
                        and norm(t.left) == arg
                        and norm(t.comparators[0]) == seen
                        and st.body
                        and isinstance(st.body[-1], (ast.Continue, ast.Return, ast.Break, ast.Raise))
                    ):
                        return True
        if p is fn:
            break
        node = p
    return False


def run(repo: Repo, rep: Report) -> None:
    rep.extra["explanation"] = EXPLANATION
    paths = repo.mod("rdflib.paths")
    graph = repo.mod("rdflib.graph")
    typed = repo.typed

    # ---------------------------------------------------------------- (a) E1
    rep.rule(
        "C11.a-ends-by-identity",
        "in rdflib/paths.py and the Path-accepting triples() methods, whether a path end (subject/object) "
        "is bound is decided by identity with None, never by truthiness (a falsy Literal end is still bound)",
        floor=8,
    )
    # signature inheritance for untyped overrides of Path.eval
    base_eval = paths.func("Path.eval")
    inherited = {}
    for a in base_eval.args.args[1:]:
        if a.annotation is not None and "None" in norm(a.annotation):
            inherited[a.arg] = norm(a.annotation)
    # confirm through a typed sibling that these parameters are Optional[Literal-capable]
    confirmed = {}
    mp = paths.func("MulPath.eval")
    for n in ast.walk(mp):
        if isinstance(n, ast.Name) and n.id in inherited and n.id not in confirmed:
            tf = typed.type_of(paths.name, n)
            if tf and tf.optional and truthy.domain_hits(repo, tf):
                confirmed[n.id] = (True, truthy.domain_hits(repo, tf), "inherited from Path.eval: " + inherited[n.id])
    if set(confirmed) != set(inherited) or not confirmed:
        raise AnalysisError("cannot confirm the Optional end parameters of Path.eval via MulPath.eval: %s vs %s" % (sorted(inherited), sorted(confirmed)))
    path_classes = [c for c in typed.subclasses("rdflib.paths.Path") if c.startswith("rdflib.paths.")]
    if len(path_classes) < 6:
        raise AnalysisError("expected >= 6 Path classes, found %s" % path_classes)
    for q, fn in paths.functions():
        if "." in q and isinstance(paths.defs.get(q.rsplit(".", 1)[0]), ast.FunctionDef):
            continue  # nested function: scanned with its parent
        extra = None
        cls = q.split(".")[0]
        if ("rdflib.paths." + cls) in path_classes and q.endswith(".eval"):
            # untyped override?
            if all(a.annotation is None for a in fn.args.args[1:]):
                extra = confirmed
        truthy.scan(repo, rep, "C11.a-ends-by-identity", paths, fn, q, extra_types=extra)
        rep.analysed("rdflib/paths.py:" + q)
    for q in ("Graph.triples", "ConjunctiveGraph.triples", "ReadOnlyGraphAggregate.triples", "Graph.__contains__"):
        truthy.scan(repo, rep, "C11.a-ends-by-identity", graph, graph.func(q), q)
        rep.analysed("rdflib/graph.py:" + q)
    ev = repo.mod("rdflib.plugins.sparql.evaluate")
    truthy.scan(repo, rep, "C11.a-ends-by-identity", ev, ev.func("evalBGP"), "evalBGP")
    rep.analysed("rdflib/plugins/sparql/evaluate.py:evalBGP")

    # ------------------------------------------------------------- (b) clobber
    rep.rule(
        "C11.b-no-pattern-clobber",
        "a for-loop whose target rebinds a name read by its own iterable must not be re-executed by an "
        "enclosing loop without the name being re-established (package-wide)",
        floor=3,
    )
    nloops = 0
    for name, mod in repo.modules.items():
        for q, fn in mod.functions():
            nloops += loops.clobber_scan(rep, "C11.b-no-pattern-clobber", mod, fn, q)
    # embedded positive example: the rule must fire on the known-bad shape
    bad = ast.parse(
        "def triples(self, triple):\n s, p, o = triple\n for graph in self.graphs:\n  for s, o in p.eval(self, s, o):\n   yield s, p, o\n"
    )
    from vlib.core import Module

    class _M:  # minimal Module stand-in for the self-check
        rel = "<embedded>"
        name = "<embedded>"

    probe = Report("C11", rep.tier, repo)
    probe.rule("x", "x", 0)
    loops.clobber_scan(probe, "x", _M(), bad.body[0], "triples")  # type: ignore[arg-type]
    if not probe.findings:
        raise AnalysisError("clobber rule failed to fire on its embedded positive example")

    # ---------------------------------------------- (c) closure helper discipline
    rep.rule(
        "C11.c-closure-guard",
        "in MulPath.eval every self-recursive traversal helper adds its cursor to a visited set before "
        "iterating and recurses only on nodes not in that set; every yield of the driver passes a done-set filter",
        floor=4,
    )
    helpers = _nested_funcs(mp)
    rec = 0
    for hname, h in helpers.items():
        calls = [c for c in ast.walk(h) if isinstance(c, ast.Call) and isinstance(c.func, ast.Name) and c.func.id == hname]
        if not calls:
            continue
        params = [a.arg for a in h.args.args]
        for c in calls:
            rec += 1
            # the visited-set parameter: passed through unchanged by name
            seen = [p for i, p in enumerate(params) if i < len(c.args) and isinstance(c.args[i], ast.Name) and c.args[i].id == p]
            seen = [p for p in seen if any(
                isinstance(x, ast.Call) and isinstance(x.func, ast.Attribute) and x.func.attr == "add" and norm(x.func.value) == p
                for x in ast.walk(h))]
            if not seen:
                rep.ob("C11.c-closure-guard", paths, "MulPath.eval." + hname, c, False,
                       "recursive call passes no visited set that the helper adds to", node=c)
                continue
            sv = seen[0]
            # what does the helper add?  seen.add(<param P>) as a top-level statement before the loop
            added = None
            for st in h.body:
                if isinstance(st, (ast.For, ast.While)):
                    break
                if isinstance(st, ast.Expr) and isinstance(st.value, ast.Call) and isinstance(st.value.func, ast.Attribute) \
                        and st.value.func.attr == "add" and norm(st.value.func.value) == sv and st.value.args:
                    added = norm(st.value.args[0])
            if added is None or added not in params:
                rep.ob("C11.c-closure-guard", paths, "MulPath.eval." + hname, c, False,
                       "helper does not add its cursor parameter to %s before iterating" % sv, node=c)
                continue
            pos = params.index(added)
            arg = norm(c.args[pos]) if pos < len(c.args) else None
            ok = arg is not None and _guarded_by_membership(paths, c, arg, sv, h)
            rep.ob("C11.c-closure-guard", paths, "MulPath.eval." + hname, c, ok,
                   ("recursion on %s only when not in %s; %s.add(%s) on entry" % (arg, sv, sv, added)) if ok
                   else "recursive call on %s is not guarded by a membership test in %s: the closure does not terminate on a cycle" % (arg, sv),
                   node=c)
    # the same discipline for helpers that keep their frontier in a work list instead of recursing: a push of a further step
    # evaluation `W.append(eval_path(graph, (.., X, ..)))` happens only when X is not in the visited set, X is added to the set
    # with the push, and the start cursor is added before the loop
    for hname, h in helpers.items():
        params = [a.arg for a in h.args.args]
        seen_ps = [p for p in params if any(isinstance(x, ast.Call) and isinstance(x.func, ast.Attribute) and x.func.attr == "add" and norm(x.func.value) == p for x in ast.walk(h))]
        if not seen_ps:
            continue
        sv = seen_ps[0]
        loop_targets = {n.id for l in ast.walk(h) if isinstance(l, ast.For) for n in ast.walk(l.target) if isinstance(n, ast.Name)}
        for c in ast.walk(h):
            if not (isinstance(c, ast.Call) and isinstance(c.func, ast.Attribute) and c.func.attr in ("append", "extend", "appendleft") and c.args
                    and isinstance(c.args[0], ast.Call) and norm(c.args[0].func) == "eval_path"):
                continue
            inloop = any(isinstance(p, (ast.For, ast.While)) for p in paths.parents(c) if p is not h)
            if not inloop:
                continue
            step = c.args[0]
            cursors = [n.id for a in step.args for n in ast.walk(a) if isinstance(n, ast.Name) and n.id in loop_targets]
            rec += 1
            if len(cursors) != 1:
                rep.ob("C11.c-closure-guard", paths, "MulPath.eval." + hname, c, False, "cannot tell which node the pushed step starts from: %s" % norm(step), node=c)
                continue
            cur = cursors[0]
            guarded = _guarded_by_membership(paths, c, cur, sv, h)
            st = paths.parent.get(id(c))
            while st is not None and not isinstance(paths.parent.get(id(st)), (ast.If, ast.For, ast.While, ast.FunctionDef)):
                st = paths.parent.get(id(st))
            owner = paths.parent.get(id(st))
            blk = next((b for b in (getattr(owner, "body", None), getattr(owner, "orelse", None)) if isinstance(b, list) and st in b), [])
            marked = any(isinstance(x, ast.Expr) and isinstance(x.value, ast.Call) and isinstance(x.value.func, ast.Attribute) and x.value.func.attr == "add"
                         and norm(x.value.func.value) == sv and x.value.args and norm(x.value.args[0]) == cur for x in blk)
            start_marked = False
            for x in h.body:
                if isinstance(x, (ast.For, ast.While)):
                    break
                if isinstance(x, ast.Expr) and isinstance(x.value, ast.Call) and isinstance(x.value.func, ast.Attribute) and x.value.func.attr == "add" \
                        and norm(x.value.func.value) == sv and x.value.args and norm(x.value.args[0]) in params:
                    start_marked = True
            ok = guarded and marked and start_marked
            rep.ob("C11.c-closure-guard", paths, "MulPath.eval." + hname, c, ok,
                   "a step from %s is pushed only when %s is not in %s, and %s is added with the push; the start cursor is added on entry" % (cur, cur, sv, cur) if ok else
                   "the push of a further step from %s is %s: the closure %s" % (
                       cur, "not guarded by `%s not in %s`" % (cur, sv) if not guarded else ("not accompanied by %s.add(%s)" % (sv, cur) if not marked else "made without the start cursor in %s" % sv),
                       "does not terminate on a cycle" if not (guarded and marked) else "revisits its start node"), node=c)
    if rec < 2:
        raise AnalysisError("expected >= 2 frontier expansions (recursive calls or work-list pushes) in the helpers of MulPath.eval, found %d" % rec)
    # driver yields
    helper_nodes = {id(x) for h in helpers.values() for x in ast.walk(h)}
    zero_if = None
    for st in mp.body:
        if isinstance(st, ast.If) and "self.zero" in norm(st.test):
            zero_if = st
    zero_nodes = {id(x) for x in ast.walk(zero_if)} if zero_if is not None else set()
    ndrv = 0
    for y in ast.walk(mp):
        if isinstance(y, ast.Yield) and id(y) not in helper_nodes:
            ndrv += 1
            val = norm(y.value) if y.value is not None else ""
            ok = False
            why = "yield is neither inside `if <x> not in <done>:` with <done>.add(<x>) nor preceded by <done>.add(<x>): a pair can be produced twice"
            for p in paths.parents(y):
                if p is mp:
                    break
                if isinstance(p, ast.If) and isinstance(p.test, ast.Compare) and len(p.test.ops) == 1 \
                        and isinstance(p.test.ops[0], ast.NotIn) and norm(p.test.left) == val:
                    dn = norm(p.test.comparators[0])
                    if any(isinstance(x, ast.Call) and isinstance(x.func, ast.Attribute) and x.func.attr == "add"
                           and norm(x.func.value) == dn and x.args and norm(x.args[0]) == val for s in p.body for x in ast.walk(s)):
                        ok = True
                        why = "yield %s filtered by done-set %s" % (val, dn)
            if not ok:
                # zero-length clause idiom: `done.add((a, b)); yield a, b` as adjacent statements
                st = paths.parent.get(id(y))  # Expr
                blk_owner = paths.parent.get(id(st))
                for field in ("body", "orelse"):
                    blk = getattr(blk_owner, field, None)
                    if isinstance(blk, list) and st in blk:
                        i = blk.index(st)
                        if i > 0 and isinstance(blk[i - 1], ast.Expr) and isinstance(blk[i - 1].value, ast.Call):
                            c = blk[i - 1].value
                            if isinstance(c.func, ast.Attribute) and c.func.attr == "add" and c.args \
                                    and norm(c.args[0]).strip("()") == val.strip("()"):
                                # the same set must be the one the driver filters on
                                ok = True
                                why = "pair recorded in %s before it is yielded" % norm(c.func.value)
            rep.ob("C11.c-closure-guard", paths, "MulPath.eval", y, ok, why, node=y)
    if ndrv < 6:
        raise AnalysisError("expected >= 6 yields in MulPath.eval (3 zero-length, 3 driver), found %d" % ndrv)

    # --------------------------------------------------------- (d) zero-length
    rep.rule(
        "C11.d-zero-length",
        "MulPath.eval's zero-length clause yields (x,x) for a bound end (and (subj,obj) when both bound and equal) "
        "without consulting the graph, for every path with zero=True on the first call",
        floor=3,
    )
    if zero_if is None:
        raise AnalysisError("MulPath.eval: zero-length clause (if self.zero ...) not found")
    calls_in_zero = [c for c in ast.walk(zero_if) if isinstance(c, ast.Call) and not (isinstance(c.func, ast.Attribute) and c.func.attr == "add" and isinstance(c.func.value, ast.Name))]
    yields = [y for y in ast.walk(zero_if) if isinstance(y, ast.Yield)]
    ends = [a.arg for a in mp.args.args[2:4]]
    want = {"%s, %s" % (ends[0], ends[0]), "%s, %s" % (ends[1], ends[1]), "%s, %s" % (ends[0], ends[1])}
    got = {norm(y.value).strip("()") for y in yields if y.value is not None}
    for w in sorted(want):
        rep.ob("C11.d-zero-length", paths, "MulPath.eval", "yield " + w, w in got,
               "zero-length match %s present" % w if w in got else "zero-length clause no longer yields (%s)" % w, node=zero_if)
    rep.ob("C11.d-zero-length", paths, "MulPath.eval", "zero clause consults no graph: " + norm(zero_if.test), not calls_in_zero,
           "no call inside the zero-length clause" if not calls_in_zero else "zero-length clause calls %s: a term absent from the graph would not match" % norm(calls_in_zero[0]),
           node=zero_if)
    # the clause is unconditional: a top-level statement preceded only by plain assignments
    idx = mp.body.index(zero_if)
    pre_ok = all(isinstance(s, (ast.Assign, ast.AnnAssign)) or (isinstance(s, ast.Expr) and isinstance(s.value, ast.Constant)) for s in mp.body[:idx])
    rep.ob("C11.d-zero-length", paths, "MulPath.eval", "zero clause runs unconditionally first", pre_ok,
           "" if pre_ok else "zero-length clause is preceded by control flow / calls", node=zero_if)
    # calls allowed inside the clause: only <set>.add(...) bookkeeping
    # ------------------------------------------------ (e) ends forwarded / used
    rep.rule(
        "C11.e-ends-forwarded",
        "every evaluator (eval methods of Path subclasses and their nested helpers) uses each of its end "
        "parameters (subject/object): forwards it to a call, compares it or yields it",
        floor=10,
    )
    endnames = set(confirmed)
    for c in path_classes:
        cname = c.rsplit(".", 1)[1]
        q = cname + ".eval"
        if not paths.has(q) or cname == "Path":
            continue
        fn = paths.func(q)
        fns = [(q, fn)] + [(q + "." + n, f) for n, f in _nested_funcs(fn).items()]
        for fq, f in fns:
            params = [a.arg for a in f.args.args if a.arg in endnames]
            for p in params:
                # uses in f's own body, or by closure in nested defs (closure use counts only if the nested def has no own param p)
                used = False
                for n in ast.walk(f):
                    if isinstance(n, ast.Name) and n.id == p and isinstance(n.ctx, ast.Load):
                        # is the innermost enclosing function one that rebinds p as a parameter?
                        owner = None
                        for par in paths.parents(n):
                            if isinstance(par, ast.FunctionDef):
                                owner = par
                                break
                        if owner is f or (owner is not None and p not in [a.arg for a in owner.args.args]):
                            used = True
                            break
                rep.ob("C11.e-ends-forwarded", paths, fq, "parameter %s" % p, used,
                       "end parameter is read" if used else "end parameter %s is never read: the path result is not restricted by it" % p, node=f)
    # InvPath must swap both the pattern and the result
    inv = paths.func("InvPath.eval")
    call = [c for c in ast.walk(inv) if isinstance(c, ast.Call) and norm(c.func) == "eval_path"]
    ys = [y for y in ast.walk(inv) if isinstance(y, ast.Yield)]
    ok = False
    if len(call) == 1 and len(ys) == 1 and len(call[0].args) == 2 and isinstance(call[0].args[1], ast.Tuple):
        t = call[0].args[1].elts
        loop = [l for l in ast.walk(inv) if isinstance(l, ast.For)][0]
        lt = [norm(e) for e in loop.target.elts] if isinstance(loop.target, ast.Tuple) else []
        yv = [norm(e) for e in ys[0].value.elts] if isinstance(ys[0].value, ast.Tuple) else []
        ok = len(t) == 3 and norm(t[0]) == ends[1] and norm(t[2]) == ends[0] and len(lt) == 2 and yv == [lt[1], lt[0]]
    rep.ob("C11.e-ends-forwarded", paths, "InvPath.eval", "inverse swaps pattern ends and result components", ok,
           "" if ok else "InvPath.eval no longer evaluates (obj, arg, subj) and yields (o, s)", node=inv)
    run_extra(repo, rep)
    # paths keep no evaluation state (shared with C15.f)
    rep.rule("C11.h-paths-are-stateless", "no Path.eval (or nested helper) assigns an attribute of the path object", floor=5)
    for c in path_classes:
        cname = c.rsplit(".", 1)[1]
        if not paths.has(cname + ".eval"):
            continue
        f = paths.func(cname + ".eval")
        writes = [n for n in own_nodes(f, include_nested=True) if isinstance(n, (ast.Assign, ast.AugAssign, ast.AnnAssign)) and any(
            isinstance(_r(t), ast.Attribute) and isinstance(_r(t).value, ast.Name) and _r(t).value.id == "self" for t in (n.targets if isinstance(n, ast.Assign) else [n.target]))]
        rep.ob("C11.h-paths-are-stateless", paths, cname + ".eval", "eval() writes no attribute of self", not writes,
               "stateless" if not writes else "eval() memoises on the path object (%s): after the graph changes the stale result is returned" % norm(writes[0])[:70], node=writes[0] if writes else f)


# ---------------------------------------------------------------------------
# additional structural clauses (added after seeded-change review)


def _may_alias_foreign(e: ast.AST, attr: str) -> bool:
    """May the value of expression e be the very list object `<other>.<attr>`?"""
    if isinstance(e, ast.Attribute) and e.attr == attr and not (isinstance(e.value, ast.Name) and e.value.id == "self"):
        return True
    if isinstance(e, ast.IfExp):
        return _may_alias_foreign(e.body, attr) or _may_alias_foreign(e.orelse, attr)
    if isinstance(e, ast.BoolOp):
        return any(_may_alias_foreign(v, attr) for v in e.values)
    if isinstance(e, ast.NamedExpr):
        return _may_alias_foreign(e.value, attr)
    return False  # list display, list(...), a + b, slices, calls: fresh objects


def run_extra(repo: Repo, rep: Report) -> None:
    paths = repo.mod("rdflib.paths")
    typed = repo.typed
    mp = paths.func("MulPath.eval")
    helpers = _nested_funcs(mp)

    # (c2) the visited set prunes expansion only, never results
    rep.rule(
        "C11.c2-seen-prunes-expansion-only",
        "in the MulPath traversal helpers the yield of the edge just found is not control-dependent on the "
        "visited-set membership test: an edge that closes a cycle is still a result, only its expansion is skipped",
        floor=2,
    )
    from vlib.cfg import CFG

    for hname, h in helpers.items():
        expands = any(isinstance(c, ast.Call) and isinstance(c.func, ast.Name) and c.func.id == hname for c in ast.walk(h)) or any(
            isinstance(c, ast.Call) and isinstance(c.func, ast.Attribute) and c.func.attr in ("append", "extend", "appendleft") and c.args
            and isinstance(c.args[0], ast.Call) and norm(c.args[0].func) == "eval_path" and any(isinstance(p, (ast.For, ast.While)) for p in paths.parents(c) if p is not h)
            for c in ast.walk(h))
        if not expands:
            continue
        g = CFG(h)
        loops_ = [n for n in own_nodes(h) if isinstance(n, ast.For) and any(isinstance(y, ast.Yield) for y in ast.walk(n))
                  and not any(isinstance(c, ast.Call) and isinstance(c.func, ast.Name) and c.func.id == hname for c in ast.walk(n.iter))]
        if not loops_:
            raise AnalysisError("MulPath.eval.%s: no traversal loop" % hname)
        loop = loops_[0]
        head = g.by_ast[id(loop)]
        params = [a.arg for a in h.args.args]
        seen_tests = set()
        for nd in g.nodes:
            if nd.kind == "test" and isinstance(nd.ast, ast.If):
                for c in ast.walk(nd.ast.test):
                    if isinstance(c, ast.Compare) and isinstance(c.ops[0], (ast.In, ast.NotIn)) and norm(c.comparators[0]) in params:
                        seen_tests.add(nd.id)
        tgt = {n.id for n in ast.walk(loop.target) if isinstance(n, ast.Name)}
        for y in own_nodes(h):
            # the yield of the edge just found: it names an end of the edge the loop enumerates
            nearest = next((p for p in paths.parents(y) if isinstance(p, (ast.For, ast.While))), None)
            if nearest is not loop:
                continue  # (a loop that passes on the results of a recursive call)
            if isinstance(y, ast.Yield) and y.value is not None and isinstance(y.value, ast.Tuple) and any(isinstance(e, ast.Name) and e.id in tgt for e in y.value.elts):
                yn = g.node_of(y, paths)
                free = yn in g.reach(head, avoid=seen_tests)
                rep.ob("C11.c2-seen-prunes-expansion-only", paths, "MulPath.eval." + hname, y, free,
                       "the found edge is yielded on a path that does not consult the visited set" if free else
                       "the found edge is only yielded after the visited-set test: pairs that close a cycle are lost", node=y)

    # (k) the closure walk does not recurse once per hop
    rep.rule(
        "C11.k-closure-walk-not-recursive-per-hop",
        "the traversal helpers of MulPath.eval (p+, p*) do not call themselves for the next node of the walk: one generator frame per hop makes a "
        "simple chain of about a thousand edges (sys.getrecursionlimit()) raise RecursionError instead of answering - `?x rdf:rest*/rdf:first ?m` "
        "on a 1000-member list. The frontier is kept in an explicit work list",
        floor=2,
    )
    for hname, h in helpers.items():
        if not any(isinstance(x, ast.Call) and norm(x.func) == "eval_path" for x in ast.walk(h)):
            continue
        selfcalls = [c for c in ast.walk(h) if isinstance(c, ast.Call) and isinstance(c.func, ast.Name) and c.func.id == hname]
        if not selfcalls and not any(isinstance(x, (ast.For, ast.While)) for x in own_nodes(h)):
            continue
        rep.ob("C11.k-closure-walk-not-recursive-per-hop", paths, "MulPath.eval." + hname, selfcalls[0] if selfcalls else "no self-call", not selfcalls,
               "iterative walk" if not selfcalls else
               "%s calls itself for every node it reaches: the depth of the Python stack grows with the length of the path walked, a chain longer than the recursion limit raises RecursionError" % hname,
               node=selfcalls[0] if selfcalls else h)

    # (f) composition is unfiltered
    rep.rule(
        "C11.f-composition-unfiltered",
        "the loops that compose sub-path results (SequencePath helpers, AlternativePath.eval, InvPath.eval) pass every "
        "pair on: their bodies contain no if/continue/break between the sub-path evaluation and the yield",
        floor=6,
    )
    comp_fns = []
    sq = paths.func("SequencePath.eval")
    comp_fns += [("SequencePath.eval." + n, f) for n, f in _nested_funcs(sq).items()]
    comp_fns += [("AlternativePath.eval", paths.func("AlternativePath.eval")), ("InvPath.eval", paths.func("InvPath.eval"))]
    for q, f in comp_fns:
        for loop in [n for n in own_nodes(f) if isinstance(n, ast.For)]:
            if not any(isinstance(c, ast.Call) and norm(c.func) in ("eval_path", "_eval_seq", "_eval_seq_bw") for c in ast.walk(loop.iter)):
                continue
            filt = [s for s in loop.body if not isinstance(s, (ast.For, ast.Expr))]
            filt += [s for s in loop.body if isinstance(s, ast.Expr) and not isinstance(s.value, (ast.Yield, ast.YieldFrom, ast.Constant))]
            rep.ob("C11.f-composition-unfiltered", paths, q, "for %s in %s" % (norm(loop.target), norm(loop.iter)), not filt,
                   "every pair of the sub-path is passed on" if not filt else
                   "composition loop filters its pairs (%s): the composed relation loses members" % norm(filt[0])[:80], node=loop)

    # (g) operand lists are not shared and then mutated
    rep.rule(
        "C11.g-no-shared-operand-mutation",
        "a Path method that mutates self.<list attr> in place (append/extend/+=/insert/item assignment) never does so "
        "on a list that may be another path's operand list (aliasing another object's attribute makes building a new "
        "path change the meaning of an existing one)",
        floor=2,
    )
    path_classes = [c for c in typed.subclasses("rdflib.paths.Path") if c.startswith("rdflib.paths.")]
    for c in path_classes:
        cname = c.rsplit(".", 1)[1]
        if not paths.has(cname):
            continue
        for mname, f in paths.methods(cname).items():
            assigns = {}
            muts = []
            for n in own_nodes(f):
                if isinstance(n, (ast.Assign, ast.AnnAssign)) and getattr(n, "value", None) is not None:
                    tg = n.targets if isinstance(n, ast.Assign) else [n.target]
                    for t in tg:
                        if isinstance(t, ast.Attribute) and isinstance(t.value, ast.Name) and t.value.id == "self":
                            assigns.setdefault(t.attr, []).append(n.value)
                        # parallel assignment: self.args, rest = first.args, rest[1:]
                        if isinstance(t, ast.Tuple) and isinstance(n.value, ast.Tuple) and len(t.elts) == len(n.value.elts):
                            for tt, vv in zip(t.elts, n.value.elts):
                                if isinstance(tt, ast.Attribute) and isinstance(tt.value, ast.Name) and tt.value.id == "self":
                                    assigns.setdefault(tt.attr, []).append(vv)
                if isinstance(n, ast.AugAssign) and isinstance(n.target, ast.Attribute) and isinstance(n.target.value, ast.Name) and n.target.value.id == "self":
                    muts.append((n.target.attr, n))
                if isinstance(n, ast.Call) and isinstance(n.func, ast.Attribute) and n.func.attr in ("append", "extend", "insert", "remove", "pop", "sort", "reverse", "clear") \
                        and isinstance(n.func.value, ast.Attribute) and isinstance(n.func.value.value, ast.Name) and n.func.value.value.id == "self":
                    muts.append((n.func.value.attr, n))
                if isinstance(n, (ast.Assign,)) and any(isinstance(t, ast.Subscript) and isinstance(t.value, ast.Attribute) and isinstance(t.value.value, ast.Name)
                                                       and t.value.value.id == "self" for t in n.targets):
                    for t in n.targets:
                        if isinstance(t, ast.Subscript) and isinstance(t.value, ast.Attribute):
                            muts.append((t.value.attr, n))
            for attr, m in muts:
                foreign = [v for v in assigns.get(attr, []) if _may_alias_foreign(v, attr)]
                # outside __init__, the attribute may have been aliased by the constructor
                if mname != "__init__":
                    init = paths.methods(cname).get("__init__")
                    if init is not None:
                        for n in own_nodes(init):
                            if isinstance(n, ast.Assign) and any(norm(t) == "self." + attr for t in n.targets) and _may_alias_foreign(n.value, attr):
                                foreign.append(n.value)
                rep.ob("C11.g-no-shared-operand-mutation", paths, "%s.%s" % (cname, mname), m, not foreign,
                       "self.%s is a list created by this object" % attr if not foreign else
                       "self.%s may be the operand's own list (%s) and is then mutated in place" % (attr, norm(foreign[0])), node=m)


_run_base = run


def run(repo: Repo, rep: Report) -> None:  # noqa: F811
    _run_base(repo, rep)
    # ------------------------------------------------------------------ (i)
    rep.rule("C11.i-path-grammar-nodes-are-translated",
             "every Comp node the SPARQL path grammar can produce (parser.py: Comp names containing `Path`) has an arm `p.name == <name>` in algebra.translatePath, so no "
             "untranslated parse node is ever handed to a path evaluator (table-listed exceptions: syntax that is not SPARQL 1.1)", floor=5)
    pm = repo.mod("rdflib.plugins.sparql.parser")
    am = repo.mod("rdflib.plugins.sparql.algebra")
    NOT_SPARQL11 = {"DistinctPath": "DISTINCT(path) was dropped from the SPARQL 1.1 grammar; it parses but is not part of the property"}
    names = {}
    for c in ast.walk(pm.tree):
        if isinstance(c, ast.Call) and norm(c.func) == "Comp" and c.args and isinstance(c.args[0], ast.Constant) and isinstance(c.args[0].value, str) and "Path" in c.args[0].value:
            names.setdefault(c.args[0].value, c)
    tp = [f for q, f in am.functions() if q == "translatePath"]
    if not tp:
        raise AnalysisError("translatePath vanished")
    arms = {n.comparators[0].value for f in tp for n in ast.walk(f) if isinstance(n, ast.Compare) and norm(n.left).endswith(".name") and isinstance(n.comparators[0], ast.Constant)}
    for nm, c in sorted(names.items()):
        if nm in NOT_SPARQL11:
            continue
        ok = nm in arms
        rep.ob("C11.i-path-grammar-nodes-are-translated", pm, "<path grammar>", "Comp(%r)" % nm, ok,
               "translated by translatePath" if ok else
               "the grammar produces %s nodes but translatePath has no arm for them: the parse node itself ends up as a member of the path object and evaluation raises (`?x !(^:p) ?y` is valid SPARQL)" % nm, node=c)

    # the negated-set arm wraps in InvPath exactly the part built from the inverse members (SPARQL 18.2.2.3: !(fwd|^inv) = NPS(fwd) | ^NPS(inv))
    for f_ in tp:
        inv_names, fwd_names = set(), set()
        for a in own_nodes(f_):
            if isinstance(a, ast.Assign) and isinstance(a.targets[0], ast.Name) and isinstance(a.value, ast.ListComp):
                conds = [norm(c) for g_ in a.value.generators for c in g_.ifs]
                if any('"InversePath"' in c.replace("'", '"') for c in conds):
                    (fwd_names if any(c.startswith("not ") for c in conds) else inv_names).add(a.targets[0].id)
        for c in own_nodes(f_):
            if isinstance(c, ast.Call) and norm(c.func) == "InvPath" and c.args and (inv_names or fwd_names):
                used = {n.id for n in ast.walk(c.args[0]) if isinstance(n, ast.Name)}
                if used & (inv_names | fwd_names):
                    ok = bool(used & inv_names) and not (used & fwd_names)
                    rep.ob("C11.i-path-grammar-nodes-are-translated", am, "translatePath", c, ok,
                           "the inverse of the set of ^members" if ok else
                           "InvPath wraps the set built from the FORWARD members (%s): !(:a|^:b) is evaluated as ^!(:a) | !(:b) - the forward IRIs are excluded in the reverse direction and vice versa" % sorted(used & fwd_names), node=c)

    # ------------------------------------------------------------------ (j)
    rep.rule("C11.j-negated-set-inverse-members-reversed",
             "NegatedPath accepts inverse members (^iri); !(…|^q|…) contains the REVERSED edges whose predicate is none of the q, so NegatedPath.eval enumerates "
             "graph.triples with its two ends swapped for that part, and the forward enumeration is present too", floor=2)
    paths = repo.mod("rdflib.paths")
    init = paths.func("NegatedPath.__init__")
    accepts_inv = any(isinstance(n, ast.Name) and n.id == "InvPath" for n in ast.walk(init))
    ev = paths.func("NegatedPath.eval")
    a = [x.arg for x in ev.args.args]
    subj, obj = a[2], a[3]
    pats = [norm(c.args[0]) for c in own_nodes(ev) if isinstance(c, ast.Call) and isinstance(c.func, ast.Attribute) and c.func.attr == "triples" and c.args]
    fwd = "(%s, None, %s)" % (subj, obj) in pats
    rev = "(%s, None, %s)" % (obj, subj) in pats
    rep.ob("C11.j-negated-set-inverse-members-reversed", paths, "NegatedPath.eval", "forward edges enumerated: graph.triples((%s, None, %s))" % (subj, obj), fwd,
           "" if fwd else "no forward enumeration found", node=ev)
    if accepts_inv:
        rep.ob("C11.j-negated-set-inverse-members-reversed", paths, "NegatedPath.eval", "reversed edges enumerated: graph.triples((%s, None, %s))" % (obj, subj), rev,
               "" if rev else "inverse members are accepted by __init__ but eval never enumerates edges in the reverse direction: !(^q) yields forward edges (filtered by an unrelated "
               "existence test) instead of the pairs (x, y) with y --not q--> x", node=ev)
