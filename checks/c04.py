"""C04 - graph pattern evaluation: structural clauses (DESIGN.md §2 C04)."""
from __future__ import annotations

import ast

from vlib import truthy
from vlib.cfg import CFG
from vlib.core import AnalysisError, Repo, Report, canon, norm, own_nodes

EXPLANATION = (
    "(a) multiplicity: in the evaluator modules a solution stream (result of evalPart/eval*/_join/_minus/...) is never "
    "converted to a set/frozenset/dict-keys except where the algebra is multiplicity-insensitive (right operand of "
    "MINUS, an existence test), and the operand that _join/_minus re-iterate for every left solution is a "
    "materialised sequence; (b) exhaustiveness: every algebra node the translator constructs and every query form of "
    "the grammar has an arm in evalPart, and every expression Comp of the grammar has an evaluation function; "
    "(c) error-as-false: every path of _ebv on which an expression error was caught returns False, and filter / "
    "optional conditions are consulted only through _ebv. The top-down vs bottom-up scoping equivalence is semantic "
    "and not decided."
)

STREAM_FUNCS_PREFIX = ("eval",)
STREAM_FUNCS = {"_join", "_minus", "_fillTemplate", "_yieldBindingsFromServiceCallResult"}
SET_CTORS = {"set", "frozenset"}
# multiplicity-insensitive places: (function, normalised statement) -> reason
SET_OK = {
    ("evalMinus", "b = set(evalPart(ctx, minus.p2))"):
        "right operand of MINUS: only the existence of a compatible, domain-sharing solution matters (_minus uses all(...) over it)",
}
NON_PART_NAMES = {
    "values": "payload of ToMultiSet, evaluated by evalValues via evalMultiset",
    "OrderCondition": "sort key descriptor inside OrderBy",
    "Aggregate_Sample": "aggregate descriptor inside AggregateJoin (implicit SAMPLE)",
}
QUERY_FORMS = ("SelectQuery", "AskQuery", "ConstructQuery", "DescribeQuery", "ServiceGraphPattern")


def _is_stream_call(e: ast.AST) -> bool:
    if isinstance(e, ast.Call) and isinstance(e.func, ast.Name):
        n = e.func.id
        return n in STREAM_FUNCS or (n.startswith(STREAM_FUNCS_PREFIX) and n not in ("eval",))
    return False


def run(repo: Repo, rep: Report) -> None:
    rep.extra["explanation"] = EXPLANATION
    ev = repo.mod("rdflib.plugins.sparql.evaluate")
    eu = repo.mod("rdflib.plugins.sparql.evalutils")
    alg = repo.mod("rdflib.plugins.sparql.algebra")
    par = repo.mod("rdflib.plugins.sparql.parser")
    agg = repo.mod("rdflib.plugins.sparql.aggregates")

    # ------------------------------------------------------------------ (a)
    rep.rule("C04.a-multiplicity-preserved",
             "a solution stream is materialised only by multiplicity-preserving constructors (list/sorted/islice/iteration); "
             "set()/frozenset()/set-comprehension/dict keys over a stream is allowed only at table-listed "
             "multiplicity-insensitive places", floor=3)
    rep.rule("C04.a2-reiterated-operand-materialised",
             "the operand that _join / _minus iterate once per left solution is a materialised sequence (list/tuple/set "
             "display or constructor), never a one-shot generator", floor=3)
    for mod in (ev, eu, agg):
        for q, f in mod.functions():
            if "." in q:
                continue
            rep.analysed("%s:%s" % (mod.rel, q))
            # names holding streams
            stream_names = set()
            for n in own_nodes(f):
                if isinstance(n, ast.Assign) and isinstance(n.targets[0], ast.Name) and _is_stream_call(n.value):
                    stream_names.add(n.targets[0].id)
            for n in own_nodes(f, include_nested=True):
                # materialisations of streams
                if isinstance(n, ast.Call) and isinstance(n.func, ast.Name) and n.func.id in (SET_CTORS | {"list", "tuple", "sorted", "dict"}) and n.args:
                    a = n.args[0]
                    is_stream = _is_stream_call(a) or (isinstance(a, ast.Name) and a.id in stream_names)
                    if not is_stream:
                        continue
                    st = n
                    for p in mod.parents(n):
                        if isinstance(p, ast.stmt):
                            st = p
                            break
                    if n.func.id in SET_CTORS or n.func.id == "dict":
                        why = {(x, canon(y)): r for (x, y), r in SET_OK.items()}.get((q, canon(st)))
                        # structural form of the table row: the set is bound to a name whose only use is as the
                        # re-iterated (second) operand of _minus(), which only asks `all(...)` over it
                        if why is None and isinstance(st, ast.Assign) and len(st.targets) == 1 and isinstance(st.targets[0], ast.Name) and st.value is n:
                            nm = st.targets[0].id
                            uses = [u for u in own_nodes(f, include_nested=True) if isinstance(u, ast.Name) and u.id == nm and isinstance(u.ctx, ast.Load)]
                            def _is_minus_operand(u):
                                par_ = mod.parent.get(id(u))
                                return isinstance(par_, ast.Call) and norm(par_.func) == "_minus" and len(par_.args) == 2 and par_.args[1] is u
                            if uses and all(_is_minus_operand(u) for u in uses):
                                why = "only used as the right operand of _minus(): an existence test (all(...) over it), multiplicity-insensitive"
                        rep.ob("C04.a-multiplicity-preserved", mod, q, st, why is not None,
                               "multiplicity-insensitive (table): " + why if why else
                               "%s(...) over a solution stream drops duplicate solutions: the multiset the algebra defines is not preserved" % n.func.id, node=n)
                    else:
                        rep.ob("C04.a-multiplicity-preserved", mod, q, st, True, "%s(...) keeps every solution" % n.func.id, node=n)
                if isinstance(n, (ast.SetComp, ast.DictComp)):
                    gens = n.generators
                    if any(_is_stream_call(g.iter) or (isinstance(g.iter, ast.Name) and g.iter.id in stream_names) for g in gens):
                        rep.ob("C04.a-multiplicity-preserved", mod, q, n, False, "set/dict comprehension over a solution stream drops duplicates", node=n)
                # re-iterated operands
                if isinstance(n, ast.Call) and isinstance(n.func, ast.Name) and n.func.id in ("_join", "_minus") and len(n.args) == 2:
                    b = n.args[1]
                    ok = False
                    why = ""
                    if isinstance(b, (ast.List, ast.Tuple, ast.Set)):
                        ok, why = True, "display"
                    elif isinstance(b, ast.Call) and isinstance(b.func, ast.Name) and b.func.id in ("list", "tuple", "set", "frozenset", "sorted"):
                        ok, why = True, b.func.id + "(...)"
                    elif isinstance(b, ast.Name):
                        vals = [x.value for x in own_nodes(f) if isinstance(x, ast.Assign) and any(isinstance(t, ast.Name) and t.id == b.id for t in x.targets)]
                        if vals and all(isinstance(v, (ast.List, ast.Tuple, ast.Set)) or (isinstance(v, ast.Call) and isinstance(v.func, ast.Name) and v.func.id in ("list", "tuple", "set", "frozenset", "sorted")) for v in vals):
                            ok, why = True, "%s = %s" % (b.id, norm(vals[0])[:40])
                        else:
                            why = "%s is not assigned from a materialising constructor (%s)" % (b.id, [norm(v)[:40] for v in vals])
                    else:
                        why = "unmodelled operand %s" % norm(b)[:40]
                    rep.ob("C04.a2-reiterated-operand-materialised", mod, q, n, ok,
                           "re-iterated operand is materialised: " + why if ok else
                           "the operand re-iterated for every left solution may be a one-shot generator (%s): after the first left solution it is exhausted and rows are lost" % why, node=n)
    # _join / _minus really re-iterate their second parameter inside the loop over the first
    for name in ("_join", "_minus"):
        f = eu.func(name)
        a, b = [x.arg for x in f.args.args[:2]]
        outer = [n for n in own_nodes(f) if isinstance(n, ast.For) and norm(n.iter) == a]
        ok = bool(outer) and any(isinstance(x, (ast.For, ast.GeneratorExp, ast.comprehension)) and b in norm(x.iter if not isinstance(x, ast.GeneratorExp) else x.generators[0].iter)
                                 for x in ast.walk(outer[0])) if outer else False
        rep.ob("C04.a2-reiterated-operand-materialised", eu, name, "for x in %s: ... over %s" % (a, b), ok,
               "nested iteration as assumed" if ok else "%s no longer iterates %s inside the loop over %s (rule premise changed)" % (name, b, a), node=f)

    # ------------------------------------------------------------------ (b)
    rep.rule("C04.b-every-node-has-an-evaluator",
             "every algebra node name constructed in algebra.py (except table-listed non-part names) and every query form "
             "of the grammar has an arm `part.name == <name>` in evalPart that calls an evaluator", floor=20)
    epf = ev.func("evalPart")
    arms = {}
    for n in ast.walk(epf):
        if isinstance(n, ast.If) and isinstance(n.test, ast.Compare) and norm(n.test.left).endswith(".name") and isinstance(n.test.ops[0], ast.Eq) \
                and isinstance(n.test.comparators[0], ast.Constant):
            calls = [c for s in n.body for c in ast.walk(s) if isinstance(c, ast.Call) and isinstance(c.func, ast.Name) and c.func.id.startswith("eval")]
            rets = [s for s in n.body if isinstance(s, ast.Return)]
            arms[n.test.comparators[0].value] = (calls[0].func.id if calls else None, bool(rets))
    built = set()
    for n in ast.walk(alg.tree):
        if isinstance(n, ast.Call) and isinstance(n.func, ast.Name) and n.func.id == "CompValue" and n.args and isinstance(n.args[0], ast.Constant):
            built.add(n.args[0].value)
    if len(built) < 15:
        raise AnalysisError("algebra.py: expected >= 15 CompValue node names, found %s" % sorted(built))
    gram = set()
    for n in ast.walk(par.tree):
        if isinstance(n, ast.Call) and isinstance(n.func, ast.Name) and n.func.id == "Comp" and n.args and isinstance(n.args[0], ast.Constant):
            gram.add(n.args[0].value)
    need = {b for b in built if b not in NON_PART_NAMES} | {qf for qf in QUERY_FORMS if qf in gram}
    for qf in QUERY_FORMS:
        if qf not in gram:
            raise AnalysisError("grammar no longer defines %s (table stale)" % qf)
    for nm in sorted(need):
        fn, ret = arms.get(nm, (None, False))
        ok = fn is not None and ret and ev.has(fn)
        rep.ob("C04.b-every-node-has-an-evaluator", ev, "evalPart", "arm for %s" % nm, ok,
               "-> %s" % fn if ok else "algebra node %s has no arm in evalPart that returns an evaluator's result: queries producing it raise / fall through" % nm, node=epf)
    rep.rule("C04.b2-every-expression-has-an-evalfn",
             "every expression Comp of the grammar (Builtin_*, *Expression, Unary*, Function) is given an evaluation "
             "function with setEvalFn (chained or through the name it is assigned to)", floor=50)
    parent = par.parent
    assigned_eval = set()
    for n in ast.walk(par.tree):
        if isinstance(n, ast.Call) and isinstance(n.func, ast.Attribute) and n.func.attr == "setEvalFn" and isinstance(n.func.value, ast.Name):
            assigned_eval.add(n.func.value.id)
    nexp = 0
    for n in ast.walk(par.tree):
        if isinstance(n, ast.Call) and isinstance(n.func, ast.Name) and n.func.id == "Comp" and n.args and isinstance(n.args[0], ast.Constant):
            nm = n.args[0].value
            if not (nm.startswith("Builtin_") or nm.endswith("Expression") or nm.startswith("Unary") or nm == "Function"):
                continue
            nexp += 1
            has = False
            p = parent.get(id(n))
            top = n
            while isinstance(p, (ast.Attribute, ast.Call)):
                if isinstance(p, ast.Attribute) and p.attr == "setEvalFn":
                    has = True
                top = p
                p = parent.get(id(p))
            if not has and isinstance(p, ast.Assign) and isinstance(p.targets[0], ast.Name) and p.targets[0].id in assigned_eval:
                has = True
            rep.ob("C04.b2-every-expression-has-an-evalfn", par, "<grammar>", "Comp(%r)" % nm, has,
                   "has an evaluation function" if has else "expression node %s has no evaluation function: _ebv raises `filter got a CompValue without evalfn`" % nm, node=n)

    # ------------------------------------------------------------------ (c)
    rep.rule("C04.c-filter-error-is-false",
             "in _ebv every handler of SPARQLError (and the bare handler around the variable lookup) returns False or falls "
             "through to code that returns False; evalFilter/evalLeftJoin consult their condition only through _ebv", floor=5)
    f = eu.func("_ebv")
    rep.analysed("rdflib/plugins/sparql/evalutils.py:_ebv")
    g = CFG(f)
    nh = 0
    for n in own_nodes(f):
        if isinstance(n, ast.ExceptHandler):
            nh += 1
            hn = None
            for nd in g.nodes:
                if nd.kind == "handler" and nd.ast is n:
                    hn = nd.id
            if hn is None:
                raise AnalysisError("_ebv: handler node not in CFG")
            # every Return reachable from the handler (before function exit) must be `return False`
            reach = g.reach(hn)
            bad = []
            for nid in reach:
                st = g.nodes[nid].ast
                if isinstance(st, ast.Return):
                    if not (isinstance(st.value, ast.Constant) and st.value.value is False):
                        # returns reached from the handler only via later independent tests are fine if they cannot be
                        # reached without re-evaluating; we require textual False or an EBV(...) of a *different* evaluation
                        if not (isinstance(st.value, ast.Call) and norm(st.value.func) == "EBV"):
                            bad.append(st)
                if isinstance(st, ast.Raise) and nid in g.succ[hn]:
                    bad.append(st)
            direct = [s for s in n.body if isinstance(s, ast.Return)]
            ok = not bad and (not direct or all(isinstance(s.value, ast.Constant) and s.value.value is False for s in direct))
            rep.ob("C04.c-filter-error-is-false", eu, "_ebv", "except %s: %s" % (norm(n.type) if n.type else "", norm(n.body[0])[:40]), ok,
                   "an error makes the filter false" if ok else "after an expression error _ebv can return something other than False (or re-raise): %s" % [norm(b)[:40] for b in bad + direct], node=n)
    if nh < 3:
        raise AnalysisError("_ebv: expected >= 3 exception handlers, found %d" % nh)
    last = f.body[-1]
    ok = isinstance(last, ast.Return) and isinstance(last.value, ast.Constant) and last.value.value is False
    rep.ob("C04.c-filter-error-is-false", eu, "_ebv", "final return False", ok, "" if ok else "_ebv no longer ends with `return False`", node=last)
    for q, attr in (("evalFilter", "expr"), ("evalLeftJoin", "expr")):
        fn = ev.func(q)
        uses = [n for n in ast.walk(fn) if isinstance(n, ast.Attribute) and n.attr == attr and isinstance(n.value, ast.Name)]
        if not uses:
            raise AnalysisError("%s: no use of .%s" % (q, attr))
        for u in uses:
            par_ = ev.parent.get(id(u))
            ok = isinstance(par_, ast.Call) and norm(par_.func) == "_ebv" and par_.args and par_.args[0] is u
            rep.ob("C04.c-filter-error-is-false", ev, q, "%s consulted through _ebv" % norm(u), ok,
                   "" if ok else "the condition %s is evaluated outside _ebv: an expression error would propagate instead of counting as false" % norm(u), node=u)
    run_more(repo, rep)
    construct_rule(repo, rep)


def run_more(repo: Repo, rep: Report) -> None:
    ev = repo.mod("rdflib.plugins.sparql.evaluate")
    eu = repo.mod("rdflib.plugins.sparql.evalutils")
    sp = repo.mod("rdflib.plugins.sparql.sparql")

    # (d) unbound / compatible by identity
    rep.rule("C04.d-unbound-by-identity",
             "in solution compatibility/merge, binding lookup and the evaluators, whether a variable is bound is decided by "
             "identity / key membership, never by the truthiness of the bound term (a variable bound to 0, empty string or false is bound)", floor=6)
    for cls in ("FrozenDict", "FrozenBindings", "Bindings", "QueryContext"):
        for m, f in sp.methods(cls).items():
            truthy.scan(repo, rep, "C04.d-unbound-by-identity", sp, f, "%s.%s" % (cls, m), exempt=EXEMPT_D, binding_maps=BMAPS)
            rep.analysed("rdflib/plugins/sparql/sparql.py:%s.%s" % (cls, m))
    for mod in (ev, eu):
        for q, f in mod.functions():
            if "." in q:
                continue
            truthy.scan(repo, rep, "C04.d-unbound-by-identity", mod, f, q, exempt=EXEMPT_D, binding_maps=BMAPS)

    # (e) GRAPH ?g enumerates every named graph
    rep.rule("C04.e-graph-var-enumerates-all-named-graphs",
             "in evalGraph the loop over the dataset's contexts skips only the default graph (a comparison with "
             "default_context / its identifier); no other condition filters the enumerated graphs", floor=1)
    f = ev.func("evalGraph")
    loops_ = [n for n in own_nodes(f) if isinstance(n, ast.For) and "contexts()" in norm(n.iter) or isinstance(n, ast.For) and ".graphs()" in norm(n.iter)]
    if not loops_:
        raise AnalysisError("evalGraph: loop over dataset contexts not found")
    lp = loops_[0]
    var = norm(lp.target)
    for n in ast.walk(lp):
        if isinstance(n, ast.If) and any(isinstance(x, (ast.Continue, ast.Break)) for x in n.body):
            t = n.test
            ok = isinstance(t, ast.Compare) and len(t.ops) == 1 and isinstance(t.ops[0], (ast.Eq, ast.Is)) and "default" in norm(t) and norm(t.left).split(".")[0] == var
            rep.ob("C04.e-graph-var-enumerates-all-named-graphs", ev, "evalGraph", n.test, ok,
                   "only the default graph is skipped" if ok else "graphs are skipped under `%s`: a named graph (e.g. an empty one) contributes no ?g solution although the pattern may match without triples" % norm(t)[:80], node=n)

    # (f) DISTINCT / REDUCED bookkeeping keys on the solution itself
    rep.rule("C04.f-distinct-keys-on-solution",
             "evalDistinct / evalReduced remember the solutions themselves: the value added to the seen-collection and the "
             "value tested for membership are the loop's solution variable, not a projection or hash of it", floor=2)
    for q in ("evalDistinct", "evalReduced"):
        f = ev.func(q)
        lp = [n for n in own_nodes(f) if isinstance(n, ast.For)]
        if not lp:
            raise AnalysisError("%s: no loop" % q)
        var = norm(lp[0].target)
        for n in ast.walk(lp[0]):
            if isinstance(n, ast.Call) and isinstance(n.func, ast.Attribute) and n.func.attr in ("add", "append", "insert") and n.args:
                a = n.args[-1]
                ok = norm(a) == var
                rep.ob("C04.f-distinct-keys-on-solution", ev, q, n, ok,
                       "remembers the solution itself" if ok else "remembers %s instead of the solution %s: distinct solutions with an equal %s are dropped" % (norm(a), var, norm(a)), node=n)
            if isinstance(n, ast.Compare) and isinstance(n.ops[0], (ast.In, ast.NotIn)):
                ok = norm(n.left) == var
                rep.ob("C04.f-distinct-keys-on-solution", ev, q, n, ok,
                       "membership tested on the solution itself" if ok else "membership tested on %s, not on the solution %s" % (norm(n.left), var), node=n)


BMAPS = ("rdflib.plugins.sparql.sparql.Bindings", "rdflib.plugins.sparql.sparql.FrozenDict", "rdflib.plugins.sparql.sparql.QueryContext")
def construct_rule(repo: Repo, rep: Report) -> None:
    ev = repo.mod("rdflib.plugins.sparql.evaluate")
    rep.rule("C04.g-construct-instantiates-every-solution",
             "evalConstructQuery fills the template once for every solution of the pattern (the loop over evalPart has no conditional skip): the "
             "template is instantiated over the solution multiset, and blank nodes in it are fresh per solution", floor=1)
    f = ev.func("evalConstructQuery")
    lps = [n for n in own_nodes(f) if isinstance(n, ast.For) and any(isinstance(c, ast.Call) and norm(c.func) == "evalPart" for c in ast.walk(n.iter))]
    if not lps:
        raise AnalysisError("evalConstructQuery: loop over evalPart not found")
    for lp in lps:
        skips = [n for s_ in lp.body for n in ast.walk(s_) if isinstance(n, (ast.Continue, ast.Break))]
        conds = [s_ for s_ in lp.body if isinstance(s_, ast.If)]
        fills = [c for s_ in lp.body for c in ast.walk(s_) if isinstance(c, ast.Call) and norm(c.func) == "_fillTemplate"]
        top_fill = any(any(c is x for x in ast.walk(s_)) for s_ in lp.body if not isinstance(s_, ast.If) for c in fills)
        ok = not skips and bool(fills) and top_fill
        rep.ob("C04.g-construct-instantiates-every-solution", ev, "evalConstructQuery", "for %s in %s" % (norm(lp.target), norm(lp.iter)), ok,
               "every solution instantiates the template" if ok else "solutions are skipped before the template is filled (%s): duplicate solutions no longer yield their own fresh blank nodes" % (norm(conds[0].test) if conds else "continue/break"), node=lp)


BMAPS_PLACEHOLDER = None
EXEMPT_D: dict = {
    ("Bindings.__getitem__", "self.outer"):
        "Bindings.__len__ counts the whole outer chain, so `not self.outer` is true only when no outer level holds any key: the lookup would raise KeyError either way",
    ("QueryContext.__init__", "bindings"):
        "`Bindings(d=bindings or [])`: an empty mapping and [] initialise the same empty dict",
}


_run_base = run


def run(repo: Repo, rep: Report) -> None:  # noqa: F811
    _run_base(repo, rep)
    ev = repo.mod("rdflib.plugins.sparql.evaluate")
    alg = repo.mod("rdflib.plugins.sparql.algebra")
    # ------------------------------------------------------------------ (h)
    rep.rule("C04.h-subquery-sees-only-projected-bindings",
             "evalMultiset (the evaluator of ToMultiSet, i.e. of a sub-SELECT placed in a group) hands the sub-query a context whose bindings are the outer solution restricted to "
             "the variables the sub-query projects (`….project(<Project>.PV)`): variables that are not projected are local to the sub-query, so a binding made outside for a variable "
             "of the same name must not constrain it (top-down binding push-down is an optimisation that is only sound for shared, i.e. projected, variables)", floor=1)
    em = ev.func("evalMultiset")
    calls = [c for c in own_nodes(em) if isinstance(c, ast.Call) and norm(c.func) == "evalPart"]
    if not calls:
        raise AnalysisError("evalMultiset: evalPart call not found")
    restricted = [a for a in own_nodes(em) if isinstance(a, ast.Assign) and isinstance(a.targets[0], ast.Name) and a.targets[0].id == em.args.args[0].arg
                  and any(isinstance(c, ast.Call) and isinstance(c.func, ast.Attribute) and c.func.attr == "project" and c.args and norm(c.args[0]).endswith(".PV") for c in ast.walk(a.value))]
    for c in calls:
        uses_ctx = c.args and norm(c.args[0]) == em.args.args[0].arg
        ok = bool(restricted) and uses_ctx and all(r.lineno < c.lineno for r in restricted)
        rep.ob("C04.h-subquery-sees-only-projected-bindings", ev, "evalMultiset", c, ok,
               "context restricted to the projected variables first" if ok else
               "the sub-query is evaluated under ALL outer bindings: in `?c :q ?c . { SELECT ?a WHERE { ?c :p ?a } }` the inner ?c (not projected, hence a different variable) is forced to equal the outer ?c and rows are lost", node=c)

    # ------------------------------------------------------------------ (i)
    rep.rule("C04.i-values-variables-are-in-scope-sets",
             "the translator's `_vars` annotation (`which variables may be bound by this part`, computed by _addVars) includes the variables of a VALUES block; its rows are plain "
             "dicts that the generic traversal does not descend into, so _addVars needs an arm for the `values` node. evalLeftJoin uses p1._vars to decide which bindings of the left "
             "solution to keep when it re-checks `no OPTIONAL match without outside bindings`; with an empty set a left row is dropped whenever the right side has any solution at all", floor=1)
    av = alg.func("_addVars")
    arm = [n for n in own_nodes(av) if isinstance(n, ast.Compare) and norm(n.left).endswith(".name") and isinstance(n.comparators[0], ast.Constant) and n.comparators[0].value == "values"]
    rep.ob("C04.i-values-variables-are-in-scope-sets", alg, "_addVars", "arm for the `values` node", bool(arm),
           "VALUES variables recorded" if arm else
           "no arm for `values`: ToMultiSet(values)._vars is empty, so `VALUES ?a { :y 0 } OPTIONAL { VALUES ?a { :x \"\" } }` returns no row at all (each left row must survive: nothing on the right is compatible with it)", node=av)


_run_base2 = run


def run(repo: Repo, rep: Report) -> None:  # noqa: F811
    _run_base2(repo, rep)
    op = repo.mod("rdflib.plugins.sparql.operators")
    # ------------------------------------------------------------------ (j)
    rep.rule("C04.j-logical-and-stops-at-the-first-false",
             "ConditionalAndExpression evaluates its operands lazily, left to right, and stops at the first false one (all() over a GENERATOR of EBV(x), or an explicit loop that "
             "returns on false): SPARQL's `false && error` is false, so an operand that raises must not be evaluated once an earlier operand is false. Collecting the EBVs into a list "
             "first evaluates every operand and turns `false && error` into an error (which `!( ... )` and BIND make visible)", floor=1)
    f = op.func("ConditionalAndExpression")
    alls = [c for c in own_nodes(f) if isinstance(c, ast.Call) and norm(c.func) == "all" and c.args]
    loops_ = [n for n in own_nodes(f) if isinstance(n, ast.For)]
    if not alls and not loops_:
        raise AnalysisError("ConditionalAndExpression: neither all(...) nor a loop over the operands found")
    for c in alls:
        a = c.args[0]
        lazy = isinstance(a, ast.GeneratorExp)
        rep.ob("C04.j-logical-and-stops-at-the-first-false", op, "ConditionalAndExpression", c, lazy,
               "generator: operands after the first false one are not evaluated" if lazy else
               "all() is applied to %s, which evaluates EBV of every operand before looking at any: `FILTER(!(?x = 1 && ?y > 5))` with ?y unbound errs (row dropped) where the algebra gives true for ?x != 1" % ("a list" if isinstance(a, (ast.ListComp, ast.Name, ast.List)) else norm(a)[:30]), node=c)
    for l in loops_:
        early = any(isinstance(r, ast.Return) for r in ast.walk(l))
        rep.ob("C04.j-logical-and-stops-at-the-first-false", op, "ConditionalAndExpression", "for %s in ...: return on false" % norm(l.target), early,
               "" if early else "the loop over the operands never returns early", node=l)


_run_base3 = run


def run(repo: Repo, rep: Report) -> None:  # noqa: F811
    _run_base3(repo, rep)
    from vlib import argswap

    rep.rule("C04.k-no-swapped-arguments-in-the-evaluator",
             "in rdflib/plugins/sparql a call that passes two local names which are also parameter names of the resolved callee passes each at its own parameter's position "
             "(ctx/part, a/b, p1/p2 ... have the same types, so the type checker cannot see an exchange)", floor=20)
    argswap.scan(repo, rep, "C04.k-no-swapped-arguments-in-the-evaluator", sorted(m for m in repo.modules if m.startswith("rdflib.plugins.sparql.")))


_run_base4 = run


def run(repo: Repo, rep: Report) -> None:  # noqa: F811
    _run_base4(repo, rep)
    op = repo.mod("rdflib.plugins.sparql.operators")
    # ------------------------------------------------------------------ (l)
    rep.rule("C04.l-regex-flags-are-passed-as-flags",
             "every call of re.sub / re.subn in the package passes at most three positional arguments and re.split at most two: the next positional parameter of these functions "
             "is `count` / `maxsplit`, not `flags` (a fact of the standard library). REPLACE(str, pattern, repl, \"i\") evaluated through re.sub(p, r, s, cFlag) runs case-sensitively "
             "and replaces at most cFlag occurrences", floor=5)
    for name, mod in sorted(repo.modules.items()):
        for c in ast.walk(mod.tree):
            if isinstance(c, ast.Call) and isinstance(c.func, ast.Attribute) and isinstance(c.func.value, ast.Name) and c.func.value.id == "re" and c.func.attr in ("sub", "subn", "split"):
                limit = 3 if c.func.attr in ("sub", "subn") else 2
                ok = len(c.args) <= limit
                rep.ob("C04.l-regex-flags-are-passed-as-flags", mod, mod.qual_of(c) or "<module>", c, ok,
                       "" if ok else "the %s positional argument of re.%s is `%s`: %s is used as a count and the flags stay 0" % (
                           "4th" if limit == 3 else "3rd", c.func.attr, "count" if limit == 3 else "maxsplit", norm(c.args[limit])), node=c)

    # ------------------------------------------------------------------ (m)
    rep.rule("C04.m-ill-typed-numbers-are-type-errors",
             "operators.numeric(), through which every arithmetic operator, numeric comparison and numeric built-in obtains its operands, raises SPARQLTypeError for a literal "
             "with a numeric datatype whose lexical form has no value (Literal.value is None, e.g. \"abc\"^^xsd:integer): Literal.toPython() hands such a literal back as itself, "
             "and arithmetic on it recurses until the interpreter gives up instead of producing a SPARQL error", floor=1)
    nf = op.func("numeric")
    rets = [r for r in own_nodes(nf) if isinstance(r, ast.Return) and r.value is not None and "toPython" in norm(r.value)]
    if not rets:
        raise AnalysisError("operators.numeric: `return expr.toPython()` not found")
    par = nf.args.args[0].arg
    for r in rets:
        guard = [n for n in own_nodes(nf) if isinstance(n, ast.If) and n.lineno < r.lineno and any(isinstance(x, ast.Raise) for x in n.body)
                 and any(isinstance(c, ast.Compare) and isinstance(c.ops[0], ast.Is) and norm(c.left) == "%s.value" % par for c in ast.walk(n.test)) or
                 (isinstance(n, ast.If) and n.lineno < r.lineno and any(isinstance(x, ast.Raise) for x in n.body) and "ill_typed" in norm(n.test))]
        rep.ob("C04.m-ill-typed-numbers-are-type-errors", op, "numeric", r, bool(guard),
               "a literal without a value is rejected first" if guard else
               "numeric() returns toPython() of an ill-typed literal, which is the Literal itself: `\"abc\"^^xsd:integer + 1` ends in RecursionError (the query raises), isNumeric() answers true", node=r)

    # ------------------------------------------------------------------ (n)
    rep.rule("C04.n-substr-positions-are-clamped",
             "Builtin_SUBSTR implements fn:substring: positions are 1-based and positions below 1 do not exist. A slice bound computed from the query's numbers is clamped "
             "(max(...)) before it is used: Python reads a negative bound as `from the end`, so SUBSTR(\"hello\", 0) would be \"o\"", floor=1)
    sf = op.func("Builtin_SUBSTR")
    slices = [n for n in own_nodes(sf) if isinstance(n, ast.Subscript) and isinstance(n.slice, ast.Slice)]
    if not slices:
        raise AnalysisError("Builtin_SUBSTR: slice not found")
    for sl in slices:
        bounds = [b for b in (sl.slice.lower, sl.slice.upper) if b is not None]
        bad = []
        for b in bounds:
            if isinstance(b, ast.Name):
                defs = [a.value for a in own_nodes(sf) if isinstance(a, ast.Assign) and isinstance(a.targets[0], ast.Name) and a.targets[0].id == b.id]
                clamped = all(isinstance(d, ast.Constant) and d.value is None or any(isinstance(c, ast.Call) and norm(c.func) == "max" for c in ast.walk(d)) for d in defs) and bool(defs)
            else:
                clamped = any(isinstance(c, ast.Call) and norm(c.func) == "max" for c in ast.walk(b))
            if not clamped:
                bad.append(norm(b))
        rep.ob("C04.n-substr-positions-are-clamped", op, "Builtin_SUBSTR", sl, not bad,
               "bounds clamped" if not bad else "slice bound(s) %s can be negative: SUBSTR(\"hello\", 0) reads the string from the end (\"o\" instead of \"hello\"), SUBSTR(\"hello\", 0, 3) is \"\" instead of \"he\"" % bad, node=sl)


_run_before_borrow = run


def run(repo: Repo, rep: Report) -> None:  # noqa: F811
    _run_before_borrow(repo, rep)
    from vlib.core import borrow

    borrow(repo, rep, "C04", "C15", ('C15.a',))
