"""C04 - graph pattern evaluation: structural clauses (DESIGN.md §2 C04)."""
from __future__ import annotations

import ast

from vlib import truthy
from vlib.cfg import CFG
from vlib.core import AnalysisError, Repo, Report, canon, norm, own_nodes

EXPLANATION = (
    "(a) multiplicity: in the evaluator modules a solution stream (result of evalPart/eval*/_join/_minus/...) is never "
    "converted to a set/frozenset/dict-keys except where the algebra is multiplicity-insensitive (right operand of "
    "MINUS, an existence test), and the operand that _join/_minus re-iterate for every left solution is a "
    "materialised sequence; (b) exhaustiveness: every algebra node the translator constructs and every query form of "
    "the grammar has an arm in evalPart, and every expression Comp of the grammar has an evaluation function; "
    "(c) error-as-false: every path of _ebv on which an expression error was caught returns False, and filter / "
    "optional conditions are consulted only through _ebv. The top-down vs bottom-up scoping equivalence is semantic "
    "and not decided."
)

STREAM_FUNCS_PREFIX = ("eval",)
STREAM_FUNCS = {"_join", "_minus", "_fillTemplate", "_yieldBindingsFromServiceCallResult"}
SET_CTORS = {"set", "frozenset"}
# multiplicity-insensitive places: (function, normalised statement) -> reason
SET_OK = {
    ("evalMinus", "b = set(evalPart(ctx, minus.p2))"):
        "right operand of MINUS: only the existence of a compatible, domain-sharing solution matters (_minus uses all(...) over it)",
}
NON_PART_NAMES = {
    "values": "payload of ToMultiSet, evaluated by evalValues via evalMultiset",
    "OrderCondition": "sort key descriptor inside OrderBy",
    "Aggregate_Sample": "aggregate descriptor inside AggregateJoin (implicit SAMPLE)",
}
QUERY_FORMS = ("SelectQuery", "AskQuery", "ConstructQuery", "DescribeQuery", "ServiceGraphPattern")


def _is_stream_call(e: ast.AST) -> bool:
    if isinstance(e, ast.Call) and isinstance(e.func, ast.Name):
        n = e.func.id
        return n in STREAM_FUNCS or (n.startswith(STREAM_FUNCS_PREFIX) and n not in ("eval",))
    return False


class _Only:
    """a Report seen through one rule: obligations of the other rules of a shared scan are dropped (the scan of rules a / a2
    is one walk; each rule is a layer of its own, so that a lost anchor of one does not take the other with it)"""

    def __init__(self, rep: Report, rid: str):
        self._rep, self._rid = rep, rid

    def ob(self, rule, *a, **k):
        return self._rep.ob(rule, *a, **k) if rule == self._rid else True

    def analysed(self, *names):
        self._rep.analysed(*names)


def rule_a(repo: Repo, rep: Report) -> None:
    # ------------------------------------------------------------------ (a)
    rep.rule("C04.a-multiplicity-preserved",
             "a solution stream is materialised only by multiplicity-preserving constructors (list/sorted/islice/iteration); "
             "set()/frozenset()/set-comprehension/dict keys over a stream is allowed only at table-listed "
             "multiplicity-insensitive places", floor=3)
    _scan_streams(repo, _Only(rep, "C04.a-multiplicity-preserved"))


def rule_a2(repo: Repo, rep: Report) -> None:
    rep.rule("C04.a2-reiterated-operand-materialised",
             "the operand that _join / _minus iterate once per left solution is a materialised collection - a display, a "
             "comprehension, or list/tuple/set/frozenset/sorted(...) - on every path to the call (reaching definitions of "
             "the local it is passed in), never a one-shot generator", floor=3)
    _scan_streams(repo, _Only(rep, "C04.a2-reiterated-operand-materialised"))
    eu = repo.mod("rdflib.plugins.sparql.evalutils")
    # _join / _minus really re-iterate their second parameter inside the loop over the first
    for name in ("_join", "_minus"):
        f = eu.func(name)
        a, b = [x.arg for x in f.args.args[:2]]
        outer = [n for n in own_nodes(f) if isinstance(n, ast.For) and norm(n.iter) == a]
        ok = bool(outer) and any(isinstance(x, (ast.For, ast.GeneratorExp, ast.comprehension)) and b in norm(x.iter if not isinstance(x, ast.GeneratorExp) else x.generators[0].iter)
                                 for x in ast.walk(outer[0])) if outer else False
        rep.ob("C04.a2-reiterated-operand-materialised", eu, name, "for x in %s: ... over %s" % (a, b), ok,
               "nested iteration as assumed" if ok else "%s no longer iterates %s inside the loop over %s (rule premise changed)" % (name, b, a), node=f)


def _scan_streams(repo: Repo, rep) -> None:
    from vlib import h_c04 as H

    ev = repo.mod("rdflib.plugins.sparql.evaluate")
    eu = repo.mod("rdflib.plugins.sparql.evalutils")
    agg = repo.mod("rdflib.plugins.sparql.aggregates")
    for mod in (ev, eu, agg):
        for q, f in mod.functions():
            if "." in q:
                continue
            rep.analysed("%s:%s" % (mod.rel, q))
            # names holding streams
            stream_names = set()
            for n in own_nodes(f):
                if isinstance(n, ast.Assign) and isinstance(n.targets[0], ast.Name) and _is_stream_call(n.value):
                    stream_names.add(n.targets[0].id)
            for n in own_nodes(f, include_nested=True):
                # materialisations of streams
                if isinstance(n, ast.Call) and isinstance(n.func, ast.Name) and n.func.id in (SET_CTORS | {"list", "tuple", "sorted", "dict"}) and n.args:
                    a = n.args[0]
                    is_stream = _is_stream_call(a) or (isinstance(a, ast.Name) and a.id in stream_names)
                    if not is_stream:
                        continue
                    st = n
                    for p in mod.parents(n):
                        if isinstance(p, ast.stmt):
                            st = p
                            break
                    if n.func.id in SET_CTORS or n.func.id == "dict":
                        why = {(x, canon(y)): r for (x, y), r in SET_OK.items()}.get((q, canon(st)))
                        # structural form of the table row: the set is bound to a name whose only use is as the
                        # re-iterated (second) operand of _minus(), which only asks `all(...)` over it
                        if why is None and isinstance(st, ast.Assign) and len(st.targets) == 1 and isinstance(st.targets[0], ast.Name) and st.value is n:
                            nm = st.targets[0].id
                            uses = [u for u in own_nodes(f, include_nested=True) if isinstance(u, ast.Name) and u.id == nm and isinstance(u.ctx, ast.Load)]
                            def _is_minus_operand(u):
                                par_ = mod.parent.get(id(u))
                                return isinstance(par_, ast.Call) and norm(par_.func) == "_minus" and len(par_.args) == 2 and par_.args[1] is u
                            if uses and all(_is_minus_operand(u) for u in uses):
                                why = "only used as the right operand of _minus(): an existence test (all(...) over it), multiplicity-insensitive"
                        rep.ob("C04.a-multiplicity-preserved", mod, q, st, why is not None,
                               "multiplicity-insensitive (table): " + why if why else
                               "%s(...) over a solution stream drops duplicate solutions: the multiset the algebra defines is not preserved" % n.func.id, node=n)
                    else:
                        rep.ob("C04.a-multiplicity-preserved", mod, q, st, True, "%s(...) keeps every solution" % n.func.id, node=n)
                if isinstance(n, (ast.SetComp, ast.DictComp)):
                    gens = n.generators
                    if any(_is_stream_call(g.iter) or (isinstance(g.iter, ast.Name) and g.iter.id in stream_names) for g in gens):
                        rep.ob("C04.a-multiplicity-preserved", mod, q, n, False, "set/dict comprehension over a solution stream drops duplicates", node=n)
                # re-iterated operands
                if isinstance(n, ast.Call) and isinstance(n.func, ast.Name) and n.func.id in ("_join", "_minus") and len(n.args) == 2:
                    b = n.args[1]
                    ok = False
                    why = H.materialised(b) or ""
                    if why:
                        ok = True
                    elif isinstance(b, ast.Name):
                        # value flow: every binding of the name that can be the last one before the call gives it a materialised collection
                        vals = H.values_reaching(mod, f, n, b.id)
                        if vals and all(H.materialised(v) for v in vals):
                            ok, why = True, "%s = %s" % (b.id, " | ".join(sorted({H.materialised(v) or "" for v in vals})))
                        else:
                            why = "%s is not assigned from a materialising constructor (%s)" % (b.id, [norm(v)[:40] if v is not None else "<parameter / loop target>" for v in vals or []])
                    else:
                        why = "unmodelled operand %s" % norm(b)[:40]
                    rep.ob("C04.a2-reiterated-operand-materialised", mod, q, n, ok,
                           "re-iterated operand is materialised: " + why if ok else
                           "the operand re-iterated for every left solution may be a one-shot generator (%s): after the first left solution it is exhausted and rows are lost" % why, node=n)


def rule_b(repo: Repo, rep: Report) -> None:
    from vlib import h_c04 as H

    ev = repo.mod("rdflib.plugins.sparql.evaluate")
    alg = repo.mod("rdflib.plugins.sparql.algebra")
    par = repo.mod("rdflib.plugins.sparql.parser")
    # ------------------------------------------------------------------ (b)
    rep.rule("C04.b-every-node-has-an-evaluator",
             "every algebra node name constructed in algebra.py (except table-listed non-part names) and every query form "
             "of the grammar has an arm `<part>.name == <name>` in evalPart that returns what an evaluator gives: the arm ends "
             "in a `return` of a call of a function of the evaluator module that is handed the context evalPart was called with", floor=20)
    epf = ev.func("evalPart")
    ep_params = H.params_of(epf)
    if not ep_params:
        raise AnalysisError("evalPart has no parameters")
    ctx_param = ep_params[0]

    def _evaluator_call(e: ast.AST):
        """the call, inside a returned expression, of a function defined in evaluate.py that receives evalPart's own context"""
        for c in ast.walk(e):
            if isinstance(c, ast.Call) and isinstance(c.func, ast.Name) and ev.has(c.func.id) and isinstance(ev.get(c.func.id), (ast.FunctionDef, ast.AsyncFunctionDef)) \
                    and any(isinstance(a, ast.Name) and a.id == ctx_param for a in list(c.args) + [k.value for k in c.keywords]):
                return c
        return None

    arms = {}
    for n in ast.walk(epf):
        if isinstance(n, ast.If) and isinstance(n.test, ast.Compare) and len(n.test.ops) == 1 and isinstance(n.test.ops[0], ast.Eq):
            l_, r_ = n.test.left, n.test.comparators[0]
            if isinstance(l_, ast.Constant) and not isinstance(r_, ast.Constant):
                l_, r_ = r_, l_
            if not (norm(l_).endswith(".name") and isinstance(r_, ast.Constant)):
                continue
            rets = [s for s in n.body if isinstance(s, ast.Return) and s.value is not None]
            calls = [c for c in (_evaluator_call(s.value) for s in rets) if c is not None]
            arms[r_.value] = (calls[0].func.id if calls else None, bool(rets))
    # the node names the translator can construct: every string the first argument of a `CompValue(...)` call can evaluate
    # to - written in the call, or reaching it through a local, a conditional expression, a row of a constant table that is
    # looked up or iterated with `for` (h_c04.str_values).  A name copied from the parse tree (`CompValue(q.name, ...)`) is a
    # query form of the grammar, which the table QUERY_FORMS covers.
    built = set()
    undecided = []
    for n in ast.walk(alg.tree):
        if isinstance(n, ast.Call) and isinstance(n.func, ast.Name) and n.func.id == "CompValue" and n.args:
            names = H.str_values(alg, n.args[0])
            if names is None:
                undecided.append("%s: %s" % (alg.loc(n), norm(n.args[0])[:40]))
            else:
                built |= names
    rep.info["C04.b_node_names_not_decided_statically"] = undecided
    if len(built) < 15:
        raise AnalysisError("algebra.py: expected >= 15 CompValue node names, found %s" % sorted(built))
    gram = set()
    for n in ast.walk(par.tree):
        if isinstance(n, ast.Call) and isinstance(n.func, ast.Name) and n.func.id == "Comp" and n.args and isinstance(n.args[0], ast.Constant):
            gram.add(n.args[0].value)
    need = {b for b in built if b not in NON_PART_NAMES} | {qf for qf in QUERY_FORMS if qf in gram}
    for qf in QUERY_FORMS:
        if qf not in gram:
            raise AnalysisError("grammar no longer defines %s (table stale)" % qf)
    for nm in sorted(need):
        fn, ret = arms.get(nm, (None, False))
        ok = fn is not None and ret and ev.has(fn)
        rep.ob("C04.b-every-node-has-an-evaluator", ev, "evalPart", "arm for %s" % nm, ok,
               "-> %s" % fn if ok else "algebra node %s has no arm in evalPart that returns an evaluator's result: queries producing it raise / fall through" % nm, node=epf)


def rule_b2(repo: Repo, rep: Report) -> None:
    par = repo.mod("rdflib.plugins.sparql.parser")
    rep.rule("C04.b2-every-expression-has-an-evalfn",
             "every expression Comp of the grammar (Builtin_*, *Expression, Unary*, Function) is given an evaluation "
             "function with setEvalFn (chained or through the name it is assigned to)", floor=50)
    parent = par.parent
    assigned_eval = set()
    for n in ast.walk(par.tree):
        if isinstance(n, ast.Call) and isinstance(n.func, ast.Attribute) and n.func.attr == "setEvalFn" and isinstance(n.func.value, ast.Name):
            assigned_eval.add(n.func.value.id)
    nexp = 0
    for n in ast.walk(par.tree):
        if isinstance(n, ast.Call) and isinstance(n.func, ast.Name) and n.func.id == "Comp" and n.args and isinstance(n.args[0], ast.Constant):
            nm = n.args[0].value
            if not (nm.startswith("Builtin_") or nm.endswith("Expression") or nm.startswith("Unary") or nm == "Function"):
                continue
            nexp += 1
            has = False
            p = parent.get(id(n))
            top = n
            while isinstance(p, (ast.Attribute, ast.Call)):
                if isinstance(p, ast.Attribute) and p.attr == "setEvalFn":
                    has = True
                top = p
                p = parent.get(id(p))
            if not has and isinstance(p, ast.Assign) and isinstance(p.targets[0], ast.Name) and p.targets[0].id in assigned_eval:
                has = True
            rep.ob("C04.b2-every-expression-has-an-evalfn", par, "<grammar>", "Comp(%r)" % nm, has,
                   "has an evaluation function" if has else "expression node %s has no evaluation function: _ebv raises `filter got a CompValue without evalfn`" % nm, node=n)



def rule_c(repo: Repo, rep: Report) -> None:
    from vlib import h_c04 as H

    ev = repo.mod("rdflib.plugins.sparql.evaluate")
    eu = repo.mod("rdflib.plugins.sparql.evalutils")
    # ------------------------------------------------------------------ (c)
    rep.rule("C04.c-filter-error-is-false",
             "in _ebv every handler of SPARQLError (and the bare handler around the variable lookup) returns False or falls "
             "through to code that returns False; every `return` of _ebv gives the constant False or EBV(...) of an evaluation that stands "
             "in a try whose handler catches the expression error (and the KeyError of a binding look-up), and no path falls off "
             "the end; evalFilter/evalLeftJoin consult their condition only through _ebv", floor=5)
    f = eu.func("_ebv")
    rep.analysed("rdflib/plugins/sparql/evalutils.py:_ebv")
    g = CFG(f)
    nh = 0
    for n in own_nodes(f):
        if isinstance(n, ast.ExceptHandler):
            nh += 1
            hn = None
            for nd in g.nodes:
                if nd.kind == "handler" and nd.ast is n:
                    hn = nd.id
            if hn is None:
                raise AnalysisError("_ebv: handler node not in CFG")
            # every Return reachable from the handler (before function exit) must be `return False`
            reach = g.reach(hn)
            bad = []
            for nid in reach:
                st = g.nodes[nid].ast
                if isinstance(st, ast.Return):
                    if not (isinstance(st.value, ast.Constant) and st.value.value is False):
                        # returns reached from the handler only via later independent tests are fine if they cannot be
                        # reached without re-evaluating; we require textual False or an EBV(...) of a *different* evaluation
                        if not (isinstance(st.value, ast.Call) and norm(st.value.func) == "EBV"):
                            bad.append(st)
                if isinstance(st, ast.Raise) and nid in g.succ[hn]:
                    bad.append(st)
            direct = [s for s in n.body if isinstance(s, ast.Return)]
            ok = not bad and (not direct or all(isinstance(s.value, ast.Constant) and s.value.value is False for s in direct))
            rep.ob("C04.c-filter-error-is-false", eu, "_ebv", "except %s: %s" % (norm(n.type) if n.type else "", norm(n.body[0])[:40]), ok,
                   "an error makes the filter false" if ok else "after an expression error _ebv can return something other than False (or re-raise): %s" % [norm(b)[:40] for b in bad + direct], node=n)
    if nh < 3:
        raise AnalysisError("_ebv: expected >= 3 exception handlers, found %d" % nh)
    # what _ebv answers when no evaluation applies (or after the first one erred) is False: every way out of the function
    # is `return False` or the EBV of an evaluation whose error a handler turns into False; nothing falls off the end
    ERR = {"SPARQLError", "Exception", "BaseException"}
    LOOKUP_ERR = {"KeyError", "LookupError", "Exception", "BaseException"}
    rets = [n for n in own_nodes(f) if isinstance(n, ast.Return)]
    for r in rets:
        # what the return can hand out: the returned expression, or - for a local - the values that reach it
        outcomes = [r.value]
        if isinstance(r.value, ast.Name):
            outcomes = H.values_reaching(eu, f, r, r.value.id) or [None]
        ok, why = True, ""
        for v in outcomes:
            if isinstance(v, ast.Constant) and v.value is False:
                why = why or "the constant False"
            elif isinstance(v, ast.Call) and norm(v.func) == "EBV":
                # the handlers that an error raised while EBV(...) is evaluated can reach
                handlers = [h for t in H.try_bodies_around(eu, f, v) for h in t.handlers]
                caught = any(H.handler_catches(h, ERR) for h in handlers)
                looks_up = any(isinstance(x, ast.Subscript) for x in ast.walk(v))
                caught_lookup = not looks_up or any(H.handler_catches(h, LOOKUP_ERR) for h in handlers)
                if caught and caught_lookup:
                    why = "an evaluation under a handler of the expression error"
                else:
                    ok, why = False, "`%s` is not inside a try that catches %s: the error of the expression leaves _ebv instead of counting as false" % (
                        norm(v)[:40], "SPARQLError" if not caught else "the KeyError of the binding look-up (an unbound variable)")
                    break
            else:
                ok, why = False, "_ebv returns `%s`, which is neither False nor the effective boolean value of an evaluation: what no case applies to is no longer false" % (
                    norm(v)[:40] if v is not None else norm(r.value)[:40] if r.value is not None else "None")
                break
        rep.ob("C04.c-filter-error-is-false", eu, "_ebv", r, ok, why, node=r)
    # (not `must_pass_before`: the handler after `try: return EBV(..)` is entered from the return statement itself)
    ret_nodes = {g.node_of(r) for r in rets}
    live = g.reach(g.entry, include_src=True)
    falls_off = any(p in live and p not in ret_nodes for p in g.pred[g.exit])
    rep.ob("C04.c-filter-error-is-false", eu, "_ebv", "every path ends in a return (the default is `return False`)", not falls_off,
           "" if not falls_off else "_ebv no longer ends with `return False`: a path falls off the end of the function and answers None", node=f.body[-1])
    for q, attr in (("evalFilter", "expr"), ("evalLeftJoin", "expr")):
        fn = ev.func(q)
        uses = [n for n in ast.walk(fn) if isinstance(n, ast.Attribute) and n.attr == attr and isinstance(n.value, ast.Name)]
        if not uses:
            raise AnalysisError("%s: no use of .%s" % (q, attr))
        for u in uses:
            par_ = ev.parent.get(id(u))
            ok = isinstance(par_, ast.Call) and norm(par_.func) == "_ebv" and par_.args and par_.args[0] is u
            rep.ob("C04.c-filter-error-is-false", ev, q, "%s consulted through _ebv" % norm(u), ok,
                   "" if ok else "the condition %s is evaluated outside _ebv: an expression error would propagate instead of counting as false" % norm(u), node=u)


def rule_d(repo: Repo, rep: Report) -> None:
    ev = repo.mod("rdflib.plugins.sparql.evaluate")
    eu = repo.mod("rdflib.plugins.sparql.evalutils")
    sp = repo.mod("rdflib.plugins.sparql.sparql")

    # (d) unbound / compatible by identity
    rep.rule("C04.d-unbound-by-identity",
             "in solution compatibility/merge, binding lookup and the evaluators, whether a variable is bound is decided by "
             "identity / key membership, never by the truthiness of the bound term (a variable bound to 0, empty string or false is bound)", floor=6)
    for cls in ("FrozenDict", "FrozenBindings", "Bindings", "QueryContext"):
        for m, f in sp.methods(cls).items():
            truthy.scan(repo, rep, "C04.d-unbound-by-identity", sp, f, "%s.%s" % (cls, m), exempt=EXEMPT_D, binding_maps=BMAPS)
            rep.analysed("rdflib/plugins/sparql/sparql.py:%s.%s" % (cls, m))
    for mod in (ev, eu):
        for q, f in mod.functions():
            if "." in q:
                continue
            truthy.scan(repo, rep, "C04.d-unbound-by-identity", mod, f, q, exempt=EXEMPT_D, binding_maps=BMAPS)



def rule_e(repo: Repo, rep: Report) -> None:
    ev = repo.mod("rdflib.plugins.sparql.evaluate")
    # (e) GRAPH ?g enumerates every named graph
    rep.rule("C04.e-graph-var-enumerates-all-named-graphs",
             "in evalGraph the loop over the dataset's contexts skips only the default graph (a comparison with "
             "default_context / its identifier); no other condition filters the enumerated graphs", floor=1)
    f = ev.func("evalGraph")
    loops_ = [n for n in own_nodes(f) if isinstance(n, ast.For) and "contexts()" in norm(n.iter) or isinstance(n, ast.For) and ".graphs()" in norm(n.iter)]
    if not loops_:
        raise AnalysisError("evalGraph: loop over dataset contexts not found")
    lp = loops_[0]
    var = norm(lp.target)
    for n in ast.walk(lp):
        if isinstance(n, ast.If) and any(isinstance(x, (ast.Continue, ast.Break)) for x in n.body):
            t = n.test
            ok = isinstance(t, ast.Compare) and len(t.ops) == 1 and isinstance(t.ops[0], (ast.Eq, ast.Is)) and "default" in norm(t) and norm(t.left).split(".")[0] == var
            rep.ob("C04.e-graph-var-enumerates-all-named-graphs", ev, "evalGraph", n.test, ok,
                   "only the default graph is skipped" if ok else "graphs are skipped under `%s`: a named graph (e.g. an empty one) contributes no ?g solution although the pattern may match without triples" % norm(t)[:80], node=n)



def rule_f(repo: Repo, rep: Report) -> None:
    ev = repo.mod("rdflib.plugins.sparql.evaluate")
    # (f) DISTINCT / REDUCED bookkeeping keys on the solution itself
    rep.rule("C04.f-distinct-keys-on-solution",
             "evalDistinct / evalReduced remember the solutions themselves: the value added to the seen-collection and the "
             "value tested for membership are the loop's solution variable, not a projection or hash of it", floor=2)
    for q in ("evalDistinct", "evalReduced"):
        f = ev.func(q)
        lp = [n for n in own_nodes(f) if isinstance(n, ast.For)]
        if not lp:
            raise AnalysisError("%s: no loop" % q)
        var = norm(lp[0].target)
        for n in ast.walk(lp[0]):
            if isinstance(n, ast.Call) and isinstance(n.func, ast.Attribute) and n.func.attr in ("add", "append", "insert") and n.args:
                a = n.args[-1]
                ok = norm(a) == var
                rep.ob("C04.f-distinct-keys-on-solution", ev, q, n, ok,
                       "remembers the solution itself" if ok else "remembers %s instead of the solution %s: distinct solutions with an equal %s are dropped" % (norm(a), var, norm(a)), node=n)
            if isinstance(n, ast.Compare) and isinstance(n.ops[0], (ast.In, ast.NotIn)):
                ok = norm(n.left) == var
                rep.ob("C04.f-distinct-keys-on-solution", ev, q, n, ok,
                       "membership tested on the solution itself" if ok else "membership tested on %s, not on the solution %s" % (norm(n.left), var), node=n)


BMAPS = ("rdflib.plugins.sparql.sparql.Bindings", "rdflib.plugins.sparql.sparql.FrozenDict", "rdflib.plugins.sparql.sparql.QueryContext")
def construct_rule(repo: Repo, rep: Report) -> None:
    from vlib import h_c04 as H

    ev = repo.mod("rdflib.plugins.sparql.evaluate")
    rep.rule("C04.g-construct-instantiates-every-solution",
             "evalConstructQuery instantiates the template once for every solution of the pattern: wherever it goes through the solutions evalPart gives (a for "
             "statement, a clause of a comprehension / generator expression, map) a call that receives both the query's template and the solution of the round is "
             "made in every round - no continue / break / return in the loop body, no `if` on the clause, the call not under a condition - and a lazy form "
             "(generator expression, map) is run to its end (`<graph> += ...`, list(...), a for statement without break; through chain / chain.from_iterable). "
             "The template is instantiated over the solution multiset, and blank nodes in it are fresh per solution", floor=1)
    f = ev.func("evalConstructQuery")
    params = H.params_of(f)
    if len(params) < 2:
        raise AnalysisError("evalConstructQuery: expected (context, query) parameters")

    def _from_template(e: ast.AST) -> bool:
        """the value is computed from the template of the query (`<query>.template`, through locals)"""
        return any(isinstance(x, ast.Attribute) and x.attr == "template" for x in H.closure_nodes(f, e, depth=3))

    def _under_condition(call: ast.AST, top: ast.AST) -> bool:
        """between `top` (code run once per round) and `call` stands something that evaluates its operand only sometimes"""
        child = call
        for p_ in ev.parents(call):
            if isinstance(p_, ast.IfExp) and child is not p_.test:
                return True
            if isinstance(p_, ast.BoolOp) and child is not p_.values[0]:
                return True
            if isinstance(p_, ast.If) and child is not p_.test:
                return True
            if isinstance(p_, (ast.While, ast.ExceptHandler, ast.Lambda, ast.FunctionDef)):
                return True
            if isinstance(p_, ast.Try) and any(child is s_ for s_ in p_.orelse):
                return True
            if isinstance(p_, (ast.ListComp, ast.SetComp, ast.DictComp, ast.GeneratorExp)) and p_ is not top and any(g_.ifs for g_ in p_.generators):
                return True
            if p_ is top:
                break
            child = p_
        return False

    sites = [s_ for s_ in H.iter_sites(f)
             if any(isinstance(c, ast.Call) and norm(c.func).split(".")[-1] == "evalPart" for c in H.closure_nodes(f, s_.iter, depth=2))]
    if not sites:
        raise AnalysisError("evalConstructQuery: loop over evalPart not found")
    for site in sites:
        what = "for %s in %s" % (norm(site.target), norm(site.iter)) if site.target is not None else norm(site.owner)[:80]
        skips = site.skips()
        fills = []
        if site.kind == "map":
            # map(g, solutions): g is applied to every solution; g must be (a partial application of / a lambda around) a call that has the template
            fn_arg = site.owner.args[0]
            for x in H.closure_nodes(f, fn_arg, depth=2):
                if isinstance(x, ast.Call) and any(_from_template(a) for a in list(x.args) + [k.value for k in x.keywords]):
                    fills.append(x)
        else:
            tv = {x.id for x in ast.walk(site.target) if isinstance(x, ast.Name)}
            for top in site.per_round():
                for c in ast.walk(top):
                    if not isinstance(c, ast.Call):
                        continue
                    args = list(c.args) + [k.value for k in c.keywords]
                    has_tpl = any(_from_template(a) for a in args)
                    has_sol = any(isinstance(x, ast.Name) and x.id in tv for a in args for x in H.closure_nodes(f, a, depth=2))
                    if has_tpl and has_sol and not _under_condition(c, top if site.kind == "for" else site.owner):
                        fills.append(c)
        consumed = "built where it stands"
        if site.lazy:
            consumed = H.consumed_fully(ev, f, site.owner)
            if consumed is None and not skips and fills:
                raise AnalysisError("evalConstructQuery: what becomes of the lazy `%s` is not modelled (is it run to its end?)" % norm(site.owner)[:80])
        ok = not skips and bool(fills)
        conds = [s_ for s_ in skips if not isinstance(s_, (ast.Continue, ast.Break, ast.Return))]
        if site.kind == "for":
            conds = [s_.test for s_ in site.node.body if isinstance(s_, ast.If)]
        rep.ob("C04.g-construct-instantiates-every-solution", ev, "evalConstructQuery", what, ok,
               "every solution instantiates the template (%s)" % consumed if ok else
               "solutions are skipped before the template is filled (%s): duplicate solutions no longer yield their own fresh blank nodes" % (
                   norm(conds[0]) if conds else "continue/break" if skips else "no unconditional call with the template and the solution in the round"), node=site.owner)


BMAPS_PLACEHOLDER = None
EXEMPT_D: dict = {
    ("Bindings.__getitem__", "self.outer"):
        "Bindings.__len__ counts the whole outer chain, so `not self.outer` is true only when no outer level holds any key: the lookup would raise KeyError either way",
    ("QueryContext.__init__", "bindings"):
        "`Bindings(d=bindings or [])`: an empty mapping and [] initialise the same empty dict",
}


from vlib.core import layer as _layer  # noqa: E402


def _run_base(repo: Repo, rep: Report) -> None:
    """the first nine rules, one layer each (DESIGN §14.2): a rule that loses its anchor on the tree or on one view is judged
    on the other views by itself"""
    rep.extra["explanation"] = EXPLANATION
    for f in (rule_a, rule_a2, rule_b, rule_b2, rule_c, rule_d, rule_e, rule_f, construct_rule):
        _layer(rep, f, repo)


def run(repo: Repo, rep: Report) -> None:  # noqa: F811
    _layer(rep, _run_base, repo)
    ev = repo.mod("rdflib.plugins.sparql.evaluate")
    alg = repo.mod("rdflib.plugins.sparql.algebra")
    def _rule_h(repo: Repo, rep: Report) -> None:
        # ------------------------------------------------------------------ (h)
        rep.rule("C04.h-subquery-sees-only-projected-bindings",
                 "evalMultiset (the evaluator of ToMultiSet, i.e. of a sub-SELECT placed in a group) hands the sub-query a context whose bindings are the outer solution restricted to "
                 "the variables the sub-query projects (`….project(<Project>.PV)`): variables that are not projected are local to the sub-query, so a binding made outside for a variable "
                 "of the same name must not constrain it (top-down binding push-down is an optimisation that is only sound for shared, i.e. projected, variables)", floor=1)
        em = ev.func("evalMultiset")
        calls = [c for c in own_nodes(em) if isinstance(c, ast.Call) and norm(c.func) == "evalPart"]
        if not calls:
            raise AnalysisError("evalMultiset: evalPart call not found")
        restricted = [a for a in own_nodes(em) if isinstance(a, ast.Assign) and isinstance(a.targets[0], ast.Name) and a.targets[0].id == em.args.args[0].arg
                      and any(isinstance(c, ast.Call) and isinstance(c.func, ast.Attribute) and c.func.attr == "project" and c.args and norm(c.args[0]).endswith(".PV") for c in ast.walk(a.value))]
        for c in calls:
            uses_ctx = c.args and norm(c.args[0]) == em.args.args[0].arg
            ok = bool(restricted) and uses_ctx and all(r.lineno < c.lineno for r in restricted)
            rep.ob("C04.h-subquery-sees-only-projected-bindings", ev, "evalMultiset", c, ok,
                   "context restricted to the projected variables first" if ok else
                   "the sub-query is evaluated under ALL outer bindings: in `?c :q ?c . { SELECT ?a WHERE { ?c :p ?a } }` the inner ?c (not projected, hence a different variable) is forced to equal the outer ?c and rows are lost", node=c)

    def _rule_i(repo: Repo, rep: Report) -> None:
        # ------------------------------------------------------------------ (i)
        rep.rule("C04.i-values-variables-are-in-scope-sets",
                 "the translator's `_vars` annotation (`which variables may be bound by this part`, computed by _addVars) includes the variables of a VALUES block; its rows are plain "
                 "dicts that the generic traversal does not descend into, so _addVars needs an arm for the `values` node. evalLeftJoin uses p1._vars to decide which bindings of the left "
                 "solution to keep when it re-checks `no OPTIONAL match without outside bindings`; with an empty set a left row is dropped whenever the right side has any solution at all", floor=1)
        av = alg.func("_addVars")
        arm = [n for n in own_nodes(av) if isinstance(n, ast.Compare) and norm(n.left).endswith(".name") and isinstance(n.comparators[0], ast.Constant) and n.comparators[0].value == "values"]
        rep.ob("C04.i-values-variables-are-in-scope-sets", alg, "_addVars", "arm for the `values` node", bool(arm),
               "VALUES variables recorded" if arm else
               "no arm for `values`: ToMultiSet(values)._vars is empty, so `VALUES ?a { :y 0 } OPTIONAL { VALUES ?a { :x \"\" } }` returns no row at all (each left row must survive: nothing on the right is compatible with it)", node=av)

    # one rule, one layer (DESIGN §14.2): a rule that loses its anchor on the tree or on one view does not take its neighbours with it
    for f_ in (_rule_h, _rule_i):
        _layer(rep, f_, repo)


_run_base2 = run


def run(repo: Repo, rep: Report) -> None:  # noqa: F811
    _layer(rep, _run_base2, repo)
    op = repo.mod("rdflib.plugins.sparql.operators")
    # ------------------------------------------------------------------ (j)
    rep.rule("C04.j-logical-and-stops-at-the-first-false",
             "ConditionalAndExpression evaluates its operands lazily, left to right, and stops at the first false one (all() over a GENERATOR of EBV(x), or an explicit loop that "
             "returns on false): SPARQL's `false && error` is false, so an operand that raises must not be evaluated once an earlier operand is false. Collecting the EBVs into a list "
             "first evaluates every operand and turns `false && error` into an error (which `!( ... )` and BIND make visible)", floor=1)
    f = op.func("ConditionalAndExpression")
    alls = [c for c in own_nodes(f) if isinstance(c, ast.Call) and norm(c.func) == "all" and c.args]
    loops_ = [n for n in own_nodes(f) if isinstance(n, ast.For)]
    if not alls and not loops_:
        raise AnalysisError("ConditionalAndExpression: neither all(...) nor a loop over the operands found")
    for c in alls:
        a = c.args[0]
        lazy = isinstance(a, ast.GeneratorExp)
        rep.ob("C04.j-logical-and-stops-at-the-first-false", op, "ConditionalAndExpression", c, lazy,
               "generator: operands after the first false one are not evaluated" if lazy else
               "all() is applied to %s, which evaluates EBV of every operand before looking at any: `FILTER(!(?x = 1 && ?y > 5))` with ?y unbound errs (row dropped) where the algebra gives true for ?x != 1" % ("a list" if isinstance(a, (ast.ListComp, ast.Name, ast.List)) else norm(a)[:30]), node=c)
    for l in loops_:
        early = any(isinstance(r, ast.Return) for r in ast.walk(l))
        rep.ob("C04.j-logical-and-stops-at-the-first-false", op, "ConditionalAndExpression", "for %s in ...: return on false" % norm(l.target), early,
               "" if early else "the loop over the operands never returns early", node=l)


_run_base3 = run


def run(repo: Repo, rep: Report) -> None:  # noqa: F811
    _layer(rep, _run_base3, repo)
    from vlib import argswap

    rep.rule("C04.k-no-swapped-arguments-in-the-evaluator",
             "in rdflib/plugins/sparql a call that passes two local names which are also parameter names of the resolved callee passes each at its own parameter's position "
             "(ctx/part, a/b, p1/p2 ... have the same types, so the type checker cannot see an exchange)", floor=20)
    argswap.scan(repo, rep, "C04.k-no-swapped-arguments-in-the-evaluator", sorted(m for m in repo.modules if m.startswith("rdflib.plugins.sparql.")))


_run_base4 = run


def run(repo: Repo, rep: Report) -> None:  # noqa: F811
    _layer(rep, _run_base4, repo)
    op = repo.mod("rdflib.plugins.sparql.operators")
    def _rule_l(repo: Repo, rep: Report) -> None:
        # ------------------------------------------------------------------ (l)
        rep.rule("C04.l-regex-flags-are-passed-as-flags",
                 "every call of re.sub / re.subn in the package passes at most three positional arguments and re.split at most two: the next positional parameter of these functions "
                 "is `count` / `maxsplit`, not `flags` (a fact of the standard library). REPLACE(str, pattern, repl, \"i\") evaluated through re.sub(p, r, s, cFlag) runs case-sensitively "
                 "and replaces at most cFlag occurrences", floor=5)
        for name, mod in sorted(repo.modules.items()):
            for c in ast.walk(mod.tree):
                if isinstance(c, ast.Call) and isinstance(c.func, ast.Attribute) and isinstance(c.func.value, ast.Name) and c.func.value.id == "re" and c.func.attr in ("sub", "subn", "split"):
                    limit = 3 if c.func.attr in ("sub", "subn") else 2
                    ok = len(c.args) <= limit
                    rep.ob("C04.l-regex-flags-are-passed-as-flags", mod, mod.qual_of(c) or "<module>", c, ok,
                           "" if ok else "the %s positional argument of re.%s is `%s`: %s is used as a count and the flags stay 0" % (
                               "4th" if limit == 3 else "3rd", c.func.attr, "count" if limit == 3 else "maxsplit", norm(c.args[limit])), node=c)

    def _rule_m(repo: Repo, rep: Report) -> None:
        # ------------------------------------------------------------------ (m)
        rep.rule("C04.m-ill-typed-numbers-are-type-errors",
                 "operators.numeric(), through which every arithmetic operator, numeric comparison and numeric built-in obtains its operands, raises SPARQLTypeError for a literal "
                 "with a numeric datatype whose lexical form has no value (Literal.value is None, e.g. \"abc\"^^xsd:integer): Literal.toPython() hands such a literal back as itself, "
                 "and arithmetic on it recurses until the interpreter gives up instead of producing a SPARQL error", floor=1)
        nf = op.func("numeric")
        rets = [r for r in own_nodes(nf) if isinstance(r, ast.Return) and r.value is not None and "toPython" in norm(r.value)]
        if not rets:
            raise AnalysisError("operators.numeric: `return expr.toPython()` not found")
        par = nf.args.args[0].arg
        for r in rets:
            guard = [n for n in own_nodes(nf) if isinstance(n, ast.If) and n.lineno < r.lineno and any(isinstance(x, ast.Raise) for x in n.body)
                     and any(isinstance(c, ast.Compare) and isinstance(c.ops[0], ast.Is) and norm(c.left) == "%s.value" % par for c in ast.walk(n.test)) or
                     (isinstance(n, ast.If) and n.lineno < r.lineno and any(isinstance(x, ast.Raise) for x in n.body) and "ill_typed" in norm(n.test))]
            rep.ob("C04.m-ill-typed-numbers-are-type-errors", op, "numeric", r, bool(guard),
                   "a literal without a value is rejected first" if guard else
                   "numeric() returns toPython() of an ill-typed literal, which is the Literal itself: `\"abc\"^^xsd:integer + 1` ends in RecursionError (the query raises), isNumeric() answers true", node=r)

    def _rule_n(repo: Repo, rep: Report) -> None:
        # ------------------------------------------------------------------ (n)
        rep.rule("C04.n-substr-positions-are-clamped",
                 "Builtin_SUBSTR implements fn:substring: positions are 1-based and positions below 1 do not exist. A slice bound computed from the query's numbers is clamped "
                 "(max(...)) before it is used: Python reads a negative bound as `from the end`, so SUBSTR(\"hello\", 0) would be \"o\"", floor=1)
        sf = op.func("Builtin_SUBSTR")
        slices = [n for n in own_nodes(sf) if isinstance(n, ast.Subscript) and isinstance(n.slice, ast.Slice)]
        if not slices:
            raise AnalysisError("Builtin_SUBSTR: slice not found")
        for sl in slices:
            bounds = [b for b in (sl.slice.lower, sl.slice.upper) if b is not None]
            bad = []
            for b in bounds:
                if isinstance(b, ast.Name):
                    defs = [a.value for a in own_nodes(sf) if isinstance(a, ast.Assign) and isinstance(a.targets[0], ast.Name) and a.targets[0].id == b.id]
                    clamped = all(isinstance(d, ast.Constant) and d.value is None or any(isinstance(c, ast.Call) and norm(c.func) == "max" for c in ast.walk(d)) for d in defs) and bool(defs)
                else:
                    clamped = any(isinstance(c, ast.Call) and norm(c.func) == "max" for c in ast.walk(b))
                if not clamped:
                    bad.append(norm(b))
            rep.ob("C04.n-substr-positions-are-clamped", op, "Builtin_SUBSTR", sl, not bad,
                   "bounds clamped" if not bad else "slice bound(s) %s can be negative: SUBSTR(\"hello\", 0) reads the string from the end (\"o\" instead of \"hello\"), SUBSTR(\"hello\", 0, 3) is \"\" instead of \"he\"" % bad, node=sl)

    # one rule, one layer (DESIGN §14.2): a rule that loses its anchor on the tree or on one view does not take its neighbours with it
    for f_ in (_rule_l, _rule_m, _rule_n):
        _layer(rep, f_, repo)


_run_base5 = run


def run(repo: Repo, rep: Report) -> None:  # noqa: F811
    """Layer 6: rules o-y (F175-F184), helpers in vlib/h_c04.py."""
    _layer(rep, _run_base5, repo)
    from vlib import h_c04 as H

    rep.extra["explanation"] = rep.extra.get("explanation", "") + (
        " Further necessary conditions (rules o-y): the translator tests optional expressions and possibly-empty clauses by identity and stores only nodes in "
        "part slots; forget() keeps a part's own variables; a pushed-down solution is merged with the left one before use; && / || / IN handle errors per "
        "operand over unevaluated operands, IN uses the `=` method; Extend checks a pushed-in value; a made-up graph is checked for existence; EBV excludes NaN."
    )

    T = repo.typed
    ev = repo.mod("rdflib.plugins.sparql.evaluate")
    alg = repo.mod("rdflib.plugins.sparql.algebra")
    op = repo.mod("rdflib.plugins.sparql.operators")
    par = repo.mod("rdflib.plugins.sparql.parser")
    def _identity_target(n: ast.AST):
        """`x is None` / `x is not None` / `x == None` -> x"""
        if isinstance(n, ast.Compare) and len(n.ops) == 1 and isinstance(n.ops[0], (ast.Is, ast.IsNot, ast.Eq, ast.NotEq)):
            l, r = n.left, n.comparators[0]
            if isinstance(r, ast.Constant) and r.value is None:
                return l
            if isinstance(l, ast.Constant) and l.value is None:
                return r
        return None

    def _rule_o(repo: Repo, rep: Report) -> None:
        # ------------------------------------------------------------------ (o)
        # An *expression* position of the translator holds whatever the grammar's PrimaryExpression admits, including a bare
        # term: and_(x) is x, translateExists(x) is x for a non-EXISTS x.  Literal(false) / Literal(0) / Literal("") are falsy.
        rep.rule("C04.o-translator-decides-absent-expression-by-identity",
                 "in the translator (algebra.py) a value whose static type is `<expression> | None` (Expr, Literal, Node ...) is tested for absence by identity "
                 "(`is None` / `is not None`), never by truthiness: an expression slot may hold a bare term, and the constant filters FILTER(false), FILTER(0), "
                 "FILTER(\"\") are falsy Python objects - `if filters:` drops them and `SELECT * { ?s ?p ?o FILTER(false) }` returns every triple", floor=1)
        EXPR_BASES = {"rdflib.plugins.sparql.parserutils.Expr", "rdflib.term.Literal"}
        EXPR_EXACT = {"rdflib.term.Node", "rdflib.term.Identifier"}

        def _expr_optional(e: ast.AST) -> bool:
            tf = T.type_of(alg.name, e)
            return bool(tf and tf.optional and any(i in EXPR_EXACT or any(b in EXPR_BASES for b in T.mro(i)) for i in tf.items))

        for q, f in alg.functions():
            if "." in q:
                continue
            rep.analysed("%s:%s" % (alg.rel, q))
            for n in own_nodes(f, include_nested=True):
                t = _identity_target(n)
                if t is not None and _expr_optional(t):
                    rep.ob("C04.o-translator-decides-absent-expression-by-identity", alg, q, n, True, "absence of the expression decided by identity", node=n)
            for e, owner, kind in truthy.bool_contexts(f):
                if isinstance(e, (ast.Compare, ast.Constant)) or not _expr_optional(e):
                    continue
                rep.ob("C04.o-translator-decides-absent-expression-by-identity", alg, q, "%s [in %s]" % (norm(e), kind), False,
                       "truthiness of %s : %s conflates `no expression` with an expression that is a falsy term: FILTER(false), FILTER(0), FILTER(\"\") "
                       "are dropped from the algebra and every solution passes" % (norm(e), T.type_of(alg.name, e)), node=e)

    def _rule_p(repo: Repo, rep: Report) -> None:
        # ------------------------------------------------------------------ (p)
        # CompValue is an OrderedDict of the Params that matched: a Comp all of whose Params are optional comes out EMPTY, i.e.
        # falsy, although the clause is present.  Which Comps can be empty is computed from the grammar (parser.py).
        rep.rule("C04.p-possibly-empty-clause-is-tested-by-identity",
                 "an attribute of a parse-tree node that holds a Comp which can match without setting any Param (computed from the grammar: every Param sits under "
                 "Optional/ZeroOrMore or in one branch of an alternative only) is tested for presence by identity, not by truthiness: the CompValue of "
                 "`VALUES () { }` is an empty OrderedDict, so `if q.valuesClause:` ignores a trailing VALUES block that has no solutions and "
                 "`SELECT * { ?s ?p ?o } VALUES () { }` returns rows instead of none", floor=1)
        gram = H.Grammar(par)
        maybe_empty = gram.maybe_empty_comp_params()
        if "valuesClause" not in maybe_empty:
            raise AnalysisError("grammar analysis: Param valuesClause no longer holds a possibly-empty Comp (rule C04.p premise changed): %s" % maybe_empty)

        def _clause_attr(fn: ast.AST, e: ast.AST):
            """e is `<node>.<param>` (or a local bound only to such reads) for a Param that may hold an empty Comp"""
            cands = [e]
            if isinstance(e, ast.Name):
                cands = H.local_defs(fn, e.id)
                if not cands:
                    return None
            hit = None
            for c in cands:
                if isinstance(c, ast.Attribute) and c.attr in maybe_empty:
                    hit = c.attr
                else:
                    return None
            return hit

        for mod in (alg, ev):
            for q, f in mod.functions():
                if "." in q:
                    continue
                for n in own_nodes(f, include_nested=True):
                    t = _identity_target(n)
                    a = _clause_attr(f, t) if t is not None else None
                    if a:
                        rep.ob("C04.p-possibly-empty-clause-is-tested-by-identity", mod, q, n, True, "presence of the %s clause decided by identity" % maybe_empty[a], node=n)
                for e, owner, kind in truthy.bool_contexts(f):
                    a = _clause_attr(f, e)
                    if a:
                        rep.ob("C04.p-possibly-empty-clause-is-tested-by-identity", mod, q, "%s [in %s]" % (norm(e), kind), False,
                               "%s holds a %s node, which is an EMPTY (falsy) mapping when none of its optional parts matched (e.g. `VALUES () { }`): "
                               "truthiness treats the present clause as absent" % (norm(e), maybe_empty[a]), node=e)

    def _rule_q(repo: Repo, rep: Report) -> None:
        # ------------------------------------------------------------------ (q)
        # evalPart / evalMultiset dispatch on `<part>.name`; whatever is stored in a part slot (p, p1, p2) must be a node.
        rep.rule("C04.q-part-slots-hold-algebra-nodes",
                 "what an algebra-node constructor of algebra.py stores in a part slot (the keys p / p1 / p2, which evalPart and evalMultiset dispatch on by `.name`) is "
                 "an algebra node on every path: when the argument is the result of a translator function whose declared type admits a list, every `return` of that "
                 "function yields a CompValue. `VALUES ?x { }` used to come back as a bare list from translateValues, and ToMultiSet(<list>) made evalMultiset fail "
                 "with AttributeError instead of producing the empty multiset", floor=20)
        PART_KEYS = {"p", "p1", "p2"}
        ctors: dict[str, dict] = {}   # constructor -> {param name: key} for part slots
        for q, f in alg.functions():
            if "." in q:
                continue
            rets = [r for r in own_nodes(f) if isinstance(r, ast.Return) and r.value is not None]
            if rets and all(isinstance(r.value, ast.Call) and norm(r.value.func) == "CompValue" for r in rets):
                slots = {}
                for r in rets:
                    for k in r.value.keywords:
                        if k.arg in PART_KEYS and isinstance(k.value, ast.Name) and k.value.id in H.params_of(f):
                            slots[k.value.id] = k.arg
                if slots:
                    ctors[q] = {"params": H.params_of(f), "slots": slots}
        if len(ctors) < 8:
            raise AnalysisError("algebra.py: expected >= 8 node constructors with part slots, found %s" % sorted(ctors))
        NODE = "rdflib.plugins.sparql.parserutils.CompValue"

        def _is_node_type(e: ast.AST):
            tf = T.type_of(alg.name, e)
            if tf is None or (tf.any and not tf.items):
                return None  # untyped (attribute of a CompValue): not decided here
            return all(NODE in T.mro(i) for i in tf.items)

        for q, f in alg.functions():
            for c in own_nodes(f):
                if not (isinstance(c, ast.Call) and isinstance(c.func, ast.Name) and c.func.id in ctors):
                    continue
                info = ctors[c.func.id]
                given = [(info["params"][i], a) for i, a in enumerate(c.args) if i < len(info["params"])] + [(k.arg, k.value) for k in c.keywords]
                for pname, a in given:
                    if pname not in info["slots"]:
                        continue
                    verdict = _is_node_type(a)
                    why = "typed as a node"
                    if verdict is None:
                        why = "untyped (read from a node)"
                        verdict = True
                    elif verdict is False and isinstance(a, ast.Call) and isinstance(a.func, ast.Name) and alg.has(a.func.id):
                        callee = alg.func(a.func.id)
                        bad = [r for r in own_nodes(callee) if isinstance(r, ast.Return) and (r.value is None or _is_node_type(r.value) is False)]
                        verdict = not bad
                        why = "every return of %s is a node" % a.func.id if verdict else \
                            "%s can return %s, which is not an algebra node: %s(...) stores it in slot `%s` and evaluation fails on `.name` (e.g. VALUES ?x { })" % (
                                a.func.id, [norm(r)[:40] for r in bad], c.func.id, info["slots"][pname])
                    elif verdict is False:
                        why = "%s : %s is not an algebra node" % (norm(a)[:40], T.type_of(alg.name, a))
                    rep.ob("C04.q-part-slots-hold-algebra-nodes", alg, q, "%s(%s=%s)" % (c.func.id, pname, norm(a)[:60]), verdict, why, node=c)

    def _rule_r(repo: Repo, rep: Report) -> None:
        # ------------------------------------------------------------------ (r)
        rep.rule("C04.r-forget-keeps-the-parts-own-variables",
                 "every `<solution>.forget(<ctx>, ...)` of the evaluator (the step that hides bindings pushed in from the enclosing join before an expression is "
                 "evaluated) passes `_except=` a set computed from the `_vars` annotation of the part(s) whose expression is evaluated: variables the part itself "
                 "binds are in scope for its expression even when the enclosing join has pushed in a value for them. Without it, in "
                 "`?s :p ?x . OPTIONAL { ?s :q ?y FILTER(?x = ?y) }` joined after a pattern binding ?x the condition sees ?x unbound and the optional part never matches", floor=3)
        for mod in (ev, repo.mod("rdflib.plugins.sparql.evalutils"), op, repo.mod("rdflib.plugins.sparql.aggregates"), repo.mod("rdflib.plugins.sparql.update")):
            for q, f in mod.functions():
                for c in own_nodes(f):
                    if not (isinstance(c, ast.Call) and isinstance(c.func, ast.Attribute) and c.func.attr == "forget" and (c.args or c.keywords)):
                        continue
                    exc = [k.value for k in c.keywords if k.arg == "_except"] + list(c.args[1:2])
                    ok = bool(exc) and any(isinstance(x, ast.Attribute) and x.attr == "_vars" for x in H.closure_nodes(f, exc[0]))
                    rep.ob("C04.r-forget-keeps-the-parts-own-variables", mod, q, c, ok,
                           "keeps the variables of the part" if ok else
                           "%s: every variable bound in the incoming context is hidden from the expression, including the ones this part binds itself "
                           "(a pushed-in binding of a variable the OPTIONAL/FILTER/BIND expression uses makes the expression err)" % (
                               "no _except" if not exc else "_except=%s is not computed from a part's _vars" % norm(exc[0])[:40]), node=c)

    def _rule_s(repo: Repo, rep: Report) -> None:
        # ------------------------------------------------------------------ (s)
        rep.rule("C04.s-pushed-down-solution-is-merged-before-use",
                 "a solution produced by evaluating a part under `ctx.thaw(<left solution>)` (the push-down form of a join) may have lost the left solution's bindings "
                 "again (a sub-SELECT projects them away), so inside the loop it is only ever used as `<b>.merge(<left solution>)`, or rebound to that merge before any "
                 "other use - in particular before the LeftJoin condition is evaluated over it: in `?s :p ?x OPTIONAL { { SELECT ?y { ?s :q ?y } } FILTER(?x = ?y) }`-like "
                 "queries the condition must see ?x", floor=3)
        for mod in (ev, op):
            for q, f in mod.functions():
                if "." in q:
                    continue
                loops = []  # (target, iter, [body nodes])
                for n in own_nodes(f, include_nested=True):
                    if isinstance(n, ast.For):
                        loops.append((n.target, n.iter, n.body, n))
                    elif isinstance(n, (ast.GeneratorExp, ast.ListComp, ast.SetComp)) and len(n.generators) == 1:
                        g0 = n.generators[0]
                        loops.append((g0.target, g0.iter, [n.elt] + list(g0.ifs), n))
                for tgt, it, body, owner in loops:
                    if not (isinstance(it, ast.Call) and norm(it.func) == "evalPart" and it.args and isinstance(tgt, ast.Name)):
                        continue
                    lefts = {norm(c.args[0]) for c in H.closure_nodes(f, it.args[0], depth=2)
                             if isinstance(c, ast.Call) and isinstance(c.func, ast.Attribute) and c.func.attr == "thaw" and c.args}
                    if not lefts:
                        continue
                    uses = sorted((u for b in body for u in ast.walk(b) if isinstance(u, ast.Name) and u.id == tgt.id and isinstance(u.ctx, ast.Load)),
                                  key=lambda u: (u.lineno, u.col_offset))
                    bad = None
                    for u in uses:
                        p1 = mod.parent.get(id(u))
                        p2 = mod.parent.get(id(p1)) if p1 is not None else None
                        merged = isinstance(p1, ast.Attribute) and p1.attr == "merge" and p1.value is u and isinstance(p2, ast.Call) and p2.func is p1 \
                            and len(p2.args) == 1 and norm(p2.args[0]) in lefts
                        if not merged:
                            bad = u
                            break
                        p3 = mod.parent.get(id(p2))
                        if isinstance(p3, ast.Assign) and p3.value is p2 and len(p3.targets) == 1 and norm(p3.targets[0]) == tgt.id and any(p3 is s for s in body):
                            break  # rebound to the merge at the top of the loop body: later uses see the merged solution
                    rep.ob("C04.s-pushed-down-solution-is-merged-before-use", mod, q, "for %s in %s" % (norm(tgt), norm(it)[:60]), bad is None,
                           "used only merged with %s" % sorted(lefts) if bad is None else
                           "the solution of the pushed-down part is used unmerged in `%s`: bindings of the left solution %s that a sub-SELECT on the right projected away "
                           "are missing there (a LeftJoin condition over them errs, so the OPTIONAL part is lost)" % (norm(H.enclosing_stmt(mod, bad) if isinstance(owner, ast.For) else owner)[:70], sorted(lefts)),
                           node=owner, vacuous=not uses)

    def _rule_t(repo: Repo, rep: Report) -> None:
        # ------------------------------------------------------------------ (t)
        rep.rule("C04.t-logical-connective-survives-an-operand-error",
                 "in operators.py every `EBV(<x>)` applied to the variable of an iteration over operands (the n-ary connectives && and ||) is a statement-loop body "
                 "inside a `try` whose SPARQLError handler stays in the loop (no raise/return/break): an operand that errs must not end the evaluation, because a later "
                 "operand can still decide the result (error && false = false, error || true = true, SPARQL 17.2). A comprehension `all(EBV(x) for x in ...)` lets the "
                 "first error escape: FILTER(?unbound > 1 && false) inside NOT(...) / BIND gives error instead of false", floor=2)
        ERRS = {"SPARQLError", "Exception", "BaseException"}
        for q, f in op.functions():
            if "." in q:
                continue
            iter_vars: dict[str, ast.AST] = {}
            for n in own_nodes(f, include_nested=True):
                if isinstance(n, ast.For) and isinstance(n.target, ast.Name):
                    iter_vars[n.target.id] = n
                elif isinstance(n, ast.comprehension) and isinstance(n.target, ast.Name):
                    iter_vars[n.target.id] = n
            for c in own_nodes(f, include_nested=True):
                if not (isinstance(c, ast.Call) and norm(c.func) == "EBV" and len(c.args) == 1 and isinstance(c.args[0], ast.Name) and c.args[0].id in iter_vars):
                    continue
                loop = iter_vars[c.args[0].id]
                ok, why = False, ""
                if not isinstance(loop, ast.For):
                    why = "EBV is applied inside a comprehension: the first operand error leaves it"
                else:
                    tries = [p for p in op.parents(c) if isinstance(p, ast.Try) and any(p is x for x in ast.walk(loop))]
                    tries = [t for t in tries if any(c is x for s_ in t.body for x in ast.walk(s_))]
                    good = [t for t in tries for h in t.handlers if H.handler_catches(h, ERRS)
                            and not any(isinstance(x, (ast.Raise, ast.Return, ast.Break)) for s_ in h.body for x in ast.walk(s_))]
                    ok = bool(good)
                    why = "operand errors are caught inside the loop" if ok else "no try/except SPARQLError around EBV inside the loop, or its handler leaves the loop"
                rep.ob("C04.t-logical-connective-survives-an-operand-error", op, q, c, ok,
                       why if ok else why + ": `error && false` / `error || true` give an error instead of false / true", node=c)

    def _rule_u(repo: Repo, rep: Report) -> None:
        # ------------------------------------------------------------------ (u)
        # CompValue.__getattr__/__getitem__ evaluate the stored operand at once (value(ctx, v, variables=False)) and raise
        # NotBoundError for an unbound variable; only .get(name, variables=True) hands the Variable back.
        rep.rule("C04.u-per-operand-error-handling-reads-operands-unevaluated",
                 "an evaluation function of operators.py that handles errors PER OPERAND (a loop over operands whose body has try/except SPARQLError) obtains the iterated "
                 "operands with `<e>.get(<name>, variables=True)` on every path that reaches the loop, never with `<e>.<name>` / `<e>[<name>]`: the attribute form "
                 "evaluates all operands at once and raises NotBoundError for an unbound variable before the loop is entered, so `?unbound || true` (true), "
                 "`false && ?unbound` (false) and `1 IN (?unbound, 1)` (true) abort as errors", floor=3)
        for q, f in op.functions():
            if "." in q or not f.args.args:
                continue
            p0 = f.args.args[0].arg
            g = None
            for lp in own_nodes(f):
                if not (isinstance(lp, ast.For) and any(isinstance(s_, ast.Try) and any(H.handler_catches(h, {"SPARQLError"}) and h.type is not None for h in s_.handlers)
                                                        for s_ in ast.walk(lp) if s_ is not lp)):
                    continue
                names = sorted({n.id for n in ast.walk(lp.iter) if isinstance(n, ast.Name) and isinstance(n.ctx, ast.Load)})
                if not names:
                    continue
                if g is None:
                    g = CFG(f)
                raw, lazy = [], 0
                for nm in names:
                    for st in H.reaching_values(op, f, g, lp, nm):
                        v = H.bound_value(st, nm) if st is not None else None
                        if v is None:
                            continue
                        for x in ast.walk(v):
                            if isinstance(x, ast.Subscript) and isinstance(x.value, ast.Name) and x.value.id == p0:
                                raw.append(x)
                            if isinstance(x, ast.Attribute) and isinstance(x.value, ast.Name) and x.value.id == p0:
                                call = op.parent.get(id(x))
                                is_get = x.attr == "get" and isinstance(call, ast.Call) and call.func is x
                                if is_get and any(k.arg == "variables" and isinstance(k.value, ast.Constant) and k.value.value is True for k in call.keywords):
                                    lazy += 1
                                elif not (isinstance(call, ast.Call) and call.func is x and x.attr not in ("get",)):
                                    raw.append(x)
                if not raw and not lazy:
                    continue  # the loop does not iterate operands of the expression node
                rep.ob("C04.u-per-operand-error-handling-reads-operands-unevaluated", op, q, "for %s in %s" % (norm(lp.target), norm(lp.iter)), not raw,
                       "operands fetched with variables=True" if not raw else
                       "the iterated operands come from %s, which evaluates them eagerly: an unbound variable among them raises NotBoundError for the whole expression "
                       "instead of being that operand's error" % sorted({norm(x) for x in raw}), node=lp)

    def _rule_v(repo: Repo, rep: Report) -> None:
        # ------------------------------------------------------------------ (v)
        rep.rule("C04.v-extend-checks-a-pushed-in-value",
                 "where the evaluator adds a binding to a solution with `<solution>.merge({<var>: <value>})` (FrozenBindings.merge overwrites silently - Extend / BIND / "
                 "(expr AS ?v)), a test that reads the binding the incoming context already has for <var> (`ctx[<var>]`, `.get(<var>)`, `<var> in ...`) guards the merge: "
                 "a lazy join pushes the left solution into the right operand, and `{ ?s :p ?v } { BIND(2 AS ?v) }` must drop the rows whose ?v is not 2 rather than "
                 "overwrite ?v and let the incompatible join succeed", floor=1)
        for q, f in ev.functions():
            if "." in q:
                continue
            g = None
            for c in own_nodes(f):
                if not (isinstance(c, ast.Call) and isinstance(c.func, ast.Attribute) and c.func.attr == "merge" and len(c.args) == 1 and isinstance(c.args[0], ast.Dict)):
                    continue
                keys = [k for k in c.args[0].keys if k is not None and not isinstance(k, ast.Constant)]
                if not keys:
                    continue
                if g is None:
                    g = CFG(f)
                st = H.enclosing_stmt(ev, c)
                for k in keys:
                    kt = norm(k)

                    def reads_prior(x: ast.AST) -> bool:
                        if isinstance(x, ast.Subscript) and norm(x.slice) == kt:
                            return True
                        if isinstance(x, ast.Call) and isinstance(x.func, ast.Attribute) and x.func.attr == "get" and x.args and norm(x.args[0]) == kt:
                            return True
                        if isinstance(x, ast.Compare) and isinstance(x.ops[0], (ast.In, ast.NotIn)) and norm(x.left) == kt:
                            return True
                        return False

                    guards = []
                    for t in own_nodes(f):
                        if isinstance(t, ast.If) and any(reads_prior(x) for x in H.closure_nodes(f, t.test)):
                            inside = any(st is x for s_ in t.body + t.orelse for x in ast.walk(s_))
                            exits = bool(t.body) and isinstance(t.body[-1], (ast.Continue, ast.Return, ast.Raise, ast.Break))
                            if inside or exits:
                                guards.append(g.node_of(t))
                    ok = bool(guards) and g.must_pass_before(g.node_of(st), guards)
                    rep.ob("C04.v-extend-checks-a-pushed-in-value", ev, q, c, ok,
                           "guarded by a test on the prior binding of %s" % kt if ok else
                           "%s is overwritten unconditionally: no test on the value the context already binds to it dominates the merge; a solution that is "
                           "incompatible with the pushed-in left solution is turned into a compatible one (`{ ?s :p ?v } { BIND(2 AS ?v) }` returns every ?s)" % kt, node=c)

    def _rule_w(repo: Repo, rep: Report) -> None:
        # ------------------------------------------------------------------ (w)
        rep.rule("C04.w-made-up-graph-is-checked-for-existence",
                 "ConjunctiveGraph/Dataset.get_context(<id>) makes up an (empty) Graph object for ANY identifier. Where the evaluator makes such a graph the active graph "
                 "(GRAPH <iri> / GRAPH ?bound), every path from there to a yielded solution passes a test that depends on an enumeration of the dataset's graphs "
                 "(.contexts() / .graphs()): `GRAPH <urn:nosuch> { }`, `GRAPH <urn:nosuch> { OPTIONAL { ?s ?p ?o } }` or `... { BIND(1 AS ?x) }` have NO solution "
                 "when the dataset has no such graph, but the patterns match the made-up empty graph once", floor=1)
        ENUM = {"contexts", "graphs"}
        for q, f in ev.functions():
            if "." in q:
                continue
            calls = [c for c in own_nodes(f) if isinstance(c, ast.Call) and isinstance(c.func, ast.Attribute) and c.func.attr == "get_context"]
            if not calls:
                continue
            g = CFG(f)

            def _enumerates(x: ast.AST) -> bool:
                """x is a call that enumerates the dataset's graphs, directly or in the body of a module-level helper it names"""
                if not isinstance(x, ast.Call):
                    return False
                if isinstance(x.func, ast.Attribute) and x.func.attr in ENUM:
                    return True
                if isinstance(x.func, ast.Name) and ev.has(x.func.id) and x.func.id != q:
                    return any(isinstance(y, ast.Call) and isinstance(y.func, ast.Attribute) and y.func.attr in ENUM for y in ast.walk(ev.get(x.func.id)))
                return False

            tests = [g.node_of(t) for t in own_nodes(f) if isinstance(t, (ast.If, ast.While)) and any(_enumerates(x) for x in H.closure_nodes(f, t.test))]
            for c in calls:
                src = g.node_of(H.enclosing_stmt(ev, c))
                free = g.reach(src, avoid=tests)
                outs = [g.nodes[i].ast for i in sorted(free) if g.nodes[i].ast is not None and g.nodes[i].kind == "stmt"
                        and any(isinstance(x, (ast.Yield, ast.YieldFrom)) or (isinstance(x, ast.Return) and x.value is not None) for x in ast.walk(g.nodes[i].ast))]
                any_out = any(isinstance(x, (ast.Yield, ast.YieldFrom, ast.Return)) for i in g.reach(src) if g.nodes[i].ast is not None and g.nodes[i].kind == "stmt" for x in ast.walk(g.nodes[i].ast))
                if not any_out:
                    raise AnalysisError("%s: no solution is produced after get_context() (rule C04.w premise changed)" % q)
                rep.ob("C04.w-made-up-graph-is-checked-for-existence", ev, q, c, not outs,
                       "every solution is produced after an existence test over the dataset's graphs" if not outs else
                       "`%s` is reached without any test over the dataset's graphs: for an identifier that names no graph the pattern is matched against the empty graph "
                       "get_context() made up, and `GRAPH <urn:nosuch> { }` has one solution instead of none" % norm(outs[0])[:50], node=c)

    def _rule_x(repo: Repo, rep: Report) -> None:
        # ------------------------------------------------------------------ (x)
        rep.rule("C04.x-in-is-defined-through-the-equals-operator",
                 "RelationalExpression decides membership for IN / NOT IN with the same term method its operator table uses for `=` (Literal/Identifier.eq: value "
                 "equality, type error for incomparable terms), not with Python `==` (term identity): SPARQL 17.4.1.9 defines `x IN (a, b)` as `x = a || x = b`, so "
                 "`1 IN (1.0)` and `\"1\"^^xsd:integer IN (01)` are true", floor=1)
        rf = op.func("RelationalExpression")
        # the operator table: a table the function writes out itself or a module-level constant it reads, with a row for `=`
        # whose value is a callable that applies a method of its first argument
        eq_rows = []
        for where, rows in H.tables_of(op, rf):
            for k, v in rows:
                if isinstance(k, ast.Constant) and k.value == "=":
                    m_ = H.method_applied_by(op, v)
                    if m_ is not None:
                        eq_rows.append(m_)
        if len(set(eq_rows)) != 1:
            raise AnalysisError("RelationalExpression: row for `=` of the operator table not found (%s)" % eq_rows)
        eq_method = eq_rows[0]
        # the branch for IN / NOT IN: an `if` whose test is computed (through locals and module constants) from both operator
        # names and not from `=`
        in_branches = []
        for n in own_nodes(rf):
            if isinstance(n, ast.If):
                cs = H.constants_behind(op, rf, n.test)
                if {"IN", "NOT IN"} <= cs and "=" not in cs:
                    in_branches.append(n)
        member_loops = [lp for b in in_branches for s_ in b.body for lp in ast.walk(s_) if isinstance(lp, ast.For)]
        if not member_loops:
            raise AnalysisError("RelationalExpression: loop over the members of the IN list not found")
        for lp in member_loops:
            deciders = [t for t in ast.walk(lp) if isinstance(t, ast.If) and any(isinstance(x, ast.Return) for s_ in t.body for x in ast.walk(s_))]
            if not deciders:
                raise AnalysisError("RelationalExpression: the IN loop has no `if <member matches>: return`")
            lv = {x.id for x in ast.walk(lp.target) if isinstance(x, ast.Name)}
            for t in deciders:
                by_method = any(isinstance(x, ast.Call) and isinstance(x.func, ast.Attribute) and x.func.attr == eq_method for x in ast.walk(t.test))
                by_ident = [x for x in ast.walk(t.test) if isinstance(x, ast.Compare) and any(isinstance(o, (ast.Eq, ast.NotEq, ast.Is, ast.IsNot, ast.In, ast.NotIn)) for o in x.ops)
                            and lv & {y.id for y in ast.walk(x) if isinstance(y, ast.Name)}]
                ok = by_method and not by_ident
                rep.ob("C04.x-in-is-defined-through-the-equals-operator", op, "RelationalExpression", t.test, ok,
                       "member compared with .%s() as `=` is" % eq_method if ok else
                       "a member of the IN list is matched by `%s` and not by .%s() as the `=` operator is: `1 IN (1.0)` is false although `1 = 1.0` is true" % (norm(t.test)[:50], eq_method), node=t)

    def _rule_y(repo: Repo, rep: Report) -> None:
        # ------------------------------------------------------------------ (y)
        rep.rule("C04.y-truth-of-a-python-number-excludes-nan",
                 "where operators.py turns the Python value of a literal (`<lit>.toPython()`) into a truth value with bool(), the same boolean expression also excludes "
                 "NaN (a self-comparison `v == v` / `v != v` or an isnan call): bool(float('nan')) is True in Python but the effective boolean value of NaN is false "
                 "(SPARQL 17.2.2), so FILTER(\"NaN\"^^xsd:double) must reject every solution", floor=1)
        for q, f in op.functions():
            if "." in q:
                continue
            for c in own_nodes(f):
                if not (isinstance(c, ast.Call) and norm(c.func) == "bool" and len(c.args) == 1):
                    continue
                a = c.args[0]
                from_py = [x for x in H.closure_nodes(f, a, depth=2) if isinstance(x, ast.Call) and isinstance(x.func, ast.Attribute) and x.func.attr == "toPython"]
                if not from_py:
                    continue
                top: ast.AST = c
                for p in op.parents(c):
                    if isinstance(p, (ast.BoolOp, ast.UnaryOp, ast.IfExp)):
                        top = p
                    else:
                        break
                at = norm(a)
                nan_ok = any((isinstance(x, ast.Compare) and len(x.ops) == 1 and isinstance(x.ops[0], (ast.Eq, ast.NotEq)) and norm(x.left) == at and norm(x.comparators[0]) == at)
                             or (isinstance(x, ast.Call) and norm(x.func).split(".")[-1].lower().replace("_", "") == "isnan") for x in ast.walk(top))
                rep.ob("C04.y-truth-of-a-python-number-excludes-nan", op, q, top, nan_ok,
                       "NaN excluded" if nan_ok else
                       "bool(%s) of a toPython() value is the whole verdict: NaN is truthy in Python, so FILTER(\"NaN\"^^xsd:double) keeps every solution (its EBV is false)" % at, node=c)

    # one rule, one layer (DESIGN §14.2): a rule that loses its anchor on the tree or on one view does not take its neighbours with it
    for f_ in (_rule_o, _rule_p, _rule_q, _rule_r, _rule_s, _rule_t, _rule_u, _rule_v, _rule_w, _rule_x, _rule_y):
        _layer(rep, f_, repo)


_run_base6 = run


def run(repo: Repo, rep: Report) -> None:  # noqa: F811
    """Layer 7: rules z, aa-ac (query contexts are not shared-and-written; side-stored patterns are annotated; EXISTS substitutes)."""
    _layer(rep, _run_base6, repo)
    from vlib import h_c04 as H

    T = repo.typed
    ev = repo.mod("rdflib.plugins.sparql.evaluate")
    alg = repo.mod("rdflib.plugins.sparql.algebra")
    op = repo.mod("rdflib.plugins.sparql.operators")
    sp = repo.mod("rdflib.plugins.sparql.sparql")
    QCN = "QueryContext"
    QC = "rdflib.plugins.sparql.sparql." + QCN
    FB = "rdflib.plugins.sparql.sparql.FrozenBindings"

    def _has_type(mod, e: ast.AST, full: str) -> bool:
        tf = T.type_of(mod.name, e)
        return bool(tf and any(full in T.mro(i) for i in tf.items))

    def _rule_z(repo: Repo, rep: Report) -> None:
        # ------------------------------------------------------------------ (z)
        # A QueryContext is the environment a (lazy) generator evaluates the rest of its pattern in: the active graph, the
        # dataset, initBindings, the prologue.  A solution only points at the context that produced it (FrozenBindings.ctx) and
        # so do all the other solutions of that generator, the ones still to come included.
        makers = H.context_makers(sp.methods(QCN), QCN)
        if "clone" not in makers or len(makers) < 3:
            raise AnalysisError("QueryContext: methods that hand out a new context not recognised (%s)" % sorted(makers))
        rep.rule("C04.z-a-context-is-written-only-by-the-function-that-made-it",
                 "in rdflib/plugins/sparql an attribute of a query context (`<context>.graph = ...`, `.initBindings`, `.prologue` ...) is stored only on a context the "
                 "function has made itself on every path (a local bound to QueryContext(...) or to one of the methods that hand out a new context: %s), never on a "
                 "parameter and never on `<solution>.ctx`: the context of a solution is shared with the generator that produced it and with the solutions it has still "
                 "to produce. evalGraph used to reset `x.ctx.graph` of each solution it yielded, so what the inner pattern evaluated afterwards under the same context used the "
                 "graph that is active OUTSIDE of GRAPH: with :a :p :o; :q :z1, :z2, :z3 in a named graph only, "
                 "`GRAPH ?g { ?s :p ?o { SELECT DISTINCT ?s ?z { ?s :q ?z } } FILTER EXISTS { ?s :q ?z } }` returned one row instead of three" % ", ".join(sorted(makers)), floor=8)
        for name in sorted(m for m in repo.modules if m.startswith("rdflib.plugins.sparql.")):
            mod = repo.mod(name)
            for q, f in mod.functions():
                g = None
                selfname = f.args.args[0].arg if (mod is sp and q.startswith(QCN + ".") and q.count(".") == 1 and f.args.args) else None
                for st in own_nodes(f):
                    for t in H.attr_store_targets(st):
                        b = t.value
                        if isinstance(b, ast.Name) and b.id == selfname:
                            continue  # the class's own methods define what writing a context means
                        is_ctx = _has_type(mod, b, QC)
                        if not is_ctx and isinstance(b, ast.Attribute) and b.attr == "ctx" and not _has_type(mod, b.value, QC):
                            tf = T.type_of(mod.name, b)
                            is_ctx = tf is None or (tf.any and not tf.items)  # `.ctx` of an untyped solution
                        if g is None and isinstance(b, ast.Name):
                            g = CFG(f)
                        defs = H.reaching_values(mod, f, g, st, b.id) if isinstance(b, ast.Name) else []
                        vals = [H.bound_value(d, b.id) if d is not None else None for d in defs]
                        if not is_ctx and any(v is not None and _has_type(mod, v, QC) for v in vals):
                            is_ctx = True  # a local declared otherwise but bound to a context (Builtin_EXISTS re-uses its parameter)
                        if not is_ctx:
                            continue
                        own = bool(vals) and all(H.is_maker_call(v, makers, QCN) for v in vals)
                        rep.ob("C04.z-a-context-is-written-only-by-the-function-that-made-it", mod, q, st, own,
                               "%s was made here (%s)" % (norm(b), norm(vals[0])[:40]) if own else
                               "%s.%s is stored on a context this function did not make (%s): it is shared with the generator that is still producing solutions under it, "
                               "which from then on evaluates with the changed %s (in `GRAPH ?g { ?s :p ?o { SELECT DISTINCT ?s ?z { ?s :q ?z } } FILTER EXISTS { ?s :q ?z } }` "
                               "the solutions of the join share one context: EXISTS is evaluated against the outer graph from the second one on and rows are lost)" % (
                                   norm(b), t.attr, "the context of a solution" if isinstance(b, ast.Attribute) else "a parameter / not bound to a new context on every path", t.attr), node=st)

    def _rule_aa(repo: Repo, rep: Report) -> None:
        # ------------------------------------------------------------------ (aa)
        # Builtin_EXISTS evaluates its pattern in `<solution>.ctx`: the active graph of an EXISTS written outside of GRAPH { } is
        # whatever the context of the solution says.
        rep.rule("C04.aa-solutions-leave-graph-on-the-outer-context",
                 "a function of the evaluator that evaluates a part under a context with another active graph (`<ctx>.pushGraph(...)`) does not hand the solutions of "
                 "that part out as they are: every `yield` constructs FrozenBindings(<outer context>, <inner solution>) on a context that is not derived from the pushed "
                 "one. The inner solution's `.ctx` has the inner graph, and a filter applied outside evaluates EXISTS in the context of the solution: "
                 "`{ GRAPH ?g { ?s :p ?o } FILTER EXISTS { ?s :q ?z } }` must look for `?s :q ?z` in the default graph, not in ?g", floor=2)
        n_push = 0
        for q, f in ev.functions():
            if "." in q:
                continue
            if not any(isinstance(c, ast.Call) and isinstance(c.func, ast.Attribute) and c.func.attr == "pushGraph" for c in own_nodes(f)):
                continue
            n_push += 1
            pushed: set[str] = set()
            changed = True
            while changed:
                changed = False
                for n in own_nodes(f):
                    if isinstance(n, ast.Assign) and len(n.targets) == 1 and isinstance(n.targets[0], ast.Name) and n.targets[0].id not in pushed:
                        if any((isinstance(x, ast.Call) and isinstance(x.func, ast.Attribute) and x.func.attr == "pushGraph") or (isinstance(x, ast.Name) and x.id in pushed)
                               for x in ast.walk(n.value)):
                            pushed.add(n.targets[0].id)
                            changed = True
            inner: set[str] = set()
            for n in own_nodes(f):
                if isinstance(n, (ast.For, ast.comprehension)) and any(isinstance(x, ast.Name) and x.id in pushed for x in ast.walk(n.iter)):
                    inner |= {x.id for x in ast.walk(n.target) if isinstance(x, ast.Name)}
            ys = [y for y in own_nodes(f) if isinstance(y, (ast.Yield, ast.YieldFrom))]
            if not ys:
                raise AnalysisError("%s: evaluates under pushGraph() but yields nothing (rule C04.aa premise changed)" % q)
            for y in ys:
                v = y.value
                ok, why = False, "the solution is handed out as `%s`" % (norm(v)[:40] if v is not None else "None")
                if isinstance(y, ast.Yield) and isinstance(v, ast.Call) and isinstance(v.func, ast.Name) and v.func.id == "FrozenBindings" and v.args:
                    a0 = v.args[0]
                    if isinstance(a0, ast.Name) and a0.id not in pushed and a0.id not in inner and not any(
                            isinstance(x, ast.Attribute) and x.attr == "ctx" for d in H.local_defs(f, a0.id) for x in ast.walk(d)):
                        ok, why = True, "re-attached to %s" % a0.id
                    else:
                        why = "FrozenBindings is constructed on `%s`, which is (derived from) the context with the inner graph" % norm(a0)[:40]
                rep.ob("C04.aa-solutions-leave-graph-on-the-outer-context", ev, q, y, ok,
                       why if ok else why + ": its context keeps the graph GRAPH made active (or has to be patched in place, see C04.z), so "
                       "`{ GRAPH ?g { ?s :p ?o } FILTER EXISTS { ?s :q ?z } }` evaluates EXISTS inside ?g", node=y)
        if not n_push:
            raise AnalysisError("evaluate.py: no function evaluates under pushGraph() (rule C04.aa anchor vanished)")

    def _rule_ab(repo: Repo, rep: Report) -> None:
        # ------------------------------------------------------------------ (ab)
        # translateQuery makes passes over the finished algebra (simplify, analyse -> lazy flags, _addVars -> _vars).  The passes
        # walk the ITEMS of the nodes.  A translated pattern that is kept on the side of a node (an attribute: EXISTS keeps its
        # pattern in `.graph`; an item of a node that is not part of the query tree: the `where` of an update) is not reached.
        tq = alg.func("translateQuery")
        roots = {norm(c.args[1]) for c in own_nodes(tq) if isinstance(c, ast.Call) and norm(c.func) == "Query" and len(c.args) >= 2}
        if not roots:
            raise AnalysisError("translateQuery: `Query(prologue, <algebra>)` not found")

        def _pass_calls(fn: ast.AST, refs: set[str]) -> set[str]:
            """names of the functions handed, as visitors, to a call whose first argument is one of `refs`"""
            out: set[str] = set()
            for c in own_nodes(fn):
                if isinstance(c, ast.Call) and c.args and norm(c.args[0]) in refs and isinstance(c.func, ast.Name) and "traverse" in c.func.id.lower():
                    for a in list(c.args[1:]) + [k.value for k in c.keywords]:
                        out |= {x.id for x in ast.walk(a) if isinstance(x, ast.Name) and alg.has(x.id)}
            return out

        passes = _pass_calls(tq, roots)
        if len(passes) < 3:
            raise AnalysisError("translateQuery: expected >= 3 passes over the finished algebra, found %s" % sorted(passes))
        rep.rule("C04.ab-a-pattern-kept-beside-the-tree-gets-the-passes-of-the-tree",
                 "where the translator stores a translated group graph pattern (a value computed from translateGroupGraphPattern(...)) through an attribute or item "
                 "assignment on an existing node instead of building it into the tree it returns, the same function makes over it every pass translateQuery makes "
                 "over the finished algebra (%s): the traversals follow the items of the tree and do not reach it. Without them the pattern of EXISTS has no `_vars` and no "
                 "lazy flags: in `?s :p ?x FILTER EXISTS { ?s :q ?y OPTIONAL { ?s :q ?z FILTER(?z = ?x) } FILTER(bound(?z)) }` and `... EXISTS { ?s :q ?y BIND(?x AS ?w) "
                 "FILTER(?w = ?y) }` the substituted ?x is lost and no row is returned" % ", ".join(sorted(passes)), floor=2)
        for q, f in alg.functions():
            for st in own_nodes(f):
                if not (isinstance(st, ast.Assign) and len(st.targets) == 1 and isinstance(st.targets[0], (ast.Attribute, ast.Subscript))):
                    continue
                if not any(isinstance(x, ast.Call) and norm(x.func) == "translateGroupGraphPattern" for x in H.closure_nodes(f, st.value, depth=3)):
                    continue
                t = st.targets[0]
                refs = {norm(t)}
                if isinstance(t, ast.Subscript) and isinstance(t.slice, ast.Constant) and isinstance(t.slice.value, str):
                    refs.add("%s.%s" % (norm(t.value), t.slice.value))  # CompValue: node["k"] is node.k
                if isinstance(st.value, ast.Name):
                    refs.add(st.value.id)
                done = _pass_calls(f, refs)
                # passes made in the very expression that is stored
                for c in ast.walk(st.value):
                    if isinstance(c, ast.Call) and isinstance(c.func, ast.Name) and "traverse" in c.func.id.lower():
                        for a in list(c.args[1:]) + [k.value for k in c.keywords]:
                            done |= {x.id for x in ast.walk(a) if isinstance(x, ast.Name) and alg.has(x.id)}
                missing = sorted(passes - done)
                rep.ob("C04.ab-a-pattern-kept-beside-the-tree-gets-the-passes-of-the-tree", alg, q, st, not missing,
                       "all passes made here" if not missing else
                       "the pattern stored in %s never gets the pass(es) %s that the query's algebra gets: its nodes have no _vars / lazy flags, so a FILTER, BIND, MINUS or "
                       "OPTIONAL condition inside it forgets the variables it should keep (EXISTS { ?s :q ?y BIND(?x AS ?w) FILTER(?w = ?y) } is false for every ?x)" % (norm(t), missing), node=st)

    def _rule_ac(repo: Repo, rep: Report) -> None:
        # ------------------------------------------------------------------ (ac)
        # EXISTS is defined by SUBSTITUTION of the current solution into the pattern (SPARQL 18.6 substitute): inside the pattern the
        # variables of the solution are constants.  The evaluator's notion of a constant is an initial binding: forget() never hides it.
        rep.rule("C04.ac-exists-substitutes-the-solution-as-initial-bindings",
                 "an expression evaluator (operators.py) that evaluates a graph pattern with evalPart does so in a context made by `<...>.thaw(<the solution it was "
                 "called with>)`, and on every path to the evalPart call has stored into that context's `initBindings` a mapping computed from the same solution: a "
                 "binding that is merely thawed in counts as `pushed in from a join` and is hidden again by forget() from the FILTER / BIND / OPTIONAL conditions inside the "
                 "pattern. `?s :p ?x FILTER EXISTS { ?s :q ?y BIND(?x AS ?w) FILTER(?w = ?y) }` then has no solution although :a :p 1; :q 1 matches", floor=1)
        n_ac = 0
        for q, f in op.functions():
            if "." in q:
                continue
            calls = [c for c in own_nodes(f) if isinstance(c, ast.Call) and norm(c.func).split(".")[-1] == "evalPart"]
            if not calls:
                continue
            g = CFG(f)
            for c in calls:
                n_ac += 1
                ok, why = False, ""
                a0 = c.args[0] if c.args else None
                if not isinstance(a0, ast.Name):
                    why = "the context %s is not a local made by thaw()" % (norm(a0)[:40] if a0 is not None else "<none>")
                else:
                    defs = H.reaching_values(op, f, g, c, a0.id)
                    thaws = []
                    for d in defs:
                        v = H.bound_value(d, a0.id) if d is not None else None
                        if isinstance(v, ast.Call) and isinstance(v.func, ast.Attribute) and v.func.attr == "thaw" and len(v.args) == 1 and isinstance(v.args[0], ast.Name):
                            thaws.append((d, H.denotes_param(op, f, g, d, v.args[0].id)))
                        else:
                            thaws.append((d, None))
                    sols = {s for _, s in thaws}
                    if not thaws or None in sols or len(sols) != 1:
                        why = "the context is not `thaw(<the solution parameter>)` on every path"
                    else:
                        sol = sols.pop()
                        stores = []
                        for st in own_nodes(f):
                            for t in H.attr_store_targets(st):
                                if t.attr == "initBindings" and isinstance(t.value, ast.Name) and t.value.id == a0.id and isinstance(st, ast.Assign):
                                    same_ctx = all(any(x is d for d, _ in thaws) for x in H.reaching_values(op, f, g, st, a0.id) if x is not None) and None not in H.reaching_values(op, f, g, st, a0.id)
                                    from_sol = any(isinstance(x, ast.Name) and isinstance(x.ctx, ast.Load) and H.denotes_param(op, f, g, st, x.id) == sol for x in ast.walk(st.value))
                                    if same_ctx and from_sol:
                                        stores.append(g.node_of(st))
                        ok = bool(stores) and g.must_pass_before(g.node_of(c, op), stores)
                        why = "initBindings of the thawed context include the solution" if ok else \
                            "no `%s.initBindings = <... the solution %s ...>` dominates the evaluation of the pattern" % (a0.id, sol)
                rep.ob("C04.ac-exists-substitutes-the-solution-as-initial-bindings", op, q, c, ok,
                       why if ok else why + ": the variables of the current solution are not constants inside the pattern, forget() hides them from the conditions "
                       "evaluated in it (EXISTS { ?s :q ?y OPTIONAL { ?s :q ?z FILTER(?z = ?x) } FILTER(bound(?z)) } is false for every outer ?x)", node=c)
        if not n_ac:
            raise AnalysisError("operators.py: no expression evaluates a graph pattern with evalPart (rule C04.ac anchor vanished)")

    # one rule, one layer (DESIGN §14.2): a rule that loses its anchor on the tree or on one view does not take its neighbours with it
    for f_ in (_rule_z, _rule_aa, _rule_ab, _rule_ac):
        _layer(rep, f_, repo)


_run_before_borrow = run


def run(repo: Repo, rep: Report) -> None:  # noqa: F811
    _layer(rep, _run_before_borrow, repo)
    from vlib.core import borrow

    borrow(repo, rep, "C04", "C15", ('C15.a',))
