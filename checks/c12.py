"""C12 - parsing only adds; blank-node labels are scoped to one parse call
(DESIGN.md §2 C12)."""
from __future__ import annotations

import ast

from vlib.cfg import CFG
from vlib.core import AnalysisError, Repo, Report, canon, norm, own_nodes

EXPLANATION = (
    "Dataflow/lifetime rules over every module under rdflib/plugins/parsers (RDF Patch excluded: its blank-node "
    "labels are store-scoped identifiers by that format's design and it deletes by design) plus Graph.parse: "
    "(a) every BNode(<arg>) site is classified from the data flow of <arg> as generated (per-run unique source), "
    "opt-in (control-dependent on a caller-supplied flag such as preserve_bnode_ids / skolemize / bnode_context) "
    "or document-derived (violation); (b) every label->BNode map is created inside a function of an object that is "
    "constructed per parse() call - never a class attribute, module global or mutable default; (c) parser modules "
    "never call a removing method on the sink graph/dataset, except removing a graph proven empty by a dominating "
    "len(X) == 0 test of the same X; (e) an identifier a parser mints itself carries an intact uuid/random value - a per-process "
    "counter, a source position or a truncated unique value is unique inside one process only and collides in a persistent store; "
    "a parameter that the parser package binds itself is not a caller's opt-in flag; (f) a parse attempt whose failure is swallowed "
    "(try/except that goes on) runs on a scratch graph, never on the target."
)

PARSER_PKGS = ("rdflib.plugins.parsers.", "rdflib.plugins.shared.jsonld.")
EXCLUDED = {"rdflib.plugins.parsers.patch": "RDF Patch: labels are store-scoped identifiers by the format's design; the format deletes by design; not in C12's list of syntaxes"}

GEN_CALLS = {"uuid4", "uuid1", "token_urlsafe", "token_hex", "token_bytes", "getrandbits", "uniqueURI", "_unique_id", "urandom", "_serial_number_generator"}
REMOVERS = {"remove", "remove_graph", "remove_context", "set", "destroy", "clear", "update", "__isub__", "remove_triples"}

# interprocedural classifications that need a who-calls fact; each carries the fact checked on every run
TABLE = {
    ("RDFSink.newBlankNode", "BNode(str(arg[0]).split('#').pop().replace('_', 'b'))"):
        ("generated", "legacy (SYMBOL, uri) tuple form of the N3 store API; every call site passes a Formula/Graph context or None, for which the uuid+counter branch is taken", "newblanknode-args"),
}
# Two rows that used to be here were wrong and hid F74/F75: `Formula.id` = BNode('_:Formula%s' % self.number) (a per-process
# counter) and `Formula.newBlankNode` = BNode(uri.split('#').pop()...) (the unique _genPrefix is cut off by split('#').pop(),
# what is left is a per-process counter + the source position).  Both are unique inside one process only; see rule C12.e.

# sites of rule (a) handed to rule (e): (module name, module, qualified function, enclosing def, call, argument, verdict of (a))
_MINT_SITES: list = []


def _flag_names(mod) -> dict[str, object]:
    """caller-supplied opt-in flags and their DEFAULT value: parameters with a
    constant default (False/None/True) and self.<attr> whose assignments in the
    module are such a constant or such a parameter."""
    params: dict[str, object] = {}
    for q, f in mod.functions():
        args = f.args
        pos = args.args
        defaults = [None] * (len(pos) - len(args.defaults)) + list(args.defaults)
        for a, d in list(zip(pos, defaults)) + list(zip(args.kwonlyargs, args.kw_defaults)):
            if d is not None and isinstance(d, ast.Constant) and (d.value is None or isinstance(d.value, bool)):
                if a.arg in params and params[a.arg] != d.value:
                    params[a.arg] = "?"
                else:
                    params[a.arg] = d.value
    attrs: dict[str, set] = {}
    for q, f in mod.functions():
        for n in own_nodes(f):
            if isinstance(n, (ast.Assign, ast.AnnAssign)) and n.value is not None:
                tg = n.targets if isinstance(n, ast.Assign) else [n.target]
                for t in tg:
                    if isinstance(t, ast.Attribute) and isinstance(t.value, ast.Name):
                        key = "self." + t.attr
                        v = n.value
                        if isinstance(v, ast.Constant) and (v.value is None or isinstance(v.value, bool)) and t.value.id == "self":
                            attrs.setdefault(key, set()).add(("default", v.value))
                        elif isinstance(v, ast.Name) and v.id in params and t.value.id == "self":
                            attrs.setdefault(key, set()).add(("default", params[v.id]))
                        elif isinstance(v, ast.Name) or (isinstance(v, ast.Call) and isinstance(v.func, ast.Attribute) and v.func.attr == "get"):
                            # <obj>.flag = <value supplied by the caller through **args>
                            attrs.setdefault(key, set()).add(("caller", None))
                        else:
                            attrs.setdefault(key, set()).add(("other", None))
    out: dict[str, object] = dict(params)
    for k, vs in attrs.items():
        defaults = {v for kind, v in vs if kind == "default"}
        if len(defaults) == 1 and not any(kind == "other" for kind, _ in vs):
            out[k] = next(iter(defaults))
    return {k: v for k, v in out.items() if v != "?"}


def _eval_under_defaults(test: ast.expr, flags: dict[str, object]):
    """truth value of `test` when every flag has its default; None = not decidable."""
    def val(e):
        if isinstance(e, ast.Name) and e.id in flags:
            return ("v", flags[e.id])
        if isinstance(e, ast.Attribute) and norm(e) in flags:
            return ("v", flags[norm(e)])
        if isinstance(e, ast.Constant) and (e.value is None or isinstance(e.value, bool)):
            return ("v", e.value)
        return None
    if isinstance(test, ast.UnaryOp) and isinstance(test.op, ast.Not):
        r = _eval_under_defaults(test.operand, flags)
        return None if r is None else (not r)
    if isinstance(test, ast.BoolOp):
        rs = [_eval_under_defaults(v, flags) for v in test.values]
        if isinstance(test.op, ast.And):
            if any(r is False for r in rs):
                return False
            return True if all(r is True for r in rs) else None
        if any(r is True for r in rs):
            return True
        return False if all(r is False for r in rs) else None
    if isinstance(test, ast.Compare) and len(test.ops) == 1:
        l, r = val(test.left), val(test.comparators[0])
        if l is None or r is None:
            return None
        op = test.ops[0]
        if isinstance(op, (ast.Is, ast.Eq)):
            return l[1] is r[1] if isinstance(op, ast.Is) else l[1] == r[1]
        if isinstance(op, (ast.IsNot, ast.NotEq)):
            return l[1] is not r[1] if isinstance(op, ast.IsNot) else l[1] != r[1]
        return None
    v = val(test)
    if v is not None:
        return bool(v[1])
    return None


def _gen_attrs(mod) -> set[str]:
    """self.<attr> holding a per-run unique value: assigned from uuid4()/token/... or a counter
    incremented with += 1 next to such an attribute."""
    out = set()
    for q, f in mod.functions():
        for n in own_nodes(f):
            if isinstance(n, (ast.Assign, ast.AnnAssign)) and n.value is not None:
                tg = n.targets if isinstance(n, ast.Assign) else [n.target]
                for t in tg:
                    if isinstance(t, ast.Attribute) and isinstance(t.value, ast.Name) and t.value.id == "self":
                        if any(isinstance(c, ast.Call) and (norm(c.func).split(".")[-1] in GEN_CALLS) for c in ast.walk(n.value)):
                            out.add("self." + t.attr)
    return out


def _contains_gen(e: ast.AST, gen_attrs: set[str]) -> str | None:
    for n in ast.walk(e):
        if isinstance(n, ast.Call) and norm(n.func).split(".")[-1] in GEN_CALLS:
            return norm(n.func)
        if isinstance(n, ast.Attribute) and norm(n) in gen_attrs:
            return norm(n)
    return None


def _under_flag(mod, node: ast.AST, fn: ast.AST, flags: dict[str, object]) -> str | None:
    """The site is reached only when a caller-supplied flag differs from its
    default: it lies in the branch of an `if` that is NOT taken under defaults."""
    child = node
    for p in mod.parents(node):
        if isinstance(p, ast.If):
            r = _eval_under_defaults(p.test, flags)
            if r is not None:
                in_body = any(child is s or any(child is x for x in ast.walk(s)) for s in p.body)
                taken_by_default = p.body if r else p.orelse
                in_default = any(child is s or any(child is x for x in ast.walk(s)) for s in taken_by_default)
                if not in_default:
                    return "`%s` is %s under the default flags" % (norm(p.test), r)
        if isinstance(p, ast.IfExp):
            r = _eval_under_defaults(p.test, flags)
            if r is not None:
                default_arm = p.body if r else p.orelse
                if not any(child is x for x in ast.walk(default_arm)):
                    return "`%s` is %s under the default flags" % (norm(p.test), r)
        if p is fn:
            break
        child = p
    return None


def _label_maps(typed, name, mod) -> set[str]:
    """names (normalised receiver text) of mappings written with BNode-typed values"""
    out = set()
    for q, f in mod.functions():
        for n in own_nodes(f):
            if isinstance(n, ast.Assign):
                for t in n.targets:
                    if isinstance(t, ast.Subscript) and isinstance(t.value, (ast.Attribute, ast.Name)):
                        v = n.value
                        tf = typed.type_of(name, v)
                        if (tf and tf.items == ["rdflib.term.BNode"]) or (isinstance(v, ast.Call) and norm(v.func) in ("BNode", "bNode")):
                            out.add(norm(t.value))
    return out


def mod_parent(mod, node):
    return mod.parent.get(id(node))


def run(repo: Repo, rep: Report) -> None:
    rep.extra["explanation"] = EXPLANATION
    typed = repo.typed
    del _MINT_SITES[:]
    mods = {n: m for n, m in repo.modules.items() if n.startswith(PARSER_PKGS) and n not in EXCLUDED}
    if len(mods) < 8:
        raise AnalysisError("expected >= 8 parser modules, found %s" % sorted(mods))
    rep.info["modules_in_scope"] = sorted(mods)
    rep.info["excluded"] = EXCLUDED

    # ------------------------------------------------------------------ (a)
    rep.rule("C12.a-label-is-not-identity",
             "every BNode(<arg>) in a parser module takes its identity from a per-run generated source or sits "
             "behind a caller-supplied opt-in flag; a label read from the document never becomes the node's identity",
             floor=10)
    rep.rule("C12.a2-who-calls-facts",
             "the who-calls facts that the interprocedural classifications rely on hold on this tree", floor=3)
    n_sites = 0
    used_table = set()
    from vlib import h_c12
    uniq = h_c12.Uniq(repo, typed)
    internal = h_c12.internal_params(repo, typed, mods, {n: _flag_names(m) for n, m in mods.items()})
    rep.info["parameters_bound_by_the_parsers_themselves"] = sorted("%s:%s(%s)" % k for k in internal)
    for name, mod in mods.items():
        flags = _flag_names(mod)
        gattrs = _gen_attrs(mod)
        for q, f in mod.functions():
            if "." in q and isinstance(mod.defs.get(q.rsplit(".", 1)[0]), ast.FunctionDef):
                continue
            rep.analysed("%s:%s" % (mod.rel, q))
            for c in own_nodes(f, include_nested=True):
                if not isinstance(c, ast.Call):
                    continue
                cal = typed.callees(name, c)
                is_bnode = "rdflib.term.BNode.__init__" in cal or (not cal and norm(c.func) in ("BNode", "bNode"))
                if not is_bnode:
                    continue
                n_sites += 1
                args = list(c.args) + [k.value for k in c.keywords if k.arg in (None, "value")]
                where = mod.qual_of(c) or q
                if not args:
                    rep.ob("C12.a-label-is-not-identity", mod, where, c, True, "BNode(): fresh uuid-based identity", node=c)
                    continue
                tkey = {(a, canon(b)): (a, b) for (a, b) in TABLE}.get((where, canon(c)))
                if tkey in TABLE:
                    kind, why, fact = TABLE[tkey]
                    used_table.add(fact)
                    rep.ob("C12.a-label-is-not-identity", mod, where, c, True, "%s (table): %s" % (kind, why), node=c)
                    continue
                # value read back from a label map (whose values are generated BNodes)
                if isinstance(args[0], ast.Name):
                    rhs = [n.value for n in own_nodes(f, include_nested=True) if isinstance(n, ast.Assign)
                           and any(isinstance(t, ast.Name) and t.id == args[0].id for t in n.targets)]
                    lmaps = _label_maps(typed, name, mod)
                    def _is_map_read(v):
                        if isinstance(v, ast.Call) and isinstance(v.func, ast.Attribute) and v.func.attr == "get":
                            return norm(v.func.value) in lmaps
                        if isinstance(v, ast.Subscript):
                            return norm(v.value) in lmaps
                        return False
                    def _from_map(v):
                        if _is_map_read(v):
                            return True
                        # a definition of the local that is itself a freshly minted node (`m[k] = x = BNode()` / `x = BNode()` on the
                        # miss path, `x = m.get(k)` on the hit path): re-wrapping BNode() is as generated as re-wrapping a stored value.
                        # Only the argument-less constructor counts; BNode(<anything>) as a definition is not accepted here.
                        if isinstance(v, ast.Call) and not v.args and not v.keywords:
                            vcal = typed.callees(name, v)
                            return "rdflib.term.BNode.__init__" in vcal or (not vcal and norm(v.func) in ("BNode", "bNode"))
                        return False
                    if rhs and any(_is_map_read(v) for v in rhs) and all(_from_map(v) for v in rhs):
                        rep.ob("C12.a-label-is-not-identity", mod, where, c, True,
                               "mapped: re-wraps the node stored in the label map %s (values are generated BNodes)" % norm(rhs[0])[:40], node=c)
                        continue
                g = _contains_gen(args[0], gattrs)
                if not g:
                    # the same through locals / helper functions / a counter (def-use, vlib.h_c12): generated, not a document label;
                    # whether what was generated is unique ENOUGH is rule (e)
                    st, st_why = uniq.strength(args[0], name, f)
                    g = st_why if st != h_c12.NONE else None
                if g:
                    _MINT_SITES.append((name, mod, where, f, c, args[0], "generated"))
                    rep.ob("C12.a-label-is-not-identity", mod, where, c, True, "generated: argument contains the per-run unique source %s" % g, node=c)
                    continue
                # a parameter that the parser package binds itself (blankNode(uri=self.here(j)) -> ... -> Formula.newBlankNode(uri)) is
                # not an option of the caller of parse(), whatever its default
                flags_here = {k: v for k, v in flags.items() if (name, where, k) not in internal and (name, q, k) not in internal}
                fl = _under_flag(mod, c, f, flags_here)
                if fl:
                    rep.ob("C12.a-label-is-not-identity", mod, where, c, True, "opt-in: reached only when the caller changes a flag (%s)" % fl, node=c)
                    continue
                _MINT_SITES.append((name, mod, where, f, c, args[0], "not-generated"))
                why_not = ("document-derived: the argument %s flows from the parsed text (or a position / counter) with no per-run unique component and no opt-in flag: "
                           "the same label in two documents (or two parses) yields the same blank node" % norm(args[0])[:80])
                # A listed finding is recognised along the value flow.  When the site stands in a private helper all of whose call sites are known
                # and its argument is a function of the helper's parameters, `BNode(<parameters>)` there and `BNode(<actual arguments>)` at each call
                # site are one and the same defect; it is reported in the latter form when that is the form in which it is listed (every call site),
                # else where it stands.  Nothing is accepted by this that is not a listed finding.
                lifted = h_c12.lift_to_callers(repo, name, q, f, c) if where == q else None
                if lifted:
                    known = rep._known()
                    forms = [(cmod, cq, call, sub) for (_cn, cmod, cq, call, sub) in lifted]
                    if all(any(Report._match(k, {"rule": "C12.a-label-is-not-identity", "function": cq, "construct": norm(sub)[:300]}) for k in known)
                           for (_m, cq, _c, sub) in forms):
                        for cmod, cq, call, sub in forms:
                            rep.ob("C12.a-label-is-not-identity", cmod, cq, sub, False,
                                   why_not + " (the construct stands in %s, line %s; shown with the arguments of this call site)" % (where, c.lineno), node=call)
                        continue
                rep.ob("C12.a-label-is-not-identity", mod, where, c, False,
                       "document-derived: the argument %s flows from the parsed text (or a position / counter) with no per-run unique component and no opt-in flag: "
                       "the same label in two documents (or two parses) yields the same blank node" % norm(args[0])[:80], node=c)
    rep.info["bnode_constructor_sites"] = n_sites

    # who-calls facts
    n3 = repo.mod("rdflib.plugins.parsers.notation3")
    # 1. no SinkParser(...) call passes thisDoc / genPrefix
    sp = n3.func("SinkParser.__init__")
    pnames = [a.arg for a in sp.args.args[1:]]
    for need in ("thisDoc", "genPrefix"):
        if need not in pnames:
            raise AnalysisError("SinkParser.__init__ has no parameter %s (table entry stale)" % need)
    nsp = 0
    for name, mod in repo.modules.items():
        for c in ast.walk(mod.tree):
            if isinstance(c, ast.Call) and any(x.endswith("SinkParser.__init__") for x in typed.callees(name, c)):
                nsp += 1
                bad = [k.arg for k in c.keywords if k.arg in ("thisDoc", "genPrefix") or k.arg is None]
                idx = {p: i for i, p in enumerate(pnames)}
                if len(c.args) > min(idx["thisDoc"], idx["genPrefix"]):
                    bad.append("positional")
                rep.ob("C12.a2-who-calls-facts", mod, mod.qual_of(c), c, not bad,
                       "constructor call leaves thisDoc/genPrefix at their defaults: _genPrefix = uniqueURI()" if not bad else
                       "SinkParser constructed with %s: N3 blank-node labels would derive from the document URI + position" % bad, node=c)
    # also the sub-classes' super().__init__ calls
    if nsp < 2:
        raise AnalysisError("expected >= 2 SinkParser construction sites, found %d" % nsp)
    # _genPrefix fallback is uniqueURI()
    fb = [n for n in own_nodes(sp) if isinstance(n, ast.Assign) and norm(n.targets[0]) == "self._genPrefix" and "uniqueURI()" in norm(n.value)]
    rep.ob("C12.a2-who-calls-facts", n3, "SinkParser.__init__", "self._genPrefix = uniqueURI()", bool(fb),
           "fallback prefix is the process-unique URI" if fb else "SinkParser no longer falls back to uniqueURI() for _genPrefix", node=sp)
    # every other binding of _genPrefix comes from the constructor parameters that no call site passes (genPrefix, thisDoc)
    for a in own_nodes(sp):
        if isinstance(a, ast.Assign) and norm(a.targets[0]) == "self._genPrefix" and "uniqueURI()" not in norm(a.value):
            srcs = {norm(x) for x in ast.walk(a.value) if isinstance(x, (ast.Name, ast.Attribute)) and not (isinstance(x, ast.Attribute) and isinstance(mod_parent(n3, x), ast.Attribute))}
            okp = srcs <= {"genPrefix", "self._thisDoc", "thisDoc", "self"}
            rep.ob("C12.a2-who-calls-facts", n3, "SinkParser.__init__", a, okp,
                   "from a constructor parameter that no parser passes" if okp else
                   "the prefix of position-derived blank node ids (here() = _genPrefix + line/column) is taken from %s, which is the same for every parse of a document: `[ ]` nodes at the same line and column of separately parsed documents get the same id and merge" % sorted(srcs - {"self"}), node=a)
    uq = n3.func("uniqueURI")
    cnt = any(isinstance(n, ast.AugAssign) and isinstance(n.op, ast.Add) for n in own_nodes(uq))
    rep.ob("C12.a2-who-calls-facts", n3, "uniqueURI", "counter incremented per call", cnt, "" if cnt else "uniqueURI no longer increments its counter", node=uq)
    # 2. newBlankNode first-argument types
    for name, mod in mods.items():
        for c in ast.walk(mod.tree):
            if isinstance(c, ast.Call) and any(x.endswith("RDFSink.newBlankNode") for x in typed.callees(name, c)):
                a0 = c.args[0] if c.args else None
                ok = True
                txt = "no context argument"
                if a0 is not None:
                    tf = typed.type_of(name, a0)
                    txt = tf.text if tf else "untyped"
                    ok = tf is not None and all(
                        typed.is_subclass(i, "rdflib.graph.Graph") or i.endswith(".Formula") for i in tf.items) and not tf.any
                rep.ob("C12.a2-who-calls-facts", mod, mod.qual_of(c), c, ok,
                       "context argument : %s" % txt if ok else "newBlankNode called with a context of type %s: the (SYMBOL, uri) branch may derive the label from the document" % txt, node=c)
    # 3. Formula.number is a class-level counter incremented on construction
    fi = n3.func("Formula.__init__")
    inc = any(isinstance(n, ast.AugAssign) and norm(n.target) == "Formula.number" and n3.parent.get(id(n)) is fi for n in fi.body)
    nums = [n for n in own_nodes(fi) if isinstance(n, ast.Assign) and norm(n.targets[0]) == "self.number"]
    from_counter = bool(nums) and all(norm(n.value) == "Formula.number" for n in nums)
    rep.ob("C12.a2-who-calls-facts", n3, "Formula.__init__", "Formula.number += 1 (unconditional); self.number = Formula.number", inc and from_counter,
           "formula ids come from the process-wide counter" if inc and from_counter else
           "a formula's number is no longer always taken from the unconditionally incremented process-wide counter (%s): formula identifiers of separate parse calls can coincide and their quoted graphs merge" % [norm(n.value) for n in nums], node=fi)
    # parser plugin instances live for one parse call
    rep.rule("C12.b3-parser-instance-per-call",
             "a parser plugin instance, which owns the label map, does not outlive the parse() call that made it. Every expression outside the parser "
             "modules that can evaluate to an instance made on the spot - `<lookup of a Parser plugin class>()`, also through a local holding the class, "
             "and every call of a function that returns such an expression (fixpoint over the call graph) - is followed to where its value goes: "
             "a local, the receiver of a call, an argument, a `return` are fine; an attribute, a subscript, a global/nonlocal, a container that was not "
             "made by the same call, a parameter default or a module/class-level binding keep it, and then its label->BNode map survives into the next "
             "parse() call. Anchor by role: at least one instantiation lies in Graph.parse or in a function it can call", floor=1)
    pi = h_c12.ParserInstances(repo, typed, lambda n: n.startswith(("rdflib.plugins.parsers.", "rdflib.tools", "rdflib.extras")))
    entry = "rdflib.graph.Graph.parse"
    repo.mod("rdflib.graph").func("Graph.parse")  # the public entry point: a stable anchor
    reach = pi.reachable_from(entry)
    nsites = n_entry = 0
    for name, mod, q, f, e, is_inst in pi.sites():
        nsites += 1
        if is_inst and "%s.%s" % (name, q) in reach:
            n_entry += 1
        rep.analysed("%s:%s" % (mod.rel, q))
        ok, why, shown = pi.destiny(name, mod, f, e)
        rep.ob("C12.b3-parser-instance-per-call", mod, q, shown if isinstance(shown, ast.stmt) else e, ok,
               "a fresh parser instance, %s" % why if ok else
               "the parser instance is %s: its label->BNode map survives into the next parse() call and blank nodes of separate documents merge" % why, node=e)
    rep.info["functions_returning_a_fresh_parser_instance"] = sorted(pi.producers)
    if nsites < 1 or n_entry < 1:
        raise AnalysisError("no parser instantiation site (plugin.get(fmt, Parser)()) found%s" % (
            "" if nsites < 1 else " in Graph.parse or in a function it calls (%d elsewhere)" % nsites))

    # ------------------------------------------------------------------ (b)
    rep.rule("C12.b-label-map-per-parse",
             "every mapping that a parser writes BNode values into is created inside a function (instance attribute "
             "or local), and its owner class is only instantiated inside function bodies (per parse call) - never a "
             "class attribute, module global or mutable default argument shared between parse calls", floor=4)
    for name, mod in mods.items():
        maps: dict[str, ast.AST] = {}
        for q, f in mod.functions():
            for n in own_nodes(f):
                if isinstance(n, ast.Assign):
                    for t in n.targets:
                        if isinstance(t, ast.Subscript) and isinstance(t.value, (ast.Attribute, ast.Name)):
                            # value is BNode-typed?
                            vals = [n.value]
                            isb = False
                            for v in vals:
                                tf = typed.type_of(name, v)
                                if tf and any(i == "rdflib.term.BNode" for i in tf.items) and len(tf.items) == 1:
                                    isb = True
                                if isinstance(v, ast.Call) and norm(v.func) in ("BNode", "bNode"):
                                    isb = True
                            if isb:
                                maps.setdefault(norm(t.value), n)
        for mname, wsite in maps.items():
            wq = mod.qual_of(wsite)
            # creation sites
            creations = []
            attr = mname.split(".", 1)[1] if mname.startswith("self.") else mname
            for n in ast.walk(mod.tree):
                if isinstance(n, (ast.Assign, ast.AnnAssign)) and getattr(n, "value", None) is not None:
                    tg = n.targets if isinstance(n, ast.Assign) else [n.target]
                    for t in tg:
                        if (mname.startswith("self.") and isinstance(t, ast.Attribute) and t.attr == attr) or (isinstance(t, ast.Name) and t.id == attr):
                            creations.append(n)
            in_func = []
            bad = []
            for cst in creations:
                par = mod.parent.get(id(cst))
                encl = None
                for p in [par] + list(mod.parents(par)) if par is not None else []:
                    if isinstance(p, (ast.FunctionDef, ast.ClassDef, ast.Module)):
                        encl = p
                        break
                if isinstance(encl, ast.FunctionDef):
                    in_func.append(cst)
                    # a parameter with a mutable default flowing in?
                    v = cst.value
                    if isinstance(v, ast.Name):
                        args = encl.args
                        defaults = [None] * (len(args.args) - len(args.defaults)) + list(args.defaults)
                        for a, d in zip(args.args, defaults):
                            if a.arg == v.id and isinstance(d, (ast.Dict, ast.List, ast.Call)):
                                bad.append("mutable default argument %s of %s" % (a.arg, encl.name))
                else:
                    if isinstance(cst.value, (ast.Dict, ast.Call, ast.DictComp)) or isinstance(cst, ast.Assign):
                        if not (isinstance(cst, ast.AnnAssign) and cst.value is None):
                            bad.append("created at %s level (line %s)" % (type(encl).__name__.replace("Def", "").lower(), cst.lineno))
            if not creations and not mname.startswith("self."):
                # a parameter (e.g. bnode_context passed by the caller): caller-supplied, opt-in
                rep.ob("C12.b-label-map-per-parse", mod, wq, "map %s" % mname, True, "caller-supplied mapping (parameter)", node=wsite)
                continue
            if not in_func and not bad:
                bad.append("no creation inside a function found")
            # owner class instantiation sites
            owner = wq.split(".")[0] if "." in wq else None
            if owner and mname.startswith("self."):
                full = "%s.%s" % (name, owner)
                for m2n, m2 in repo.modules.items():
                    for c in ast.walk(m2.tree):
                        if isinstance(c, ast.Call):
                            cal = typed.callees(m2n, c)
                            if any(x.endswith(".__init__") and typed.is_subclass(x[: -len(".__init__")], full) for x in cal) and not (
                                    isinstance(c.func, ast.Attribute) and c.func.attr == "__init__"):
                                q2 = m2.qual_of(c)
                                encl = m2.defs.get(q2)
                                if not isinstance(encl, ast.FunctionDef):
                                    bad.append("owner %s instantiated outside a function at %s:%s" % (owner, m2.rel, c.lineno))
            rep.ob("C12.b-label-map-per-parse", mod, wq, "map %s" % mname, not bad,
                   "created per object inside %s; owner instantiated only inside functions" % sorted({mod.qual_of(c) for c in in_func}) if not bad else
                   "label map outlives one parse call: %s" % "; ".join(bad), node=wsite)

    # (b2) a label map lives for the whole document: it is (re)assigned only when the owner is set up
    rep.rule("C12.b2-label-map-document-scoped",
             "the attribute holding a label->BNode map is assigned only in __init__/reset of its owner (once per parse) - the single "
             "table-listed exception is N3's formula scope - so a label repeated anywhere in one document (also across the named graphs "
             "of a TriG/N-Quads/TriX document) denotes one node", floor=4)
    FORMULA_SCOPE = {("rdflib.plugins.parsers.notation3", "SinkParser.node"): "N3 `{ ... }` formula: blank-node labels are scoped to the formula by the N3 semantics (saved and restored around it); Turtle/TriG never take this branch"}
    map_attrs = set()
    for name, mod in mods.items():
        for mname in _label_maps(typed, name, mod):
            if mname.startswith("self."):
                map_attrs.add(mname[5:])
    for name, mod in mods.items():
        for q, f in mod.functions():
            for n in own_nodes(f):
                if isinstance(n, (ast.Assign, ast.AnnAssign)):
                    tg = n.targets if isinstance(n, ast.Assign) else [n.target]
                    for t in tg:
                        if isinstance(t, ast.Attribute) and isinstance(t.value, ast.Name) and t.value.id == "self" and t.attr in map_attrs:
                            meth = q.rsplit(".", 1)[-1]
                            why = None
                            if meth in ("__init__", "reset"):
                                why = "set up once per owner object"
                            elif (name, q) in FORMULA_SCOPE:
                                why = "table: " + FORMULA_SCOPE[(name, q)]
                            rep.ob("C12.b2-label-map-document-scoped", mod, q, n, why is not None,
                                   why or "the label map self.%s is replaced in the middle of a document (%s): the same _:label before and after denotes different nodes" % (t.attr, q), node=n)

    # ------------------------------------------------------------------ (c)
    rep.rule("C12.c-parse-only-adds",
             "no function that parsing enters in a parser module (nor Graph/ConjunctiveGraph/Dataset.parse) reaches a call of a removing "
             "method on a Graph/Store receiver, except remove_graph(X)/remove_context(X) done only when X is empty: an emptiness test of the "
             "same X (len(X) == 0 in any spelling, either branch) guards the call where it stands, or - when the removal was moved into a "
             "private helper and X is what the helper is passed - guards every call of that helper.  One obligation per (entry point, "
             "removing call): a removal that several parsers delegate to one helper is an obligation of each of them",
             floor=2)
    scope = [(n, m, None) for n, m in mods.items()]
    gm = repo.mod("rdflib.graph")
    extra_fns = [gm.func("Graph.parse"), gm.func("ConjunctiveGraph.parse"), gm.func("Dataset.parse")]
    n_add = 0

    def check_fn(name, mod, f, q):
        nonlocal n_add
        entries = None
        for c in own_nodes(f, include_nested=True):
            kind = None
            recv = None
            if isinstance(c, ast.Call) and isinstance(c.func, ast.Attribute):
                recv = c.func.value
                if c.func.attr in ("add", "addN"):
                    tf = typed.type_of(name, recv)
                    if tf and any(typed.is_subclass(i, "rdflib.graph.Graph") for i in tf.items):
                        n_add += 1
                if c.func.attr in REMOVERS:
                    kind = c.func.attr
            elif isinstance(c, ast.AugAssign) and isinstance(c.op, ast.Sub):
                recv = c.target
                kind = "-="
            if kind is None:
                continue
            tf = typed.type_of(name, recv)
            graphish = tf is not None and any(
                typed.is_subclass(i, "rdflib.graph.Graph") or typed.is_subclass(i, "rdflib.store.Store") for i in tf.items)
            if not graphish:
                continue
            where = mod.qual_of(c) or q
            # accepted idiom
            arg = None
            if isinstance(c, ast.Call):
                arg = c.args[0] if c.args else None
            ok = False
            why = "removes from the sink (%s on %s : %s)" % (kind, norm(recv), tf.text if tf else "?")
            if kind in ("remove_graph", "remove_context") and arg is not None:
                target = norm(arg)
                # (the target is not re-assigned between the test and the call: not checked, as before)
                proof = h_c12.removal_of_empty(repo, name, mod, f, c, arg)
                if proof:
                    ok = True
                    why = "removes graph %s only %s: no triple is deleted" % (target, proof)
            # the obligation belongs to every function through which this code is entered from outside (f itself unless it is a
            # private helper all of whose call sites are known)
            if entries is None:
                entries = h_c12.entry_points(repo, name, q, f)
            for emod, eq, chain in entries:
                via = "" if (emod, eq) == (name, q) else "reached from %s: " % " -> ".join(chain[:-1])
                rep.ob("C12.c-parse-only-adds", mod, where, c, ok, via + (why if ok else why + ": parsing would delete pre-existing content"),
                       node=c, path=chain if via else None)

    for name, mod, _ in scope:
        for q, f in mod.functions():
            if "." in q and isinstance(mod.defs.get(q.rsplit(".", 1)[0]), ast.FunctionDef):
                continue
            check_fn(name, mod, f, q)
    for f in extra_fns:
        check_fn("rdflib.graph", gm, f, gm.qual_of(f))
        rep.analysed("rdflib/graph.py:" + gm.qual_of(f))
    rep.info["sink_add_call_sites"] = n_add
    if n_add < 10:
        raise AnalysisError("expected >= 10 add/addN call sites on Graph-typed receivers in parser modules, found %d (typed resolution lost?)" % n_add)


from vlib.core import layer as _layer  # noqa: E402

_run_base = run


def run(repo: Repo, rep: Report) -> None:  # noqa: F811
    _layer(rep, _run_base, repo)
    from vlib import memo

    rep.rule("C12.d-label-map-keyed-by-the-label-alone",
             "a per-document map from blank-node labels to BNodes (a memo of a parser class whose stored value is a BNode) is keyed by the label as read from the document: the key "
             "expression does not depend on any attribute of the parser (current base IRI, current graph, position ...). A key that mixes in parser state splits one label into several "
             "nodes inside one document (rdf:nodeID under a changing xml:base) or merges labels of different scopes", floor=3)
    for modname in sorted(m for m in repo.modules if m.startswith("rdflib.plugins.parsers.")):
        mod = repo.mod(modname)
        for n in ast.walk(mod.tree):
            if not isinstance(n, ast.ClassDef):
                continue
            for site in memo.memo_sites(n):
                f = site["fn"]
                v = site["value"]
                is_bnode = (isinstance(v, ast.Call) and norm(v.func) == "BNode") or (isinstance(v, ast.Name) and any(
                    isinstance(a, ast.Assign) and any(isinstance(t, ast.Name) and t.id == v.id for t in a.targets) and isinstance(a.value, ast.Call) and norm(a.value.func) == "BNode" for a in own_nodes(f)))
                if not is_bnode:
                    continue
                deps = memo._slice_attrs(f, [site["key"]], skip=site["value"]) - {site["attr"]}
                # a dependency on a METHOD of the class counts only through the data attributes that method (or a property it reads) reads: a method
                # that reads no attribute of self (`convert`) is a pure function of the document text, `absolutize` reads the current element's base
                meths = site["methods"]
                props = {q.name: q for q in n.body if isinstance(q, ast.FunctionDef)}
                data_deps = set()
                work = [(d, 0) for d in deps]
                while work:
                    d, depth = work.pop()
                    target = props.get(d) or props.get("get_" + d)
                    if target is None:
                        # `x = property(get_x)` style
                        for st in n.body:
                            if isinstance(st, ast.Assign) and isinstance(st.targets[0], ast.Name) and st.targets[0].id == d and isinstance(st.value, ast.Call) and norm(st.value.func) == "property" and st.value.args:
                                target = props.get(norm(st.value.args[0]))
                    if target is None:
                        data_deps.add(d)
                    elif depth < 3:
                        for a in ast.walk(target):
                            if isinstance(a, ast.Attribute) and isinstance(a.value, ast.Name) and a.value.id == "self" and isinstance(a.ctx, ast.Load):
                                work.append((a.attr, depth + 1))
                deps = data_deps
                rep.ob("C12.d-label-map-keyed-by-the-label-alone", mod, "%s.%s" % (n.name, site["method"]), "self.%s[%s]" % (site["attr"], norm(site["key"])), not deps,
                       "key is the label itself" if not deps else
                       "the key is computed with self.%s: the same label denotes different nodes depending on parser state (e.g. one rdf:nodeID used under two xml:base values in one document yields two blank nodes)" % ", self.".join(sorted(deps)), node=site["store"])


_run_base2 = run


def run(repo: Repo, rep: Report) -> None:  # noqa: F811
    _layer(rep, _run_base2, repo)
    from vlib import h_c12

    typed = repo.typed

    # ------------------------------------------------------------------ (e)
    # F74 / F75: an identifier minted by the parser must be unique over runs, not only inside one process: the sink may be a
    # persistent store that already holds what an earlier process parsed.
    rep.rule("C12.e-minted-id-unique-across-runs",
             "every blank-node identifier a parser mints itself (a BNode(<arg>) that is neither behind a caller-supplied opt-in flag nor a re-wrapped "
             "map value) carries, INTACT, a value that differs between any two parse calls of any two processes: uuid4()/secrets/urandom, directly or "
             "through an attribute/local every binding of which is such a value, combined only by concatenation/formatting/replace. A per-process "
             "counter (`Formula.number += 1`, `nextu += 1`), a source position, or a unique value that went through split()/pop()/slicing (its unique "
             "part may be the one cut off) is unique inside one process only: parse `{ :a :b :c } :p :o .` into a persistent store in two runs and "
             "`_:Formula2` of the first run is the same graph name as `_:Formula2` of the second - the two quoted graphs merge", floor=5)
    uq = h_c12.Uniq(repo, typed)
    # a class (or module-level function) that mints generated identifiers somewhere: every BNode(<arg>) of it that rule (a) did not
    # find behind an opt-in flag is a minting site, also one whose argument has lost its generated part altogether
    owner = lambda where: where.rpartition(".")[0] or where  # noqa: E731
    minters = {(name, owner(where)) for (name, mod, where, f, c, arg, verdict) in _MINT_SITES if verdict == "generated"}
    for (name, mod, where, f, c, arg, verdict) in list(_MINT_SITES):
        s, why = uq.strength(arg, name, f)
        if verdict != "generated" and s == h_c12.NONE and (name, owner(where)) not in minters:
            continue  # nothing generated in it or near it: a document label, rule (a) reports it
        rep.ob("C12.e-minted-id-unique-across-runs", mod, where, c, s == h_c12.STRONG,
               "carries %s intact" % why if s == h_c12.STRONG else
               "the only varying part of the identifier is unique inside one process at most (%s): the same identifier is minted again by the next process "
               "that parses into the same persistent store, and blank nodes / quoted graphs of separately parsed documents merge" % why, node=c)

    # ------------------------------------------------------------------ (f)
    # F120: a parser adds as it reads; when it fails, what it had read is already in the sink.
    rep.rule("C12.f-abandoned-parse-attempt-on-scratch-graph",
             "a parse call (Graph.parse / Parser.parse and overrides, or .parse() on a receiver of unknown type) whose failure is swallowed - it sits in "
             "the body of a `try` one of whose handlers does not re-raise on every path (pass / continue / return / fall through to another attempt) - "
             "parses into a graph constructed on the spot with its own store, never into a graph the function was given: a failed attempt has already added "
             "the triples it read. SPARQL `LOAD <d>` with d = `[] <p> <o> . { <a> <b> <c> } <q> <r> .`: the Turtle attempt adds `_:b1 <p> <o>` and fails at "
             "`{`, the N3 attempt that follows adds `_:b2 <p> <o>`; the target ends up with two blank nodes where the document has one, i.e. not the merge "
             "of the old content and the document", floor=2)
    graph_parse = set(typed.overrides("rdflib.graph.Graph.parse"))
    parser_parse = set(typed.overrides("rdflib.parser.Parser.parse"))
    if "rdflib.graph.Graph.parse" not in graph_parse or len(parser_parse) < 5:
        raise AnalysisError("Graph.parse / Parser.parse overrides not resolved (%d / %d)" % (len(graph_parse), len(parser_parse)))
    n_try = 0
    for name, mod in repo.modules.items():
        for q, f in mod.functions():
            for t in own_nodes(f):
                if not isinstance(t, ast.Try) or not t.handlers:
                    continue
                calls = []
                stack = list(t.body)
                while stack:
                    n = stack.pop()
                    if isinstance(n, (ast.FunctionDef, ast.AsyncFunctionDef, ast.ClassDef, ast.Lambda)):
                        continue
                    if isinstance(n, ast.Call) and isinstance(n.func, ast.Attribute) and n.func.attr == "parse":
                        calls.append(n)
                    stack.extend(ast.iter_child_nodes(n))
                for c in calls:
                    cal = set(typed.callees(name, c))
                    rtf = typed.type_of(name, c.func.value)
                    sink = None
                    if cal & graph_parse:
                        # bound call g.parse(...) or unbound Class.parse(g, ...)
                        unbound = rtf is not None and rtf.text.startswith("def ")
                        sink = (c.args[0] if c.args else None) if unbound else c.func.value
                    elif cal & parser_parse:
                        sink = c.args[1] if len(c.args) > 1 else next((k.value for k in c.keywords if k.arg in ("sink", "graph")), None)
                    elif not cal and (rtf is None or rtf.any):
                        sink = c.func.value  # receiver of unknown type: may be a graph
                    else:
                        continue  # xml.sax / json / Result parsers: not a parse into a graph
                    n_try += 1
                    sw = [h for h in t.handlers if h_c12.swallows(h)]
                    where = mod.qual_of(c) or q
                    if not sw:
                        rep.ob("C12.f-abandoned-parse-attempt-on-scratch-graph", mod, where, c, True,
                               "every handler of the enclosing try re-raises: the failure is not hidden from the caller", node=c)
                        continue
                    encl = mod.defs.get(where) if isinstance(mod.defs.get(where), (ast.FunctionDef, ast.AsyncFunctionDef)) else f
                    fresh, why = (False, "sink argument not found") if sink is None else h_c12.fresh_graph(sink, name, encl, typed)
                    rep.ob("C12.f-abandoned-parse-attempt-on-scratch-graph", mod, where, c, fresh,
                           "the attempt whose failure is swallowed runs on a scratch graph (%s)" % why if fresh else
                           "`except %s` swallows the failure of a parse into %s (%s): the triples (and fresh blank nodes) the failed attempt had already added stay "
                           "in that graph while the code goes on to the next attempt / returns normally" % (
                               norm(sw[0].type) if sw[0].type is not None else "", norm(sink)[:40] if sink is not None else "?", why), node=c)
    if n_try < 2:
        raise AnalysisError("expected >= 2 parse calls inside try statements (Graph.parse -> parser.parse, QueryContext.load), found %d" % n_try)


_run_base3 = run

COMPARE = "rdflib.compare"
CANONICAL_FORM = "_TripleCanonicalizer._canonicalize_bnodes"  # produces the canonical triples from a node -> label map


def run(repo: Repo, rep: Report) -> None:  # noqa: F811
    _layer(rep, _run_base3, repo)
    import re

    from vlib import h_c12

    typed = repo.typed
    rep.extra["explanation"] = EXPLANATION + (
        " (g, h) The last clause of the property ('the same document parsed into two fresh graphs gives isomorphic graphs') is observable only "
        "through rdflib.compare, whose digest must not depend on the blank-node ids a parse happened to generate: the search over individuations "
        "may skip a candidate only on the strength of a VERIFIED symmetry - every entry written into the map that the skip test reads is "
        "dominated by the comparison of the canonical triples under the two labelings, and two colorings are never paired by list position."
    )
    cm = repo.mod(COMPARE)
    cm.func(CANONICAL_FORM)  # anchor
    canonical_full = "%s.%s" % (COMPARE, CANONICAL_FORM)

    # ------------------------------------------------------------------ (g)
    # F187: skipping a candidate of the individuation search is sound only if the candidate is the image of a visited one under an
    # automorphism; a node pairing derived from two discrete colorings IS an automorphism iff both labelings give the same canonical triples.
    rep.rule("C12.g-search-pruning-only-by-verified-symmetry",
             "in rdflib.compare, a mapping that makes the canonical-labelling search skip a candidate (a `continue` whose test reads the mapping) is "
             "written only where both labelings it was derived from have been compared and found to give the same canonical triples: every statement "
             "of the function that builds the mapping which stores an entry is reachable only through the 'equal' side of an ==/!= test between two "
             "different values that are both computed with _canonicalize_bnodes. Without the test a pairing that is not a symmetry prunes candidates "
             "that are not equivalent, the labelling chosen depends on iteration order, i.e. on the generated blank-node ids: the 18-line N-Triples "
             "document of F187 (two copies of a two-cell list with equal members plus two copies of the chain _:x q _:y . _:y p _:z . _:z p _:z . "
             "_:z p <b>) parsed into two fresh graphs gave graphs that isomorphic() called different in 4 runs of 10", floor=1)
    builders = h_c12.pruning_builders(repo, typed, COMPARE)
    if not builders:
        raise AnalysisError("rdflib.compare: no loop that skips a candidate on the strength of a mapping built by a function of the module "
                            "(the symmetry pruning of _TripleCanonicalizer._traces) found")
    rep.info["search_pruning_maps"] = sorted({"%s <- %s" % (q, full) for q, _, full, _ in builders})
    built_by: dict[str, ast.AST] = {}
    for q, cont, full, call in builders:
        built_by.setdefault(full, cm.func(full[len(COMPARE) + 1:]))
        rep.analysed("%s:%s" % (cm.rel, q))
    for full, fn in sorted(built_by.items()):
        bq = full[len(COMPARE) + 1:]
        rep.analysed("%s:%s" % (cm.rel, bq))
        stores = h_c12.mapping_stores(fn)
        if not stores:
            raise AnalysisError("%s: no statement that writes an entry of the mapping it returns (unmodelled way of building the pruning map)" % bq)
        guards = h_c12.equality_guards(repo, typed, COMPARE, fn, canonical_full)
        g = CFG(fn)
        gmap = {g.by_ast[id(n)]: kind for kind, n in guards.values() if id(n) in g.by_ast}
        for st, mname in stores:
            bad = h_c12.reached_without_equality(g, gmap, g.node_of(st, cm))
            rep.ob("C12.g-search-pruning-only-by-verified-symmetry", cm, bq, st, not bad,
                   "reached only after `%s` found the canonical triples of both labelings equal" % norm(next(iter(guards.values()))[1].test)[:120] if not bad else
                   "the entry is written into the pruning map %s without the two labelings having been compared (%s): a pairing of the nodes of two "
                   "discrete colorings that is not an automorphism makes the search skip candidates that are not equivalent to a visited one, and the "
                   "digest of a graph then depends on its blank-node ids - two parses of one document are reported as not isomorphic" % (
                       mname, "no ==/!= test between two values computed with _canonicalize_bnodes in this function" if not guards else
                       "the test `%s` does not dominate it on its 'equal' side" % norm(next(iter(guards.values()))[1].test)[:80]), node=st)

    # ------------------------------------------------------------------ (h)
    # F187, other half: the order of the Color objects in a coloring is the order in which refinement happened to split them (set iteration,
    # i.e. blank-node ids); the i-th colour of one coloring and the i-th colour of another have nothing to do with each other.
    rep.rule("C12.h-colorings-not-paired-by-position",
             "no function of rdflib.compare pairs two colorings position by position: no zip() takes a list[Color] (or unpacks a list[list[Color]]) "
             "that is not sorted(...) first. Colours correspond by their hash_color(), not by their index in the list; `zip(*colorings)` grouped "
             "unrelated nodes into one orbit (same F187 input)", floor=1)
    color_list = re.compile(r"^(builtins\.)?list\[(builtins\.)?list\[rdflib\.compare\.Color\]\]$|^(builtins\.)?list\[rdflib\.compare\.Color\]$")
    bad_zips: dict[str, list[ast.AST]] = {}
    n_zip = 0
    for q, f in cm.functions():
        for c in own_nodes(f):
            if not isinstance(c, ast.Call):
                continue
            cal = typed.callees(COMPARE, c)
            if not (any(x.startswith(("builtins.zip.", "itertools.zip_longest.")) for x in cal) or (not cal and norm(c.func) in ("zip", "zip_longest", "itertools.zip_longest"))):
                continue
            n_zip += 1
            for a in c.args:
                e = a.value if isinstance(a, ast.Starred) else a
                vals = [e] if not isinstance(e, ast.Name) else (h_c12.local_values(f, e.id) or [e])
                if all(isinstance(v, ast.Call) and norm(v.func) == "sorted" for v in vals):
                    continue
                tf = typed.type_of(COMPARE, e)
                if tf is not None and color_list.match(tf.text.replace(" | None", "")):
                    bad_zips.setdefault(q, []).append(c)
                    break
    for full, fn in sorted(built_by.items()):
        bq = full[len(COMPARE) + 1:]
        zs = bad_zips.pop(bq, [])
        rep.ob("C12.h-colorings-not-paired-by-position", cm, bq, zs[0] if zs else "no zip() over colorings", not zs,
               "the nodes of the two colorings are not matched by list position" if not zs else
               "`%s` pairs the colours of independently refined colorings by their list position; the nodes grouped into one orbit need not have the "
               "same colour, so the search skips candidates that are not equivalent and the digest depends on blank-node ids" % norm(zs[0])[:80],
               node=zs[0] if zs else fn)
    rep.info["zip_calls_in_rdflib_compare"] = n_zip
    for q, zs in sorted(bad_zips.items()):
        for z in zs:
            rep.ob("C12.h-colorings-not-paired-by-position", cm, q, z, False,
                   "`%s` pairs the colours of colorings by their list position, which carries no meaning (it follows set iteration order, i.e. blank-node ids)" % norm(z)[:80], node=z)


_run_base4 = run


def run(repo: Repo, rep: Report) -> None:  # noqa: F811
    _layer(rep, _run_base4, repo)
    import re

    from vlib import h_c12

    typed = repo.typed
    rep.extra["explanation"] = rep.extra["explanation"] + (
        " (i-l) The same search decides which leaf labelling wins: a colouring that was individuated is refined before anything else reads it; the "
        "score by which a loop keeps the best branch is computed from that iteration's branch; a branch is dropped only when it is strictly "
        "worse than a kept one or has the same canonical triples; and a labelling is never chosen by its position in a list of labellings."
    )
    cm = repo.mod(COMPARE)
    canonical_full = "%s.%s" % (COMPARE, CANONICAL_FORM)
    cls = CANONICAL_FORM.rpartition(".")[0]
    individuate_full = "%s.%s._individuate" % (COMPARE, cls)
    refine_full = "%s.%s._refine" % (COMPARE, cls)
    cm.func("%s._individuate" % cls)  # anchors
    cm.func("%s._refine" % cls)
    colorings = re.compile(r"^(builtins\.)?list\[(builtins\.)?list\[rdflib\.compare\.Color\]\]$")

    # ------------------------------------------------------------------ (i)
    # F306, third part: after a node was split off its colour, the colouring is not equitable until it was refined against the new colour
    rep.rule("C12.i-individuated-coloring-refined-before-use",
             "in rdflib.compare, a list of colours to which the result of _individuate() was appended is read by nothing but the first argument "
             "of _refine() until it is bound again: the individuation removes the node from its colour in place, and only _refine propagates that "
             "split to the neighbours. _experimental_path() refines against the colours it individuates itself only; started from the unrefined list it "
             "never propagates the candidate's individuation, its leaf says nothing about the candidate, no automorphism is found from it and no "
             "candidate is pruned: the graph of k disjoint triangles _:a p _:b . _:b p _:c . _:c p _:a (x k), parsed twice, could not be compared "
             "in reasonable time (exponential in k)", floor=2)
    sites = h_c12.individuated_appends(repo, typed, COMPARE, individuate_full)
    for q, f, g, st, lname in sites:
        rep.analysed("%s:%s" % (cm.rel, q))
        bad = []
        for u in h_c12.uses_before_rebinding(g, g.node_of(st, cm), lname):
            if u is st.value.func.value:
                continue  # the append itself, met again on the way round a loop: rebinding comes first or another use is reported
            p = next(cm.parents(u))
            if not (isinstance(p, ast.Call) and p.args and p.args[0] is u and h_c12._resolves_to(typed, COMPARE, p, refine_full)):
                bad.append((u, p))
        rep.ob("C12.i-individuated-coloring-refined-before-use", cm, q, st, not bad,
               "every later read of the list is `_refine(<list>, ...)`" if not bad else
               "the list with the freshly individuated colour is read by `%s` (line %s) without having been refined: the split of the individuated "
               "node is not propagated to its neighbours in what that code sees" % (norm(bad[0][1])[:80], getattr(bad[0][0], "lineno", "?")), node=st)

    # ------------------------------------------------------------------ (j)
    # F306, second part: `color_score = f(refined_coloring)` in the recursion loop read a variable of the loop BEFORE it
    rep.rule("C12.j-branch-score-computed-from-the-branch",
             "in rdflib.compare, where a for loop keeps the best of its items (`if B is None or S > B: B = S; chosen = ...`), the score S that "
             "reaches the test is bound inside the loop from the loop's own item (directly or through locals bound in the body). A score that is "
             "the same in every iteration makes the loop keep its first item whatever it is; the order of the items follows set iteration over "
             "blank nodes, so the labelling chosen - and with it the digest and the answer of isomorphic() - depends on the generated ids: one "
             "document whose blank nodes need two levels of individuation (F187's 18 lines) parsed into two fresh graphs compared unequal for "
             "about half of the id assignments", floor=2)
    n_best = 0
    for q, f in cm.functions():
        tests = h_c12.best_of_tests(cm, f)
        if not tests:
            continue
        g = CFG(f)
        rep.analysed("%s:%s" % (cm.rel, q))
        for loop, ifst, score, best in tests:
            n_best += 1
            ok = h_c12.depends_on_iteration(g, loop, g.node_of(ifst, cm), score.id)
            rep.ob("C12.j-branch-score-computed-from-the-branch", cm, q, ifst.test, ok,
                   "the score is computed in the loop body from `%s`" % norm(loop.target) if ok else
                   "the score `%s` compared here is not computed from the item `%s` of the loop `for ... in %s`: it has the same value for every "
                   "branch, the first branch always wins" % (score.id, norm(loop.target), norm(loop.iter)[:40]), node=ifst)

    # ------------------------------------------------------------------ (k)
    # F306, first part: equally scored candidates were dropped when the SET of colour keys of their experimental leaves was equal
    rep.rule("C12.k-branch-dropped-only-if-worse-or-canonically-equal",
             "in rdflib.compare, every way through one iteration of a loop that collects branches of the search (it stores into a list[list[Color]]) "
             "which stores nothing - the branch is dropped - leaves some `if` on a side that justifies it: the strict side of an order test between "
             "two scores, or the 'equal' side of an ==/!= (either side of an order test) between two different values both computed with "
             "_canonicalize_bnodes, i.e. the canonical triples the branch leads to are those of a branch that is kept. The `continue` of rule (g) "
             "is the third way. Equality of anything weaker (the set of (size, colour hash) keys of an experimental leaf) does not make two "
             "branches equivalent: dropping one of them makes the result depend on which came first, i.e. on blank-node ids (same input as (j))",
             floor=2)
    g_continues = [c for _, c, _, _ in h_c12.pruning_builders(repo, typed, COMPARE)]
    n_loops = 0
    for q, f in cm.functions():
        loops = [n for n in own_nodes(f) if isinstance(n, (ast.For, ast.AsyncFor))]
        g = canon_ = None
        for loop in loops:
            keeps = h_c12.keep_statements(typed, COMPARE, loop, colorings)
            if not keeps:
                continue
            if g is None:
                g = CFG(f)
                canon_ = h_c12.Canonical(repo, typed, COMPARE, f, g, canonical_full)
            n_loops += 1
            rep.analysed("%s:%s" % (cm.rel, q))
            path = h_c12.unjustified_drop(g, cm, canon_, loop, keeps, g_continues)
            what = "for %s in %s" % (norm(loop.target), norm(loop.iter))
            # the test to show: the last one on the way that compares two computed values (the one that stands for "equivalent to a kept branch")
            shown = [t for t in (path or []) if any(
                isinstance(c, ast.Compare) and not isinstance(c.ops[0], (ast.Is, ast.IsNot, ast.In, ast.NotIn))
                and not any(isinstance(o, ast.Constant) for o in [c.left] + c.comparators) for c in ast.walk(t.test))] or (path or [])
            rep.ob("C12.k-branch-dropped-only-if-worse-or-canonically-equal", cm, q, what, path is None,
                   "every iteration that keeps nothing passes a strict order test or an equality of canonical triples" if path is None else
                   "an iteration can end without the branch being kept and without any test that makes it worse than, or canonically equal to, a kept "
                   "one; the last comparison on that way is `%s`" % (norm(shown[-1].test)[:100] if shown else "none"), node=shown[-1] if shown else loop)

    # ------------------------------------------------------------------ (l)
    # F306, first part, the other end: `return discrete[0]`
    rep.rule("C12.l-labelling-not-chosen-by-position",
             "no function of rdflib.compare takes an element of a list[list[Color]] by a constant index, by pop() or by next(iter()), and a "
             "max()/min()/sorted() over such a list has a key= that is computed with _canonicalize_bnodes: the order of a list of candidate labellings "
             "is the order in which candidates were met (set iteration over blank nodes), so `return discrete[0]` returned a different labelling for "
             "a different assignment of ids when several leaves were left (same input as (j))", floor=2)
    per_fn: dict[str, list] = {}
    bad_pick: dict[str, list] = {}
    for q, f in cm.functions():
        for n in own_nodes(f):
            if isinstance(n, ast.Name) and isinstance(n.ctx, ast.Load):
                tf = typed.type_of(COMPARE, n)
                if tf is None or not colorings.match(tf.text.replace(" | None", "")):
                    continue
                per_fn.setdefault(q, []).append(n)
                p = next(cm.parents(n))
                if isinstance(p, ast.Subscript) and p.value is n and isinstance(p.ctx, ast.Load) and not isinstance(p.slice, ast.Slice):
                    idx = p.slice
                    if isinstance(idx, ast.UnaryOp) and isinstance(idx.operand, ast.Constant):
                        idx = idx.operand
                    if isinstance(idx, ast.Constant):
                        bad_pick.setdefault(q, []).append((p, "takes the element at a fixed position"))
                elif isinstance(p, ast.Attribute) and p.attr == "pop" and isinstance(next(cm.parents(p)), ast.Call):
                    bad_pick.setdefault(q, []).append((next(cm.parents(p)), "takes the element at a fixed position"))
                elif isinstance(p, ast.Call) and n in p.args and isinstance(p.func, ast.Name) and p.func.id in ("iter", "max", "min", "sorted"):
                    if p.func.id == "iter":
                        pp = next(cm.parents(p))
                        if isinstance(pp, ast.Call) and norm(pp.func) == "next":
                            bad_pick.setdefault(q, []).append((pp, "takes the first element"))
                        continue
                    key = next((k.value for k in p.keywords if k.arg == "key"), None)
                    kfn = None
                    if isinstance(key, ast.Lambda):
                        kfn = key
                    elif isinstance(key, ast.Attribute) and isinstance(key.value, ast.Name) and key.value.id == "self":
                        owner = q.rpartition(".")[0]
                        kfn = cm.defs.get("%s.%s" % (owner, key.attr))
                    elif isinstance(key, ast.Name):
                        kfn = cm.defs.get(key.id)
                    ok = kfn is not None and any(
                        isinstance(x, ast.Call) and (canonical_full in typed.callees(COMPARE, x) or h_c12.reaches_fn(repo, typed, COMPARE, x, canonical_full))
                        for x in ast.walk(kfn))
                    if not ok:
                        bad_pick.setdefault(q, []).append((p, "orders the labellings by %s, not by their canonical triples" % (
                            "`%s`" % norm(key)[:40] if key is not None else "comparing lists of Color objects")))
    for q in sorted(per_fn):
        rep.analysed("%s:%s" % (cm.rel, q))
        bs = bad_pick.get(q, [])
        if not bs:
            rep.ob("C12.l-labelling-not-chosen-by-position", cm, q, "no positional choice among labellings", True,
                   "%d read(s) of a list of labellings, none by position" % len(per_fn[q]), node=per_fn[q][0])
        for b, why in bs:
            rep.ob("C12.l-labelling-not-chosen-by-position", cm, q, b, False,
                   "`%s` %s; which labelling that is depends on the iteration order over blank nodes, i.e. on their generated ids" % (norm(b)[:60], why), node=b)
    rep.info["compare_best_of_loops"] = n_best
    rep.info["compare_branch_collecting_loops"] = n_loops
