"""C09 - Literal <-> Python value mapping: table consistency (DESIGN.md §2 C09)."""
from __future__ import annotations

import ast
import datetime as _dt
import decimal as _dec
import fractions as _fr

from vlib import truthy
from vlib.core import AnalysisError, Repo, Report, norm, own_nodes

EXPLANATION = (
    "(a) first-match order of _GenericPythonToXSDRules respects subclassing: no entry's Python type is a subclass of an earlier "
    "entry's type with a different mapping (bool before int, datetime before date, Duration before timedelta); (b) every generic "
    "rule's datatype has an entry in XSDToPython whose converter produces that Python type (the type itself, or a parse function "
    "whose return annotation / name agrees); (c) the keys of _check_well_formed_types are datatypes that have a converter, and each "
    "checker is the one named for its datatype; (d) value-space equality/ordering code in Literal never tests a Python value "
    "(`.value`, which is falsy for 0, 0.0, False, '') through truthiness to mean 'no value'. Lexical<->value faithfulness over the "
    "value spaces and idempotence of normalisation are runtime-value properties and not decided."
)

# stdlib facts (these are Python's own classes, not rdflib code)
STD = {"str": str, "float": float, "bool": bool, "int": int, "long_type": int, "Decimal": _dec.Decimal, "datetime": _dt.datetime, "date": _dt.date,
       "time": _dt.time, "timedelta": _dt.timedelta, "Fraction": _fr.Fraction, "bytes": bytes}
# converter -> python type name it produces, when it is not the type itself
CONVERTER_RESULT = {"parse_time": "time", "parse_xsd_date": "date", "parse_datetime": "datetime", "parse_xsd_duration": "Duration|timedelta",
                    "_parseBoolean": "bool", "_parseXML": "xml.dom.minidom.Document", "_parse_html": "xml.dom.minidom.DocumentFragment"}


def _const_str(mod, e: ast.AST) -> str | None:
    """local name of a datatype expression: URIRef(_XSD_PFX + "x") or a constant name bound to such"""
    if isinstance(e, ast.Call) and norm(e.func) == "URIRef" and e.args:
        a = e.args[0]
        if isinstance(a, ast.BinOp) and isinstance(a.right, ast.Constant):
            return norm(a.left) + "+" + a.right.value
        if isinstance(a, ast.Constant):
            return a.value
    if isinstance(e, ast.Name):
        for st in mod.tree.body:
            if isinstance(st, (ast.Assign, ast.AnnAssign)):
                t = st.targets[0] if isinstance(st, ast.Assign) else st.target
                if isinstance(t, ast.Name) and t.id == e.id and getattr(st, "value", None) is not None:
                    return _const_str(mod, st.value)
    if isinstance(e, ast.Constant) and e.value is None:
        return None
    return norm(e)


def _table(mod, name: str) -> ast.AST:
    for st in mod.tree.body:
        if isinstance(st, (ast.Assign, ast.AnnAssign)):
            t = st.targets[0] if isinstance(st, ast.Assign) else st.target
            if isinstance(t, ast.Name) and t.id == name and getattr(st, "value", None) is not None:
                return st.value
    raise AnalysisError("table %s vanished from term.py" % name)


def run(repo: Repo, rep: Report) -> None:
    rep.extra["explanation"] = EXPLANATION
    tm = repo.mod("rdflib.term")
    xd = repo.mod("rdflib.xsd_datetime")

    gen = _table(tm, "_GenericPythonToXSDRules")
    if not isinstance(gen, ast.List) or len(gen.elts) < 10:
        raise AnalysisError("_GenericPythonToXSDRules is not a list display of >= 10 entries")
    entries = []
    for e in gen.elts:
        if not (isinstance(e, ast.Tuple) and len(e.elts) == 2 and isinstance(e.elts[1], ast.Tuple)):
            raise AnalysisError("unmodelled rule entry %s" % norm(e))
        entries.append((norm(e.elts[0]), norm(e.elts[1].elts[0]), _const_str(tm, e.elts[1].elts[1]), e))
    # rdflib's own Duration class: bases from the AST
    dur = xd.cls("Duration")
    dur_bases = [norm(b) for b in dur.bases]

    def is_sub(a: str, b: str) -> bool:
        if a == b:
            return True
        if a in STD and b in STD:
            return issubclass(STD[a], STD[b])
        if a == "Duration":
            return b in dur_bases or any(x in STD and b in STD and issubclass(STD[x], STD[b]) for x in dur_bases)
        return False

    # ------------------------------------------------------------------ (a)
    rep.rule("C09.a-first-match-order",
             "in _GenericPythonToXSDRules (first isinstance match wins) no entry's type is a subclass of an earlier entry's type unless both map identically", floor=10)
    for j, (tj, cj, dj, ej) in enumerate(entries):
        shadow = None
        for i in range(j):
            ti, ci, di, _ = entries[i]
            if is_sub(tj, ti) and (ci, di) != (cj, dj):
                shadow = (ti, di)
                break
        rep.ob("C09.a-first-match-order", tm, "_GenericPythonToXSDRules", "%s -> %s" % (tj, dj), shadow is None,
               "reachable for its own instances" if shadow is None else
               "%s is a subclass of the earlier entry %s (-> %s): a %s value is given that datatype instead of %s" % (tj, shadow[0], shadow[1], tj, dj), node=ej)

    # ------------------------------------------------------------------ (b)
    rep.rule("C09.b-datatype-has-inverse-converter",
             "the datatype each Python type maps to has an entry in XSDToPython whose converter yields that Python type", floor=10)
    x2p = _table(tm, "XSDToPython")
    if not isinstance(x2p, ast.Dict):
        raise AnalysisError("XSDToPython is not a dict display")
    conv = {}
    for k, v in zip(x2p.keys, x2p.values):
        conv[_const_str(tm, k)] = norm(v)
    if len(conv) < 30:
        raise AnalysisError("XSDToPython: expected >= 30 entries, found %d" % len(conv))
    for t, c, d, e in entries:
        if d is None:
            continue  # plain string
        if d not in conv:
            # html/xml literal added conditionally, owl:rational has no converter table entry by design?
            rep.ob("C09.b-datatype-has-inverse-converter", tm, "_GenericPythonToXSDRules", "%s -> %s" % (t, d), t in ("Fraction",),
                   "no XSD converter (owl:rational is parsed by the Fraction special case)" if t in ("Fraction",) else "datatype %s produced for %s has no converter in XSDToPython: toPython() does not give the value back" % (d, t), node=e)
            continue
        cv = conv[d]
        produces = CONVERTER_RESULT.get(cv, cv)
        ok = any(is_sub(p.strip(), t) or is_sub(t, p.strip()) or p.strip().endswith(t) for p in produces.split("|")) or (cv == "None" and t == "str")
        rep.ob("C09.b-datatype-has-inverse-converter", tm, "XSDToPython", "%s -> %s -> %s" % (t, d, cv), ok,
               "converter yields %s" % produces if ok else "the converter registered for %s (%s) does not produce a %s" % (d, cv, t), node=e)
    # parse functions exist
    bound = set(xd.defs)
    for n in ast.walk(xd.tree):
        if isinstance(n, ast.Name) and isinstance(n.ctx, ast.Store):
            bound.add(n.id)
        if isinstance(n, ast.alias):
            bound.add(n.asname or n.name)
    for fn in ("parse_time", "parse_xsd_date", "parse_datetime", "parse_xsd_duration", "duration_isoformat"):
        rep.ob("C09.b-datatype-has-inverse-converter", xd, fn, "%s bound in xsd_datetime" % fn, fn in bound, "" if fn in bound else "%s vanished" % fn, node=xd.tree)

    # ------------------------------------------------------------------ (c)
    rep.rule("C09.c-well-formed-table",
             "every key of _check_well_formed_types has a converter in XSDToPython and its checker is the function named for that datatype", floor=10)
    wf = _table(tm, "_check_well_formed_types")
    if not isinstance(wf, ast.Dict):
        raise AnalysisError("_check_well_formed_types is not a dict display")
    for k, v in zip(wf.keys, wf.values):
        d = _const_str(tm, k)
        local = d.split("+")[-1] if d else ""
        fname = norm(v)
        canon = fname.replace("_well_formed_", "").replace("_", "").lower()
        ok = d in conv and canon == local.lower() and tm.has(fname)
        rep.ob("C09.c-well-formed-table", tm, "_check_well_formed_types", "%s -> %s" % (local, fname), ok,
               "" if ok else "checker %s is registered for %s (converter present: %s): the wrong range check decides ill_typed" % (fname, local, d in conv), node=k)

    # ------------------------------------------------------------------ (d)
    rep.rule("C09.d-python-value-not-tested-by-truthiness",
             "in Literal's value-space comparison methods a Python value (`.value`) is compared with None by identity; its truthiness is never "
             "used to mean `has a value` (0, 0.0, False and '' are values)", floor=2)
    lm = tm.methods("Literal")
    for name in ("eq", "neq", "__gt__", "__lt__", "__le__", "__ge__", "_comparable_to", "__add__", "__sub__", "__neg__", "__pos__", "__abs__", "__invert__", "toPython", "normalize"):
        f = lm.get(name)
        if f is None:
            continue
        rep.analysed("rdflib/term.py:Literal." + name)
        for n in own_nodes(f):
            if isinstance(n, ast.Compare) and isinstance(n.ops[0], (ast.Is, ast.IsNot)) and isinstance(n.left, ast.Attribute) and n.left.attr == "value" \
                    and isinstance(n.comparators[0], ast.Constant) and n.comparators[0].value is None:
                rep.ob("C09.d-python-value-not-tested-by-truthiness", tm, "Literal." + name, n, True, "by identity", node=n)
        for e, owner, kind in truthy.bool_contexts(f):
            if isinstance(e, ast.Attribute) and e.attr == "value" and isinstance(e.value, ast.Name):
                rep.ob("C09.d-python-value-not-tested-by-truthiness", tm, "Literal." + name, "%s [in %s: %s]" % (norm(e), kind, norm(getattr(owner, "test", owner))[:70]), False,
                       "%s is a Python value: 0, 0.0, False and '' are falsy, so zero-valued literals take the `no value` path" % norm(e), node=e)

    more_rules(repo, rep, tm, xd, conv, entries, is_sub)


# XSD 1.1 part 2 value-space bounds of the integer-derived datatypes (facts of the specification; None = unbounded)
XSD_INT_BOUNDS = {
    "int": (-2 ** 31, 2 ** 31 - 1), "short": (-2 ** 15, 2 ** 15 - 1), "byte": (-128, 127), "long": (-2 ** 63, 2 ** 63 - 1),
    "unsignedInt": (0, 2 ** 32 - 1), "unsignedShort": (0, 2 ** 16 - 1), "unsignedByte": (0, 255), "unsignedLong": (0, 2 ** 64 - 1),
    "nonNegativeInteger": (0, None), "positiveInteger": (1, None), "nonPositiveInteger": (None, 0), "negativeInteger": (None, -1), "integer": (None, None),
}
# Python types whose str() (the lexical form when a rule has no lexicaliser) leaves the lexical space of the datatype: stdlib facts
STR_OUTSIDE_LEXICAL_SPACE = {"float": "str(float('inf')) == 'inf', str(float('nan')) == 'nan'; XSD writes INF, -INF, NaN"}


def _fold(e: ast.AST):
    """constant-fold an integer expression; None if not constant"""
    if isinstance(e, ast.Constant) and isinstance(e.value, int) and not isinstance(e.value, bool):
        return e.value
    if isinstance(e, ast.UnaryOp) and isinstance(e.op, (ast.USub, ast.UAdd)):
        v = _fold(e.operand)
        return None if v is None else (-v if isinstance(e.op, ast.USub) else v)
    if isinstance(e, ast.BinOp):
        a, b = _fold(e.left), _fold(e.right)
        if a is None or b is None:
            return None
        if isinstance(e.op, ast.Add):
            return a + b
        if isinstance(e.op, ast.Sub):
            return a - b
        if isinstance(e.op, ast.Mult):
            return a * b
        if isinstance(e.op, ast.Pow) and 0 <= b <= 256:
            return a ** b
        if isinstance(e.op, ast.LShift) and 0 <= b <= 256:
            return a << b
    return None


def _accepts(e: ast.AST, vname: str, v: int, int_types: set[str]):
    """three-valued: does the checker expression accept integer value v (lexical assumed non-empty)?"""
    if isinstance(e, ast.BoolOp):
        vals = [_accepts(x, vname, v, int_types) for x in e.values]
        if isinstance(e.op, ast.And):
            return False if any(x is False for x in vals) else (True if all(x is True for x in vals) else None)
        return True if any(x is True for x in vals) else (False if all(x is False for x in vals) else None)
    if isinstance(e, ast.UnaryOp) and isinstance(e.op, ast.Not):
        x = _accepts(e.operand, vname, v, int_types)
        return None if x is None else not x
    if isinstance(e, ast.Call) and norm(e.func) == "isinstance" and len(e.args) == 2 and norm(e.args[0]) == vname:
        ts = [norm(t) for t in (e.args[1].elts if isinstance(e.args[1], ast.Tuple) else [e.args[1]])]
        return any(t in int_types for t in ts)
    if isinstance(e, ast.Compare):
        if norm(e.left).startswith("len(") and len(e.ops) == 1 and isinstance(e.ops[0], ast.Gt) and _fold(e.comparators[0]) == 0:
            return True  # len(lexical) > 0: lexical forms of integers are non-empty
        terms = [e.left] + list(e.comparators)
        vals = []
        for t in terms:
            if norm(t) == vname:
                vals.append(v)
            else:
                c = _fold(t)
                if c is None:
                    return None
                vals.append(c)
        ok = True
        for (a, b), op in zip(zip(vals, vals[1:]), e.ops):
            if isinstance(op, ast.Lt):
                ok = ok and a < b
            elif isinstance(op, ast.LtE):
                ok = ok and a <= b
            elif isinstance(op, ast.Gt):
                ok = ok and a > b
            elif isinstance(op, ast.GtE):
                ok = ok and a >= b
            elif isinstance(op, ast.Eq):
                ok = ok and a == b
            elif isinstance(op, ast.NotEq):
                ok = ok and a != b
            else:
                return None
        return ok
    if isinstance(e, ast.Constant) and isinstance(e.value, bool):
        return e.value
    return None


def more_rules(repo, rep, tm, xd, conv, entries, is_sub) -> None:
    # ------------------------------------------------------------------ (e)
    rep.rule("C09.e-year-field-padded",
             "every strftime format with a %Y field that a Python->XSD lexicaliser (generic or datatype-specific rule) can reach is padded with zfill: "
             "the C library does not zero-pad years below 1000, and XSD date/time lexical forms need at least four year digits", floor=2)
    spec = _table(tm, "_SpecificPythonToXSDRules")
    lexers: list[tuple[str, ast.AST]] = []
    for t, c, d, e in entries:
        lexers.append(("%s -> %s" % (t, d), e.elts[1].elts[0]))
    if isinstance(spec, ast.List):
        for e in spec.elts:
            if isinstance(e, ast.Tuple) and len(e.elts) == 2:
                lexers.append((norm(e.elts[0]), e.elts[1]))
    mods = {"term": tm, "xsd": xd}

    def fn_named(name: str):
        for m in (tm, xd):
            if m.has(name) and isinstance(m.defs[name], (ast.FunctionDef, ast.AsyncFunctionDef)):
                return m, m.defs[name]
        return None, None

    for label, lx in lexers:
        seen: set[str] = set()
        work: list[tuple[object, ast.AST]] = []
        if isinstance(lx, ast.Lambda):
            work.append((tm, lx))
        elif isinstance(lx, ast.Name):
            m, f = fn_named(lx.id)
            if f is not None:
                work.append((m, f))
        while work:
            m, f = work.pop()
            for n in ast.walk(f):
                if isinstance(n, ast.Call) and isinstance(n.func, ast.Name) and n.func.id not in seen:
                    seen.add(n.func.id)
                    m2, f2 = fn_named(n.func.id)
                    if f2 is not None:
                        work.append((m2, f2))
                if isinstance(n, ast.Call) and isinstance(n.func, ast.Attribute) and n.func.attr == "strftime" and n.args \
                        and isinstance(n.args[0], ast.Constant) and isinstance(n.args[0].value, str) and "%Y" in n.args[0].value:
                    padded = False
                    ps = list(m.parents(n))[:2]
                    if len(ps) == 2 and isinstance(ps[0], ast.Attribute) and ps[0].attr == "zfill" and isinstance(ps[1], ast.Call) and ps[1].func is ps[0]:
                        width = _fold(ps[1].args[0]) if ps[1].args else None
                        padded = width is not None and width >= 4
                    rep.ob("C09.e-year-field-padded", m, label, n, padded,
                           "zero-padded" if padded else "strftime(%r) is reachable from the lexicaliser of %s and its result is not zfill-padded: a year below 1000 is written with fewer than four digits, "
                           "which is not a valid lexical form and does not parse back" % (n.args[0].value, label), node=n)

    # ------------------------------------------------------------------ (f)
    rep.rule("C09.f-well-formed-checker-accepts-value-space",
             "every registered well-formedness checker of an integer-derived datatype accepts both ends of that datatype's XSD value space (and a far value on an "
             "unbounded side), evaluated by constant folding of its comparison chain; an isinstance test in a checker admits every Python type the datatype's converter "
             "can produce", floor=16)
    wf = _table(tm, "_check_well_formed_types")
    int_types = {k for k, v in STD.items() if v is int}
    for k, v in zip(wf.keys, wf.values):
        d = _const_str(tm, k)
        local = d.split("+")[-1] if d else ""
        if not (tm.has(norm(v)) and isinstance(tm.defs[norm(v)], ast.FunctionDef)):
            continue
        f = tm.defs[norm(v)]
        rets = [r for r in own_nodes(f) if isinstance(r, ast.Return) and r.value is not None]
        vname = f.args.args[1].arg if len(f.args.args) >= 2 else "value"
        # isinstance coverage
        cv = conv.get(d)
        produces = [p.strip() for p in CONVERTER_RESULT.get(cv, cv or "").split("|") if p.strip()]
        for n in own_nodes(f):
            if isinstance(n, ast.Call) and norm(n.func) == "isinstance" and len(n.args) == 2 and norm(n.args[0]) == vname:
                ts = [norm(t) for t in (n.args[1].elts if isinstance(n.args[1], ast.Tuple) else [n.args[1]])]
                missing = [p for p in produces if not any(is_sub(p, t) for t in ts)]
                rep.ob("C09.f-well-formed-checker-accepts-value-space", tm, norm(v), "%s: %s admits converter results %s" % (local, norm(n), "|".join(produces)), not missing,
                       "" if not missing else "the converter registered for %s (%s) can return %s, which this isinstance test rejects: valid lexical forms with such a value are flagged ill-typed" % (local, cv, "/".join(missing)), node=n)
        if local not in XSD_INT_BOUNDS or len(rets) != 1:
            continue
        lo, hi = XSD_INT_BOUNDS[local]
        pts = []
        pts.append(lo if lo is not None else -10 ** 30)
        pts.append(hi if hi is not None else 10 ** 30)
        if (lo is None or lo <= 0) and (hi is None or hi >= 0):
            pts.append(0)
        for pt in pts:
            a = _accepts(rets[0].value, vname, pt, int_types)
            if a is None:
                rep.info.setdefault("C09.f_unmodelled", []).append("%s at %d" % (norm(v), pt))
                continue
            rep.ob("C09.f-well-formed-checker-accepts-value-space", tm, norm(v), "%s accepts %d" % (local, pt), a,
                   "in the value space and accepted" if a else "%d is in the value space of xsd:%s but the checker rejects it: the valid literal is flagged ill-typed" % (pt, local), node=rets[0])

    # ------------------------------------------------------------------ (g)
    rep.rule("C09.g-duration-equality-covers-timedelta",
             "parse_xsd_duration hands back a plain timedelta when a duration has no year/month part; Duration.__eq__ / __ne__ therefore compare their "
             "day-time part with a non-Duration operand (so the value read back from the lexical form of a Duration equals the Duration)", floor=2)
    pd = xd.func("parse_xsd_duration")
    ret_kinds = {norm(r.value.func) for r in ast.walk(pd) if isinstance(r, ast.Return) and isinstance(r.value, ast.Call)}
    rep.info["parse_xsd_duration_returns"] = sorted(ret_kinds)
    if "timedelta" in ret_kinds:
        dm = xd.methods("Duration")
        for name, op in (("__eq__", ast.Eq), ("__ne__", ast.NotEq)):
            f = dm.get(name)
            if f is None:
                rep.ob("C09.g-duration-equality-covers-timedelta", xd, "Duration." + name, "defined", False, "Duration.%s vanished" % name, node=xd.cls("Duration"))
                continue
            other = f.args.args[1].arg
            hit = None
            for n in own_nodes(f):
                if isinstance(n, ast.Compare) and len(n.ops) == 1 and isinstance(n.ops[0], (ast.Eq, ast.NotEq)):
                    sides = {norm(n.left), norm(n.comparators[0])}
                    if sides == {"self.tdelta", other}:
                        hit = n
            rep.ob("C09.g-duration-equality-covers-timedelta", xd, "Duration." + name, hit if hit is not None else "compares self.tdelta with %s" % other, hit is not None,
                   "timedelta operand handled" if hit is not None else
                   "no comparison of self.tdelta with the other operand: a Duration without year/month part no longer equals the timedelta that parse_xsd_duration returns for its own lexical form", node=hit or f)

    # ------------------------------------------------------------------ (h)
    rep.rule("C09.h-lexicaliser-where-str-is-not-xsd",
             "a generic Python->XSD rule without lexicaliser writes str(value); for float that is 'inf', '-inf', 'nan', which are outside the lexical space of "
             "xsd:double (INF, -INF, NaN): such a type needs a lexicaliser", floor=1)
    for t, c, d, e in entries:
        if t in STR_OUTSIDE_LEXICAL_SPACE:
            ok = c != "None"
            why = "no lexicaliser: %s, so Literal(float('inf')) and normalisation of 'INF'^^xsd:double carry a lexical form outside the datatype's lexical space" % STR_OUTSIDE_LEXICAL_SPACE[t]
            if ok:
                lx = e.elts[1].elts[0]
                body = lx if isinstance(lx, ast.Lambda) else (fn_named(lx.id)[1] if isinstance(lx, ast.Name) else None)
                consts = [n.value for n in ast.walk(body) if isinstance(n, ast.Constant) and isinstance(n.value, str)] if body is not None else []
                ok = any("INF" in x for x in consts) and any("NaN" in x for x in consts)
                why = "the lexicaliser %s never writes the XSD spellings INF / NaN (string constants found: %s)" % (c, consts[:6])
            rep.ob("C09.h-lexicaliser-where-str-is-not-xsd", tm, "_GenericPythonToXSDRules", "%s -> %s lexicaliser %s" % (t, d, c), ok,
                   "lexicaliser present and writes INF / NaN" if ok else why, node=e)


_run_base = run


def run(repo: Repo, rep: Report) -> None:  # noqa: F811
    _run_base(repo, rep)
    rep.rule("C09.i-no-str-of-bytes",
             "in rdflib/term.py no one-argument str(x) is applied to an expression whose static type includes bytes: in Python 3 that is the repr \"b'...'\" and never raises, so a "
             "lexical form given as bytes must be decoded (str(x, 'utf-8') / x.decode()) - the `except UnicodeDecodeError` idiom inherited from Python 2 is dead code", floor=20)
    tm = repo.mod("rdflib.term")
    n = 0
    for c in ast.walk(tm.tree):
        if isinstance(c, ast.Call) and isinstance(c.func, ast.Name) and c.func.id == "str" and len(c.args) == 1 and not c.keywords:
            tf = repo.typed.type_of(tm.name, c.args[0])
            if tf is None:
                continue
            n += 1
            bad = any(i == "builtins.bytes" or i == "builtins.bytearray" for i in tf.items)
            # narrowed by an isinstance(x, bytes) test in an enclosing if: mypy already removed bytes from the type in that case
            rep.ob("C09.i-no-str-of-bytes", tm, tm.qual_of(c) or "<module>", c, not bad,
                   "argument cannot be bytes" if not bad else "%s may be bytes here (%s): the result is the text \"b'...'\", e.g. Literal(b'abc') gets the lexical form \"b'abc'\"" % (norm(c.args[0]), "|".join(tf.items)), node=c)


_run_base2 = run


def run(repo: Repo, rep: Report) -> None:  # noqa: F811
    _run_base2(repo, rep)
    tm = repo.mod("rdflib.term")
    # ------------------------------------------------------------------ (j)
    rep.rule("C09.j-boolean-parser-and-checker-agree",
             "every lexical form that _well_formed_boolean accepts (its `lexical in (...)` tuple, str and bytes forms) is listed in one of _parseBoolean's accepted-value lists: a "
             "form the checker calls well-formed but the parser does not know gets the value False without being flagged ill-typed", floor=8)
    wf = tm.func("_well_formed_boolean")
    pb = tm.func("_parseBoolean")
    accepted = []
    for c in own_nodes(wf):
        if isinstance(c, ast.Compare) and isinstance(c.ops[0], ast.In) and isinstance(c.comparators[0], (ast.Tuple, ast.List, ast.Set)):
            accepted = [e.value for e in c.comparators[0].elts if isinstance(e, ast.Constant)]
    known = set()
    for n in own_nodes(pb):
        if isinstance(n, (ast.List, ast.Tuple, ast.Set)):
            known |= {e.value for e in n.elts if isinstance(e, ast.Constant)}
    lowers = any(isinstance(c, ast.Call) and isinstance(c.func, ast.Attribute) and c.func.attr == "lower" for c in own_nodes(pb))
    if not accepted or not known:
        raise AnalysisError("_well_formed_boolean / _parseBoolean: accepted-value tables not found")
    for a in accepted:
        probe = a.lower() if lowers and hasattr(a, "lower") else a
        ok = probe in known
        rep.ob("C09.j-boolean-parser-and-checker-agree", tm, "_parseBoolean", "%r is parsed" % (a,), ok,
               "" if ok else "%r passes the well-formedness check but is in neither accepted-value list of _parseBoolean: Literal(%r, datatype=XSD.boolean) has the value False (for b'true' / b'1': the wrong value) and is not ill-typed" % (a, a), node=pb)

    # ------------------------------------------------------------------ (k)
    rep.rule("C09.k-xsd-whitespace-only",
             "the whitespace helpers of xsd:normalizedString / xsd:token (_normalise_XSD_STRING, _strip_and_collapse_whitespace) treat exactly the XSD white space characters "
             "(#x20, #x9, #xA, #xD): no argument-less str.split() / str.strip() / lstrip / rstrip and no `\\s` regex, which also match NO-BREAK SPACE, EM SPACE, U+3000, NEL, form "
             "feed ... - ordinary value characters for XSD", floor=2)
    for fname in ("_normalise_XSD_STRING", "_strip_and_collapse_whitespace"):
        f = tm.func(fname)
        found = 0
        for c in own_nodes(f):
            if isinstance(c, ast.Call) and isinstance(c.func, ast.Attribute) and c.func.attr in ("split", "strip", "lstrip", "rstrip"):
                found += 1
                bare = not c.args and not c.keywords
                rep.ob("C09.k-xsd-whitespace-only", tm, fname, c, not bare,
                       "explicit character set" if not bare else "%s() without argument works on Unicode whitespace: Literal('\\u00a0x', datatype=XSD.token) loses its NO-BREAK SPACE, a value character" % c.func.attr, node=c)
            if isinstance(c, ast.Call) and norm(c.func).startswith("re.") and c.args and isinstance(c.args[0], ast.Constant) and isinstance(c.args[0].value, str):
                found += 1
                bad = "\\s" in c.args[0].value
                rep.ob("C09.k-xsd-whitespace-only", tm, fname, c, not bad, "explicit character set" if not bad else "the pattern uses \\s (Unicode whitespace)", node=c)
            if isinstance(c, ast.Call) and isinstance(c.func, ast.Attribute) and c.func.attr == "replace" and c.args and isinstance(c.args[0], ast.Constant):
                found += 1
                rep.ob("C09.k-xsd-whitespace-only", tm, fname, c, c.args[0].value in ("\t", "\n", "\r", " "), "XSD white space character", node=c)
        if not found:
            raise AnalysisError("%s: no whitespace operation found" % fname)

    # ------------------------------------------------------------------ (l)
    rep.rule("C09.l-eq-with-python-durations-covers-every-duration-datatype",
             "Literal.eq compares a literal with a Python Duration / timedelta for every datatype whose registered converter is parse_xsd_duration (xsd:duration, xsd:dayTimeDuration, "
             "xsd:yearMonthDuration): the datatype collection tested in that branch contains them all", floor=3)
    x2p = _table(tm, "XSDToPython")
    dur_types = {(_const_str(tm, k) or "").split("+")[-1] for k, v in zip(x2p.keys, x2p.values) if norm(v) == "parse_xsd_duration"}
    eqf = tm.func("Literal.eq")
    consts = {}
    for st in tm.tree.body:
        if isinstance(st, (ast.Assign, ast.AnnAssign)):
            t = st.targets[0] if isinstance(st, ast.Assign) else st.target
            v = getattr(st, "value", None)
            if isinstance(t, ast.Name) and isinstance(v, (ast.Tuple, ast.List, ast.Set)):
                consts[t.id] = v

    def local(e):
        s_ = _const_str(tm, e)
        return (s_ or "").split("+")[-1]
    done = False
    for n in own_nodes(eqf):
        if isinstance(n, ast.If) and any(isinstance(c, ast.Call) and norm(c.func) == "isinstance" and ("Duration" in norm(c) or "timedelta" in norm(c)) for c in ast.walk(n)):
            for c in ast.walk(n):
                if isinstance(c, ast.Compare) and isinstance(c.ops[0], ast.In) and norm(c.left) == "self.datatype":
                    coll = c.comparators[0]
                    if isinstance(coll, ast.Name) and coll.id in consts:
                        coll = consts[coll.id]
                    if not isinstance(coll, (ast.Tuple, ast.List, ast.Set)):
                        continue
                    have = {local(e) for e in coll.elts}
                    if not (have & dur_types):
                        continue
                    done = True
                    for d in sorted(dur_types):
                        rep.ob("C09.l-eq-with-python-durations-covers-every-duration-datatype", tm, "Literal.eq", "%s in %s" % (d, norm(c.comparators[0])[:40]), d in have,
                               "" if d in have else "xsd:%s literals (whose value is a Duration/timedelta) are not compared with a Python duration: Literal('P1Y2M', datatype=XSD.%s).eq(Duration(years=1, months=2)) is NotImplemented" % (d, d), node=c)
    if not done:
        raise AnalysisError("Literal.eq: duration branch not found")
