"""C09 - Literal <-> Python value mapping: table consistency (DESIGN.md §2 C09)."""
from __future__ import annotations

import ast
import datetime as _dt
import decimal as _dec
import fractions as _fr

from vlib import truthy
from vlib.core import AnalysisError, Repo, Report, norm, own_nodes

EXPLANATION = (
    "(a) first-match order of _GenericPythonToXSDRules respects subclassing: no entry's Python type is a subclass of an earlier "
    "entry's type with a different mapping (bool before int, datetime before date, Duration before timedelta); (b) every generic "
    "rule's datatype has an entry in XSDToPython whose converter produces that Python type (the type itself, or a parse function "
    "whose return annotation / name agrees); (c) the keys of _check_well_formed_types are datatypes that have a converter, and each "
    "checker is the one named for its datatype; (d) value-space equality/ordering code in Literal never tests a Python value "
    "(`.value`, which is falsy for 0, 0.0, False, '') through truthiness to mean 'no value'. Lexical<->value faithfulness over the "
    "value spaces and idempotence of normalisation are runtime-value properties and not decided."
)

# stdlib facts (these are Python's own classes, not rdflib code)
STD = {"str": str, "float": float, "bool": bool, "int": int, "long_type": int, "Decimal": _dec.Decimal, "datetime": _dt.datetime, "date": _dt.date,
       "time": _dt.time, "timedelta": _dt.timedelta, "Fraction": _fr.Fraction, "bytes": bytes}
# converter -> python type name it produces, when it is not the type itself
CONVERTER_RESULT = {"parse_time": "time", "parse_xsd_date": "date", "parse_datetime": "datetime", "parse_xsd_duration": "Duration|timedelta",
                    "_parseBoolean": "bool", "_parseXML": "xml.dom.minidom.Document", "_parse_html": "xml.dom.minidom.DocumentFragment"}


def _const_str(mod, e: ast.AST) -> str | None:
    """local name of a datatype expression: URIRef(_XSD_PFX + "x") or a constant name bound to such"""
    if isinstance(e, ast.Call) and norm(e.func) == "URIRef" and e.args:
        a = e.args[0]
        if isinstance(a, ast.BinOp) and isinstance(a.right, ast.Constant):
            return norm(a.left) + "+" + a.right.value
        if isinstance(a, ast.Constant):
            return a.value
    if isinstance(e, ast.Name):
        for st in mod.tree.body:
            if isinstance(st, (ast.Assign, ast.AnnAssign)):
                t = st.targets[0] if isinstance(st, ast.Assign) else st.target
                if isinstance(t, ast.Name) and t.id == e.id and getattr(st, "value", None) is not None:
                    return _const_str(mod, st.value)
    if isinstance(e, ast.Constant) and e.value is None:
        return None
    return norm(e)


def _table(mod, name: str) -> ast.AST:
    for st in mod.tree.body:
        if isinstance(st, (ast.Assign, ast.AnnAssign)):
            t = st.targets[0] if isinstance(st, ast.Assign) else st.target
            if isinstance(t, ast.Name) and t.id == name and getattr(st, "value", None) is not None:
                return st.value
    raise AnalysisError("table %s vanished from term.py" % name)


def _table_entries(mod, name: str) -> list[tuple[ast.AST, ast.AST]]:
    """(key expression, value expression) of every entry the module-level dict `name` holds once the module is imported, in the
    order in which they are set (a later entry for the same key replaces the earlier one - the caller keys them): the entries of the
    dict display it is bound to, then what the module-level statements after it store in it - `name[K] = V`, and
    `for <names> in <constant table>: name[K] = V ...` written out row by row (the loop names replaced by the elements of the row, as
    vlib.h_c09._Unroller does inside functions; a loop name inside a lambda / nested def is bound late, so such a loop is refused).
    Any other way in which code of the module can change the dict (a method call on it other than the reading ones, `del name[..]`,
    an item store outside module level or in a loop that cannot be written out, the name rebound, handed to a function, aliased)
    is not modelled: AnalysisError, never a guess."""
    from vlib import h_c09 as H
    disp = _table(mod, name)
    if not isinstance(disp, ast.Dict) or any(k is None for k in disp.keys):
        raise AnalysisError("%s is not a dict display" % name)
    out: list[tuple[ast.AST, ast.AST]] = list(zip(disp.keys, disp.values))
    tables = H._module_tables(mod.tree)
    accounted: set[int] = set()  # the Name nodes (reads of `name`) that are understood

    def item_store(st: ast.AST):
        if isinstance(st, ast.Assign) and len(st.targets) == 1 and isinstance(st.targets[0], ast.Subscript) and isinstance(st.targets[0].value, ast.Name) \
                and st.targets[0].value.id == name and not isinstance(st.targets[0].slice, ast.Slice) \
                and not any(isinstance(x, ast.Name) and x.id == name for x in ast.walk(st.value)) \
                and not any(isinstance(x, ast.Name) and x.id == name for x in ast.walk(st.targets[0].slice)):
            return st.targets[0].value, st.targets[0].slice, st.value
        return None

    seen_display = False
    for st in mod.tree.body:
        if not seen_display:
            if getattr(st, "value", None) is disp:
                seen_display = True
            continue
        one = item_store(st)
        if one is not None:
            accounted.add(id(one[0]))
            out.append((one[1], one[2]))
            continue
        if isinstance(st, ast.For) and not st.orelse and st.body and all(item_store(b) is not None for b in st.body):
            rows = tables.get(st.iter.id) if isinstance(st.iter, ast.Name) else (list(st.iter.elts) if isinstance(st.iter, (ast.Tuple, ast.List)) else None)
            if isinstance(st.target, ast.Name):
                names = [st.target.id]
                per_row = None if rows is None else [[r] for r in rows]
            elif isinstance(st.target, (ast.Tuple, ast.List)) and all(isinstance(x, ast.Name) for x in st.target.elts) and rows is not None \
                    and all(isinstance(r, (ast.Tuple, ast.List)) and len(r.elts) == len(st.target.elts) for r in rows):
                names = [x.id for x in st.target.elts]
                per_row = [list(r.elts) for r in rows]
            else:
                names, per_row = [], None
            late = any(isinstance(n, (ast.Lambda, ast.FunctionDef, ast.GeneratorExp, ast.ListComp, ast.SetComp, ast.DictComp, ast.NamedExpr)) for b in st.body for n in ast.walk(b))
            if per_row is None or not (1 <= len(per_row) <= 64) or len(set(names)) != len(names) or name in names or late \
                    or not all(H._stable_element(e, set()) and not any(isinstance(x, ast.Starred) for x in ast.walk(e)) for r in per_row for e in r) \
                    or any(isinstance(x, ast.Name) and x.id in names for r in per_row for e in r for x in ast.walk(e)):
                raise AnalysisError("%s is filled by a loop at line %d that cannot be written out row by row" % (name, st.lineno))
            import copy
            for r in per_row:
                sub = H._RowSubst(dict(zip(names, r)))
                for b in st.body:
                    tgt, k, v = item_store(b)
                    accounted.add(id(tgt))
                    k2, v2 = sub.visit(copy.deepcopy(k)), sub.visit(copy.deepcopy(v))
                    for x in (k2, v2):
                        ast.copy_location(x, b)
                        ast.fix_missing_locations(x)
                    out.append((k2, v2))
            continue
    # every other mention of the table must be a read that leaves it as it is
    parents = {id(c): p for p in ast.walk(mod.tree) for c in ast.iter_child_nodes(p)}
    for n in ast.walk(mod.tree):
        if not (isinstance(n, ast.Name) and n.id == name) or id(n) in accounted:
            continue
        p = parents.get(id(n))
        if isinstance(n.ctx, ast.Store) and isinstance(p, (ast.Assign, ast.AnnAssign)) and getattr(p, "value", None) is disp:
            continue
        if isinstance(n.ctx, ast.Load):
            gp = parents.get(id(p))
            if isinstance(p, ast.Attribute) and p.attr in ("get", "keys", "values", "items", "__contains__", "__getitem__", "copy") and isinstance(gp, ast.Call) and gp.func is p:
                continue
            if isinstance(p, ast.Subscript) and p.value is n and isinstance(p.ctx, ast.Load):
                continue
            if isinstance(p, ast.Compare) and n in p.comparators and all(isinstance(o, (ast.In, ast.NotIn)) for o in p.ops):
                continue
            if isinstance(p, ast.Call) and n in p.args and isinstance(p.func, ast.Name) and p.func.id in ("len", "sorted", "list", "tuple", "set", "frozenset", "iter", "dict"):
                continue
            if isinstance(p, (ast.For, ast.comprehension)) and p.iter is n:
                continue
        raise AnalysisError("%s is used at line %d in a way that may change its entries (not modelled)" % (name, n.lineno))
    return out


def run(repo: Repo, rep: Report) -> None:
    rep.extra["explanation"] = EXPLANATION
    tm = repo.mod("rdflib.term")
    xd = repo.mod("rdflib.xsd_datetime")

    gen = _table(tm, "_GenericPythonToXSDRules")
    if not isinstance(gen, ast.List) or len(gen.elts) < 10:
        raise AnalysisError("_GenericPythonToXSDRules is not a list display of >= 10 entries")
    entries = []
    for e in gen.elts:
        if not (isinstance(e, ast.Tuple) and len(e.elts) == 2 and isinstance(e.elts[1], ast.Tuple)):
            raise AnalysisError("unmodelled rule entry %s" % norm(e))
        entries.append((norm(e.elts[0]), norm(e.elts[1].elts[0]), _const_str(tm, e.elts[1].elts[1]), e))
    # rdflib's own Duration class: bases from the AST
    dur = xd.cls("Duration")
    dur_bases = [norm(b) for b in dur.bases]

    def is_sub(a: str, b: str) -> bool:
        if a == b:
            return True
        if a in STD and b in STD:
            return issubclass(STD[a], STD[b])
        if a == "Duration":
            return b in dur_bases or any(x in STD and b in STD and issubclass(STD[x], STD[b]) for x in dur_bases)
        return False

    # ------------------------------------------------------------------ (a)
    rep.rule("C09.a-first-match-order",
             "in _GenericPythonToXSDRules (first isinstance match wins) no entry's type is a subclass of an earlier entry's type unless both map identically", floor=10)
    for j, (tj, cj, dj, ej) in enumerate(entries):
        shadow = None
        for i in range(j):
            ti, ci, di, _ = entries[i]
            if is_sub(tj, ti) and (ci, di) != (cj, dj):
                shadow = (ti, di)
                break
        rep.ob("C09.a-first-match-order", tm, "_GenericPythonToXSDRules", "%s -> %s" % (tj, dj), shadow is None,
               "reachable for its own instances" if shadow is None else
               "%s is a subclass of the earlier entry %s (-> %s): a %s value is given that datatype instead of %s" % (tj, shadow[0], shadow[1], tj, dj), node=ej)

    # ------------------------------------------------------------------ (b)
    rep.rule("C09.b-datatype-has-inverse-converter",
             "the datatype each Python type maps to has an entry in XSDToPython whose converter yields that Python type", floor=10)
    x2p = _table(tm, "XSDToPython")
    if not isinstance(x2p, ast.Dict):
        raise AnalysisError("XSDToPython is not a dict display")
    conv = {}
    for k, v in zip(x2p.keys, x2p.values):
        conv[_const_str(tm, k)] = norm(v)
    if len(conv) < 30:
        raise AnalysisError("XSDToPython: expected >= 30 entries, found %d" % len(conv))
    for t, c, d, e in entries:
        if d is None:
            continue  # plain string
        if d not in conv:
            # html/xml literal added conditionally, owl:rational has no converter table entry by design?
            rep.ob("C09.b-datatype-has-inverse-converter", tm, "_GenericPythonToXSDRules", "%s -> %s" % (t, d), t in ("Fraction",),
                   "no XSD converter (owl:rational is parsed by the Fraction special case)" if t in ("Fraction",) else "datatype %s produced for %s has no converter in XSDToPython: toPython() does not give the value back" % (d, t), node=e)
            continue
        cv = conv[d]
        produces = CONVERTER_RESULT.get(cv, cv)
        ok = any(is_sub(p.strip(), t) or is_sub(t, p.strip()) or p.strip().endswith(t) for p in produces.split("|")) or (cv == "None" and t == "str")
        rep.ob("C09.b-datatype-has-inverse-converter", tm, "XSDToPython", "%s -> %s -> %s" % (t, d, cv), ok,
               "converter yields %s" % produces if ok else "the converter registered for %s (%s) does not produce a %s" % (d, cv, t), node=e)
    # parse functions exist
    bound = set(xd.defs)
    for n in ast.walk(xd.tree):
        if isinstance(n, ast.Name) and isinstance(n.ctx, ast.Store):
            bound.add(n.id)
        if isinstance(n, ast.alias):
            bound.add(n.asname or n.name)
    for fn in ("parse_time", "parse_xsd_date", "parse_datetime", "parse_xsd_duration", "duration_isoformat"):
        rep.ob("C09.b-datatype-has-inverse-converter", xd, fn, "%s bound in xsd_datetime" % fn, fn in bound, "" if fn in bound else "%s vanished" % fn, node=xd.tree)

    # ------------------------------------------------------------------ (c)
    rep.rule("C09.c-well-formed-table",
             "every key of _check_well_formed_types (the entries of its display and those the module stores in it afterwards, a loop over a constant table written out) "
             "has a converter in XSDToPython and its checker is the one for that datatype: registered under a name, the function named for the datatype; registered "
             "as an anonymous callable (an instance of a callable class, a functools.partial, a lambda - no name says what it is for), a callable that accepts the "
             "bounds of that datatype's value space and rejects the integers next to them (evaluated)", floor=10)
    wf_entries: dict[str, tuple[ast.AST, ast.AST]] = {}
    for k, v in _table_entries(tm, "_check_well_formed_types"):
        wf_entries[norm(k)] = (k, v)
    int_types_c = {k for k, v in STD.items() if v is int}
    for k, v in wf_entries.values():
        d = _const_str(tm, k)
        local = d.split("+")[-1] if d else ""
        fname = norm(v)
        ck = _checker(tm, v)
        if isinstance(v, ast.Name):
            canon = fname.replace("_well_formed_", "").replace("_", "").lower()
            # (the checker: a function of the module, or a module-level name bound to a callable made of one - functools.partial, a lambda)
            ok = d in conv and canon == local.lower() and ck is not None
        else:
            ok = d in conv and ck is not None and local in XSD_INT_BOUNDS and XSD_INT_BOUNDS[local] != (None, None)
            if ok:
                lo, hi = XSD_INT_BOUNDS[local]
                inside = [x for x in (lo, hi) if x is not None]
                outside = ([lo - 1] if lo is not None else []) + ([hi + 1] if hi is not None else [])
                ok = all(_checker_accepts(tm, v, ck, pt, int_types_c) is True for pt in inside) and all(_checker_accepts(tm, v, ck, pt, int_types_c) is False for pt in outside)
        rep.ob("C09.c-well-formed-table", tm, "_check_well_formed_types", "%s -> %s" % (local, fname), ok,
               "" if ok else "checker %s is registered for %s (converter present: %s): the wrong range check decides ill_typed" % (fname, local, d in conv), node=k)

    # ------------------------------------------------------------------ (d)
    rep.rule("C09.d-python-value-not-tested-by-truthiness",
             "in Literal's value-space comparison methods a Python value (`.value`) is compared with None by identity; its truthiness is never "
             "used to mean `has a value` (0, 0.0, False and '' are values)", floor=2)
    lm = tm.methods("Literal")
    from vlib import h_c09
    calls = h_c09.Calls(repo)
    todo: list[tuple[str, ast.AST]] = []
    for name in ("eq", "neq", "__gt__", "__lt__", "__le__", "__ge__", "_comparable_to", "__add__", "__sub__", "__neg__", "__pos__", "__abs__", "__invert__", "toPython", "normalize"):
        if name not in lm:
            continue
        # (with the private methods of Literal that the method runs: the same code, cut differently)
        for q, f in calls.private_closure(tm, "Literal." + name):
            if q.startswith("Literal.") and not any(f is g for _, g in todo):
                todo.append((q, f))
    for q, f in todo:
        name = q.split(".", 1)[1]
        rep.analysed("rdflib/term.py:Literal." + name)
        for n in own_nodes(f):
            if isinstance(n, ast.Compare) and isinstance(n.ops[0], (ast.Is, ast.IsNot)) and isinstance(n.left, ast.Attribute) and n.left.attr == "value" \
                    and isinstance(n.comparators[0], ast.Constant) and n.comparators[0].value is None:
                rep.ob("C09.d-python-value-not-tested-by-truthiness", tm, "Literal." + name, n, True, "by identity", node=n)
        for e, owner, kind in truthy.bool_contexts(f):
            if isinstance(e, ast.Attribute) and e.attr == "value" and isinstance(e.value, ast.Name):
                rep.ob("C09.d-python-value-not-tested-by-truthiness", tm, "Literal." + name, "%s [in %s: %s]" % (norm(e), kind, norm(getattr(owner, "test", owner))[:70]), False,
                       "%s is a Python value: 0, 0.0, False and '' are falsy, so zero-valued literals take the `no value` path" % norm(e), node=e)

    more_rules(repo, rep, tm, xd, conv, entries, is_sub)


# XSD 1.1 part 2 value-space bounds of the integer-derived datatypes (facts of the specification; None = unbounded)
XSD_INT_BOUNDS = {
    "int": (-2 ** 31, 2 ** 31 - 1), "short": (-2 ** 15, 2 ** 15 - 1), "byte": (-128, 127), "long": (-2 ** 63, 2 ** 63 - 1),
    "unsignedInt": (0, 2 ** 32 - 1), "unsignedShort": (0, 2 ** 16 - 1), "unsignedByte": (0, 255), "unsignedLong": (0, 2 ** 64 - 1),
    "nonNegativeInteger": (0, None), "positiveInteger": (1, None), "nonPositiveInteger": (None, 0), "negativeInteger": (None, -1), "integer": (None, None),
}
# Python types whose str() (the lexical form when a rule has no lexicaliser) leaves the lexical space of the datatype: stdlib facts
STR_OUTSIDE_LEXICAL_SPACE = {"float": "str(float('inf')) == 'inf', str(float('nan')) == 'nan'; XSD writes INF, -INF, NaN"}


def _fold(e: ast.AST):
    """constant-fold an integer expression; None if not constant"""
    if isinstance(e, ast.Constant) and isinstance(e.value, int) and not isinstance(e.value, bool):
        return e.value
    if isinstance(e, ast.UnaryOp) and isinstance(e.op, (ast.USub, ast.UAdd)):
        v = _fold(e.operand)
        return None if v is None else (-v if isinstance(e.op, ast.USub) else v)
    if isinstance(e, ast.BinOp):
        a, b = _fold(e.left), _fold(e.right)
        if a is None or b is None:
            return None
        if isinstance(e.op, ast.Add):
            return a + b
        if isinstance(e.op, ast.Sub):
            return a - b
        if isinstance(e.op, ast.Mult):
            return a * b
        if isinstance(e.op, ast.Pow) and 0 <= b <= 256:
            return a ** b
        if isinstance(e.op, ast.LShift) and 0 <= b <= 256:
            return a << b
    return None


def _accepts(e: ast.AST, vname: str, v: int, int_types: set[str]):
    """three-valued: does the checker expression accept integer value v (lexical assumed non-empty)?"""
    if isinstance(e, ast.BoolOp):
        vals = [_accepts(x, vname, v, int_types) for x in e.values]
        if isinstance(e.op, ast.And):
            return False if any(x is False for x in vals) else (True if all(x is True for x in vals) else None)
        return True if any(x is True for x in vals) else (False if all(x is False for x in vals) else None)
    if isinstance(e, ast.UnaryOp) and isinstance(e.op, ast.Not):
        x = _accepts(e.operand, vname, v, int_types)
        return None if x is None else not x
    if isinstance(e, ast.Call) and norm(e.func) == "isinstance" and len(e.args) == 2 and norm(e.args[0]) == vname:
        ts = [norm(t) for t in (e.args[1].elts if isinstance(e.args[1], ast.Tuple) else [e.args[1]])]
        return any(t in int_types for t in ts)
    if isinstance(e, ast.Compare):
        if norm(e.left).startswith("len(") and len(e.ops) == 1 and isinstance(e.ops[0], ast.Gt) and _fold(e.comparators[0]) == 0:
            return True  # len(lexical) > 0: lexical forms of integers are non-empty
        terms = [e.left] + list(e.comparators)
        vals = []
        for t in terms:
            if norm(t) == vname:
                vals.append(v)
            else:
                c = _fold(t)
                if c is None:
                    return None
                vals.append(c)
        ok = True
        for (a, b), op in zip(zip(vals, vals[1:]), e.ops):
            if isinstance(op, ast.Lt):
                ok = ok and a < b
            elif isinstance(op, ast.LtE):
                ok = ok and a <= b
            elif isinstance(op, ast.Gt):
                ok = ok and a > b
            elif isinstance(op, ast.GtE):
                ok = ok and a >= b
            elif isinstance(op, ast.Eq):
                ok = ok and a == b
            elif isinstance(op, ast.NotEq):
                ok = ok and a != b
            else:
                return None
        return ok
    if isinstance(e, ast.Constant) and isinstance(e.value, bool):
        return e.value
    return None


def _module_value(mod, name: str) -> ast.AST | None:
    """the one expression a module-level name is bound to: a single plain / annotated assignment at module level and no other store of the name in the module"""
    idx = mod.__dict__.get("_c09_module_values")
    if idx is None:
        stores: dict[str, int] = {}
        for n in ast.walk(mod.tree):
            if isinstance(n, ast.Name) and isinstance(n.ctx, (ast.Store, ast.Del)):
                stores[n.id] = stores.get(n.id, 0) + 1
            elif isinstance(n, (ast.FunctionDef, ast.AsyncFunctionDef, ast.ClassDef)):
                stores[n.name] = stores.get(n.name, 0) + 1
            elif isinstance(n, ast.alias):
                nm = (n.asname or n.name).split(".")[0]
                stores[nm] = stores.get(nm, 0) + 1
        idx = {}
        for st in mod.tree.body:
            if isinstance(st, (ast.Assign, ast.AnnAssign)) and getattr(st, "value", None) is not None:
                ts = st.targets if isinstance(st, ast.Assign) else [st.target]
                if len(ts) == 1 and isinstance(ts[0], ast.Name) and stores.get(ts[0].id) == 1:
                    idx[ts[0].id] = st.value
        mod.__dict__["_c09_module_values"] = idx
    return idx.get(name)


def _checker(tm, v: ast.AST, depth: int = 0):
    """the callable an entry of a checker table denotes, as (the def or lambda that runs, how many of its leading positional parameters are already bound, the names
    of its parameters bound by keyword): a function of the module, a lambda, functools.partial of such a callable, or a module-level name bound (once) to one of
    these.  None for anything else."""
    if depth > 4:
        return None
    if isinstance(v, ast.Lambda):
        return v, 0, frozenset()
    if isinstance(v, ast.Name):
        d = tm.defs.get(v.id)
        if isinstance(d, ast.FunctionDef):
            return d, 0, frozenset()
        b = _module_value(tm, v.id)
        return None if b is None else _checker(tm, b, depth + 1)
    if isinstance(v, ast.Call) and norm(v.func) in ("partial", "functools.partial") and v.args and not any(isinstance(a, ast.Starred) for a in v.args) \
            and not any(k.arg is None for k in v.keywords):
        r = _checker(tm, v.args[0], depth + 1)
        if r is None:
            return None
        return r[0], r[1] + len(v.args) - 1, r[2] | {k.arg for k in v.keywords}
    if isinstance(v, ast.IfExp):
        # `A if T else B` with a test that evaluates to a constant: the branch taken
        try:
            ev = _checker_evaluator(tm)
            t = ev.truth(ev.expr(v.test, {}, 0))
        except _H._Unk:
            return None
        return _checker(tm, v.body if t else v.orelse, depth + 1)
    if isinstance(v, ast.Call) and isinstance(v.func, ast.Name) and isinstance(tm.defs.get(v.func.id), ast.ClassDef):
        # an instance of a plain class of the module that defines __call__ (see Evaluator.plain_class): what runs is that method, `self` bound
        methods = _H.Evaluator.plain_class(tm.defs[v.func.id])
        call = None if methods is None else methods.get("__call__")
        if call is None or not (list(call.args.posonlyargs) + list(call.args.args)):
            return None
        return call, 1, frozenset()
    return None


def _checker_evaluator(tm):
    def lookup(name):
        d = tm.defs.get(name)
        return d if isinstance(d, ast.FunctionDef) else None

    def class_lookup(name):
        d = tm.defs.get(name)
        return d if isinstance(d, ast.ClassDef) else None
    return _H.Evaluator(lookup, STD, module_value=lambda n: _module_value(tm, n), class_lookup=class_lookup)


def _checker_value_param(ck) -> str | None:
    """the parameter that receives the value: the second of those still open (a checker is called as checker(lexical, value))"""
    f, nb, kw = ck
    a = f.args
    if a.vararg or a.kwarg:
        return None
    rest = [p.arg for p in (list(a.posonlyargs) + list(a.args))[nb:] if p.arg not in kw]
    return rest[1] if len(rest) == 2 else None


def _checker_accepts(tm, v: ast.AST, ck, pt: int, int_types: set[str]):
    """three-valued: does the checker registered as `v` accept the integer pt (written as the lexical form str(pt))?  A plain function that is one return of a
    comparison chain: by folding that chain (_accepts); otherwise - early exits, bounds bound by functools.partial, operator.* instead of a comparison, a shared
    function behind several checkers - by evaluating the callable on (str(pt), pt) with vlib.h_c09.Evaluator.  None when neither can decide."""
    f, nb, kw = ck
    vname = _checker_value_param(ck)
    if isinstance(f, ast.FunctionDef) and nb == 0 and not kw and vname is not None:
        rets = [r for r in own_nodes(f) if isinstance(r, ast.Return) and r.value is not None]
        if len(rets) == 1:
            a = _accepts(rets[0].value, vname, pt, int_types)
            if a is not None:
                return a

    ev = _checker_evaluator(tm)
    try:
        r = ev.apply(ev.expr(v, {}, 0), [str(pt), pt], {}, 0)
    except _H._Unk:
        return None
    return r if isinstance(r, bool) else None


def more_rules(repo, rep, tm, xd, conv, entries, is_sub) -> None:
    # ------------------------------------------------------------------ (e)
    rep.rule("C09.e-year-field-padded",
             "every strftime format with a %Y field that a Python->XSD lexicaliser (generic or datatype-specific rule) can reach is padded with zfill: "
             "the C library does not zero-pad years below 1000, and XSD date/time lexical forms need at least four year digits", floor=2)
    spec = _table(tm, "_SpecificPythonToXSDRules")
    lexers: list[tuple[str, ast.AST]] = []
    for t, c, d, e in entries:
        lexers.append(("%s -> %s" % (t, d), e.elts[1].elts[0]))
    if isinstance(spec, ast.List):
        for e in spec.elts:
            if isinstance(e, ast.Tuple) and len(e.elts) == 2:
                lexers.append((norm(e.elts[0]), e.elts[1]))
    mods = {"term": tm, "xsd": xd}

    def fn_named(name: str):
        for m in (tm, xd):
            if m.has(name) and isinstance(m.defs[name], (ast.FunctionDef, ast.AsyncFunctionDef)):
                return m, m.defs[name]
        return None, None

    for label, lx in lexers:
        seen: set[str] = set()
        work: list[tuple[object, ast.AST]] = []
        if isinstance(lx, ast.Lambda):
            work.append((tm, lx))
        elif isinstance(lx, ast.Name):
            m, f = fn_named(lx.id)
            if f is not None:
                work.append((m, f))
        while work:
            m, f = work.pop()
            for n in ast.walk(f):
                if isinstance(n, ast.Call) and isinstance(n.func, ast.Name) and n.func.id not in seen:
                    seen.add(n.func.id)
                    m2, f2 = fn_named(n.func.id)
                    if f2 is not None:
                        work.append((m2, f2))
                if isinstance(n, ast.Call) and isinstance(n.func, ast.Attribute) and n.func.attr == "strftime" and n.args \
                        and isinstance(n.args[0], ast.Constant) and isinstance(n.args[0].value, str) and "%Y" in n.args[0].value:
                    padded = False
                    ps = list(m.parents(n))[:2]
                    if len(ps) == 2 and isinstance(ps[0], ast.Attribute) and ps[0].attr == "zfill" and isinstance(ps[1], ast.Call) and ps[1].func is ps[0]:
                        width = _fold(ps[1].args[0]) if ps[1].args else None
                        padded = width is not None and width >= 4
                    rep.ob("C09.e-year-field-padded", m, label, n, padded,
                           "zero-padded" if padded else "strftime(%r) is reachable from the lexicaliser of %s and its result is not zfill-padded: a year below 1000 is written with fewer than four digits, "
                           "which is not a valid lexical form and does not parse back" % (n.args[0].value, label), node=n)

    # ------------------------------------------------------------------ (f)
    rep.rule("C09.f-well-formed-checker-accepts-value-space",
             "every registered well-formedness checker of an integer-derived datatype accepts both ends of that datatype's XSD value space (and a far value on an "
             "unbounded side), evaluated by constant folding of its comparison chain or - a checker made by functools.partial of a shared function, one with early exits - "
             "by evaluating its code on that value; an isinstance test in a checker admits every Python type the datatype's converter "
             "can produce", floor=16)
    int_types = {k for k, v in STD.items() if v is int}
    for k, v in {norm(k): (k, v) for k, v in _table_entries(tm, "_check_well_formed_types")}.values():
        d = _const_str(tm, k)
        local = d.split("+")[-1] if d else ""
        ck = _checker(tm, v)
        if ck is None:
            continue
        f = ck[0]
        vname = _checker_value_param(ck) or "value"
        # isinstance coverage
        cv = conv.get(d)
        produces = [p.strip() for p in CONVERTER_RESULT.get(cv, cv or "").split("|") if p.strip()]
        for n in own_nodes(f):
            if isinstance(n, ast.Call) and norm(n.func) == "isinstance" and len(n.args) == 2 and norm(n.args[0]) == vname:
                ts = [norm(t) for t in (n.args[1].elts if isinstance(n.args[1], ast.Tuple) else [n.args[1]])]
                missing = [p for p in produces if not any(is_sub(p, t) for t in ts)]
                rep.ob("C09.f-well-formed-checker-accepts-value-space", tm, norm(v), "%s: %s admits converter results %s" % (local, norm(n), "|".join(produces)), not missing,
                       "" if not missing else "the converter registered for %s (%s) can return %s, which this isinstance test rejects: valid lexical forms with such a value are flagged ill-typed" % (local, cv, "/".join(missing)), node=n)
        if local not in XSD_INT_BOUNDS:
            continue
        lo, hi = XSD_INT_BOUNDS[local]
        pts = []
        pts.append(lo if lo is not None else -10 ** 30)
        pts.append(hi if hi is not None else 10 ** 30)
        if (lo is None or lo <= 0) and (hi is None or hi >= 0):
            pts.append(0)
        for pt in pts:
            a = _checker_accepts(tm, v, ck, pt, int_types)
            if a is None:
                rep.info.setdefault("C09.f_unmodelled", []).append("%s at %d" % (norm(v), pt))
                continue
            rep.ob("C09.f-well-formed-checker-accepts-value-space", tm, norm(v), "%s accepts %d" % (local, pt), a,
                   "in the value space and accepted" if a else "%d is in the value space of xsd:%s but the checker rejects it: the valid literal is flagged ill-typed" % (pt, local), node=k)

    # ------------------------------------------------------------------ (g)
    rep.rule("C09.g-duration-equality-covers-timedelta",
             "parse_xsd_duration hands back a plain timedelta when a duration has no year/month part; Duration.__eq__ / __ne__ therefore compare their "
             "day-time part with a non-Duration operand (so the value read back from the lexical form of a Duration equals the Duration)", floor=2)
    pd = xd.func("parse_xsd_duration")
    ret_kinds = {norm(r.value.func) for r in ast.walk(pd) if isinstance(r, ast.Return) and isinstance(r.value, ast.Call)}
    rep.info["parse_xsd_duration_returns"] = sorted(ret_kinds)
    if "timedelta" in ret_kinds:
        dm = xd.methods("Duration")
        for name, op in (("__eq__", ast.Eq), ("__ne__", ast.NotEq)):
            f = dm.get(name)
            if f is None:
                rep.ob("C09.g-duration-equality-covers-timedelta", xd, "Duration." + name, "defined", False, "Duration.%s vanished" % name, node=xd.cls("Duration"))
                continue
            other = f.args.args[1].arg
            hit = None
            for n in own_nodes(f):
                if isinstance(n, ast.Compare) and len(n.ops) == 1 and isinstance(n.ops[0], (ast.Eq, ast.NotEq)):
                    sides = {norm(n.left), norm(n.comparators[0])}
                    if sides == {"self.tdelta", other}:
                        hit = n
            rep.ob("C09.g-duration-equality-covers-timedelta", xd, "Duration." + name, hit if hit is not None else "compares self.tdelta with %s" % other, hit is not None,
                   "timedelta operand handled" if hit is not None else
                   "no comparison of self.tdelta with the other operand: a Duration without year/month part no longer equals the timedelta that parse_xsd_duration returns for its own lexical form", node=hit or f)

    # ------------------------------------------------------------------ (h)
    rep.rule("C09.h-lexicaliser-where-str-is-not-xsd",
             "a generic Python->XSD rule without lexicaliser writes str(value); for float that is 'inf', '-inf', 'nan', which are outside the lexical space of "
             "xsd:double (INF, -INF, NaN): such a type needs a lexicaliser", floor=1)
    for t, c, d, e in entries:
        if t in STR_OUTSIDE_LEXICAL_SPACE:
            ok = c != "None"
            why = "no lexicaliser: %s, so Literal(float('inf')) and normalisation of 'INF'^^xsd:double carry a lexical form outside the datatype's lexical space" % STR_OUTSIDE_LEXICAL_SPACE[t]
            if ok:
                lx = e.elts[1].elts[0]
                body = lx if isinstance(lx, ast.Lambda) else (fn_named(lx.id)[1] if isinstance(lx, ast.Name) else None)
                consts = [n.value for n in ast.walk(body) if isinstance(n, ast.Constant) and isinstance(n.value, str)] if body is not None else []
                ok = any("INF" in x for x in consts) and any("NaN" in x for x in consts)
                why = "the lexicaliser %s never writes the XSD spellings INF / NaN (string constants found: %s)" % (c, consts[:6])
            rep.ob("C09.h-lexicaliser-where-str-is-not-xsd", tm, "_GenericPythonToXSDRules", "%s -> %s lexicaliser %s" % (t, d, c), ok,
                   "lexicaliser present and writes INF / NaN" if ok else why, node=e)


from vlib.core import layer as _layer  # noqa: E402

_run_base = run


def run(repo: Repo, rep: Report) -> None:  # noqa: F811
    _layer(rep, _run_base, repo)
    rep.rule("C09.i-no-str-of-bytes",
             "in rdflib/term.py no one-argument str(x) is applied to an expression whose static type includes bytes: in Python 3 that is the repr \"b'...'\" and never raises, so a "
             "lexical form given as bytes must be decoded (str(x, 'utf-8') / x.decode()) - the `except UnicodeDecodeError` idiom inherited from Python 2 is dead code", floor=20)
    tm = repo.mod("rdflib.term")
    n = 0
    for c in ast.walk(tm.tree):
        if isinstance(c, ast.Call) and isinstance(c.func, ast.Name) and c.func.id == "str" and len(c.args) == 1 and not c.keywords:
            tf = repo.typed.type_of(tm.name, c.args[0])
            if tf is None:
                continue
            n += 1
            bad = any(i == "builtins.bytes" or i == "builtins.bytearray" for i in tf.items)
            # narrowed by an isinstance(x, bytes) test in an enclosing if: mypy already removed bytes from the type in that case
            rep.ob("C09.i-no-str-of-bytes", tm, tm.qual_of(c) or "<module>", c, not bad,
                   "argument cannot be bytes" if not bad else "%s may be bytes here (%s): the result is the text \"b'...'\", e.g. Literal(b'abc') gets the lexical form \"b'abc'\"" % (norm(c.args[0]), "|".join(tf.items)), node=c)


_run_base2 = run


def _each_in_its_own_layer(repo: Repo, rep: Report, *rules) -> None:
    """every rule is a layer of its own (vlib.core.layer): a rule that loses its anchor on one equivalent view of the tree (a helper it
    is anchored in was inlined away, say) does not take along the rules written next to it, which may need exactly that view"""
    for r in rules:
        _layer(rep, r, repo)


def run(repo: Repo, rep: Report) -> None:  # noqa: F811
    _layer(rep, _run_base2, repo)
    _each_in_its_own_layer(repo, rep, _rule_j, _rule_k, _rule_l)


def _rule_j(repo: Repo, rep: Report) -> None:
    tm = repo.mod("rdflib.term")
    # ------------------------------------------------------------------ (j)
    rep.rule("C09.j-boolean-parser-and-checker-agree",
             "every lexical form that _well_formed_boolean accepts (its `lexical in (...)` tuple, str and bytes forms) is listed in one of _parseBoolean's accepted-value lists: a "
             "form the checker calls well-formed but the parser does not know gets the value False without being flagged ill-typed", floor=8)
    wf = tm.func("_well_formed_boolean")
    pb = tm.func("_parseBoolean")
    accepted = []
    for c in own_nodes(wf):
        if isinstance(c, ast.Compare) and isinstance(c.ops[0], ast.In) and isinstance(c.comparators[0], (ast.Tuple, ast.List, ast.Set)):
            accepted = [e.value for e in c.comparators[0].elts if isinstance(e, ast.Constant)]
    known = set()
    for n in own_nodes(pb):
        if isinstance(n, (ast.List, ast.Tuple, ast.Set)):
            known |= {e.value for e in n.elts if isinstance(e, ast.Constant)}
    lowers = any(isinstance(c, ast.Call) and isinstance(c.func, ast.Attribute) and c.func.attr == "lower" for c in own_nodes(pb))
    if not accepted or not known:
        raise AnalysisError("_well_formed_boolean / _parseBoolean: accepted-value tables not found")
    for a in accepted:
        probe = a.lower() if lowers and hasattr(a, "lower") else a
        ok = probe in known
        rep.ob("C09.j-boolean-parser-and-checker-agree", tm, "_parseBoolean", "%r is parsed" % (a,), ok,
               "" if ok else "%r passes the well-formedness check but is in neither accepted-value list of _parseBoolean: Literal(%r, datatype=XSD.boolean) has the value False (for b'true' / b'1': the wrong value) and is not ill-typed" % (a, a), node=pb)



def _rule_k(repo: Repo, rep: Report) -> None:
    tm = repo.mod("rdflib.term")
    # ------------------------------------------------------------------ (k)
    rep.rule("C09.k-xsd-whitespace-only",
             "the whitespace helpers of xsd:normalizedString / xsd:token (_normalise_XSD_STRING, _strip_and_collapse_whitespace) treat exactly the XSD white space characters "
             "(#x20, #x9, #xA, #xD): no argument-less str.split() / str.strip() / lstrip / rstrip and no `\\s` regex, which also match NO-BREAK SPACE, EM SPACE, U+3000, NEL, form "
             "feed ... - ordinary value characters for XSD", floor=2)
    for fname in ("_normalise_XSD_STRING", "_strip_and_collapse_whitespace"):
        f = tm.func(fname)
        found = 0
        for c in own_nodes(f):
            if isinstance(c, ast.Call) and isinstance(c.func, ast.Attribute) and c.func.attr in ("split", "strip", "lstrip", "rstrip"):
                found += 1
                bare = not c.args and not c.keywords
                rep.ob("C09.k-xsd-whitespace-only", tm, fname, c, not bare,
                       "explicit character set" if not bare else "%s() without argument works on Unicode whitespace: Literal('\\u00a0x', datatype=XSD.token) loses its NO-BREAK SPACE, a value character" % c.func.attr, node=c)
            if isinstance(c, ast.Call) and norm(c.func).startswith("re.") and c.args and isinstance(c.args[0], ast.Constant) and isinstance(c.args[0].value, str):
                found += 1
                bad = "\\s" in c.args[0].value
                rep.ob("C09.k-xsd-whitespace-only", tm, fname, c, not bad, "explicit character set" if not bad else "the pattern uses \\s (Unicode whitespace)", node=c)
            if isinstance(c, ast.Call) and isinstance(c.func, ast.Attribute) and c.func.attr == "replace" and c.args and isinstance(c.args[0], ast.Constant):
                found += 1
                rep.ob("C09.k-xsd-whitespace-only", tm, fname, c, c.args[0].value in ("\t", "\n", "\r", " "), "XSD white space character", node=c)
        if not found:
            raise AnalysisError("%s: no whitespace operation found" % fname)


def _eq_functions(repo: Repo, tm):
    """(calls, [(qualified name, def)]): Literal.eq - the public entry point of value-space equality - and the private functions of the
    module it runs, transitively: the code of the comparison, however it is cut into functions"""
    calls = _H.Calls(repo)
    fns = calls.private_closure(tm, "Literal.eq")
    if not fns:
        raise AnalysisError("Literal.eq vanished")
    return calls, fns


def _rule_l(repo: Repo, rep: Report) -> None:
    tm = repo.mod("rdflib.term")
    # ------------------------------------------------------------------ (l)
    rep.rule("C09.l-eq-with-python-durations-covers-every-duration-datatype",
             "Literal.eq (with the private functions it runs) compares a literal with a Python Duration / timedelta for every datatype whose registered converter is "
             "parse_xsd_duration (xsd:duration, xsd:dayTimeDuration, xsd:yearMonthDuration): the datatype collection tested in that branch contains them all", floor=3)
    x2p = _table(tm, "XSDToPython")
    dur_types = {(_const_str(tm, k) or "").split("+")[-1] for k, v in zip(x2p.keys, x2p.values) if norm(v) == "parse_xsd_duration"}
    done = False
    for q, eqf in _eq_functions(repo, tm)[1]:
        if not eqf.args.args:
            continue
        me = eqf.args.args[0].arg
        for n in own_nodes(eqf):
            if isinstance(n, ast.If) and any(isinstance(c, ast.Call) and norm(c.func) == "isinstance" and ("Duration" in norm(c) or "timedelta" in norm(c)) for c in ast.walk(n)):
                for c in ast.walk(n):
                    if isinstance(c, ast.Compare) and isinstance(c.ops[0], ast.In) and norm(c.left) in (me + ".datatype", me + "._datatype"):
                        coll = _collection(tm, c.comparators[0])
                        if coll is None:
                            continue
                        have = {_local(tm, e) for e in coll}
                        if not (have & dur_types):
                            continue
                        done = True
                        for d in sorted(dur_types):
                            rep.ob("C09.l-eq-with-python-durations-covers-every-duration-datatype", tm, q, "%s in %s" % (d, norm(c.comparators[0])[:40]), d in have,
                                   "" if d in have else "xsd:%s literals (whose value is a Duration/timedelta) are not compared with a Python duration: Literal('P1Y2M', datatype=XSD.%s).eq(Duration(years=1, months=2)) is NotImplemented" % (d, d), node=c)
    if not done:
        raise AnalysisError("Literal.eq: duration branch not found")


# =====================================================================================================================
# layer 3: rules m-s (value follows the lexical form, re-lexicalisation, zero duration, derived duration datatypes,
# exact fraction field, isinstance chains, Python operand types of eq)
# =====================================================================================================================
import re as _re

from vlib.cfg import CFG

_PYFULL = {"%s.%s" % (c.__module__, c.__qualname__): c for c in STD.values()}
# lexical spaces of the duration datatypes (XSD 1.1 part 2, 3.3.6 / 3.4.26 / 3.4.27; facts of the specification)
_SEC = r"(T(?=[0-9])([0-9]+H)?([0-9]+M)?([0-9]+(\.[0-9]+)?S)?)?"
XSD_DURATION_LEXICAL = {
    "duration": _re.compile(r"-?P(?=[0-9T])([0-9]+Y)?([0-9]+M)?([0-9]+D)?" + _SEC),
    "dayTimeDuration": _re.compile(r"-?P(?=[0-9T])([0-9]+D)?" + _SEC),
    "yearMonthDuration": _re.compile(r"-?P(?=[0-9])([0-9]+Y)?([0-9]+M)?"),
}


def _ty(repo, mod, x: ast.AST) -> str:
    """canonical name of a class expression (second argument of isinstance, key of a rule table)"""
    ref = repo.typed.ref(mod.name, x) or norm(x)
    if ref in _PYFULL:
        return ref
    short = ref.rsplit(".", 1)[-1]
    if short in STD:
        c = STD[short]
        return "%s.%s" % (c.__module__, c.__qualname__)
    return ref


def _ty_sub(repo, a: str, b: str) -> bool:
    if a == b:
        return True
    if a in _PYFULL and b in _PYFULL:
        return issubclass(_PYFULL[a], _PYFULL[b])
    return a in repo.typed.classes and b in repo.typed.mro(a)


def _isinstance_test(repo, mod, test: ast.AST):
    """`isinstance(X, T)` or an `or` of such tests of one X -> (norm(X), [(class name, node)]); None for any other test"""
    if isinstance(test, ast.BoolOp) and isinstance(test.op, ast.Or):
        parts = [_isinstance_test(repo, mod, v) for v in test.values]
        if all(p is not None for p in parts) and len({p[0] for p in parts}) == 1:
            return parts[0][0], [t for p in parts for t in p[1]]
        return None
    if isinstance(test, ast.Call) and norm(test.func) == "isinstance" and len(test.args) == 2:
        ts = test.args[1].elts if isinstance(test.args[1], ast.Tuple) else [test.args[1]]
        return norm(test.args[0]), [(_ty(repo, mod, t), t) for t in ts]
    return None


def _if_chains(mod, fn: ast.AST):
    """every if/elif chain of a function as the list of its If nodes"""
    for chain, _rest in _else_chains(mod, fn):
        yield chain


def _else_chains(mod, fn: ast.AST):
    """every chain of `if` statements of a function whose tests are tried one after the other, each only when the ones before it
    failed, as (the list of its If nodes, the statements that run when all tests failed - None when control also gets past the chain
    from one of its branches): if / elif, and - the same control flow - an `if` none of whose branches falls through followed by the
    next statement of its block (`if a: return x` / `if b: return y` / rest)"""
    from vlib.h_c09 import terminates
    consumed: set[int] = set()
    blocks = []
    for n in [fn] + list(own_nodes(fn)):
        for fld in ("body", "orelse", "finalbody"):
            lst = getattr(n, fld, None)
            if isinstance(lst, list) and lst and isinstance(lst[0], ast.stmt):
                blocks.append((n, fld, lst))
        for h in getattr(n, "handlers", []) or []:
            blocks.append((h, "body", h.body))
    blocks.sort(key=lambda b: (getattr(b[2][0], "lineno", 0), getattr(b[2][0], "col_offset", 0)))
    for owner, fld, lst in blocks:
        if isinstance(owner, ast.If) and fld == "orelse" and len(lst) == 1 and isinstance(lst[0], ast.If):
            continue  # an elif: part of its parent's chain
        for i, st in enumerate(lst):
            if not isinstance(st, ast.If) or id(st) in consumed:
                continue
            chain: list[ast.If] = []
            rest = None
            cur, k = st, i
            while True:
                consumed.add(id(cur))
                chain.append(cur)
                while len(chain[-1].orelse) == 1 and isinstance(chain[-1].orelse[0], ast.If):
                    chain.append(chain[-1].orelse[0])
                if chain[-1].orelse:
                    rest = chain[-1].orelse
                    break
                # no else: what follows in the block is the else part when no branch of the chain falls through
                if not all(terminates(c.body) for c in chain):
                    rest = None
                    break
                if k + 1 < len(lst) and isinstance(lst[k + 1], ast.If) and id(lst[k + 1]) not in consumed:
                    cur, k = lst[k + 1], k + 1
                    continue
                rest = lst[k + 1:]
                break
            yield chain, rest


def _collection(mod, e: ast.AST, depth: int = 0) -> list[ast.AST] | None:
    """elements of a datatype collection: a tuple/list/set display, a module-level name bound to one, a concatenation of such"""
    if isinstance(e, (ast.Tuple, ast.List, ast.Set)):
        return list(e.elts)
    if isinstance(e, ast.BinOp) and isinstance(e.op, ast.Add):
        a, b = _collection(mod, e.left, depth), _collection(mod, e.right, depth)
        return None if a is None or b is None else a + b
    if isinstance(e, ast.Name) and depth < 6:
        for st in mod.tree.body:
            if isinstance(st, (ast.Assign, ast.AnnAssign)):
                t = st.targets[0] if isinstance(st, ast.Assign) else st.target
                if isinstance(t, ast.Name) and t.id == e.id and getattr(st, "value", None) is not None:
                    return _collection(mod, st.value, depth + 1)
    return None


def _local(mod, e: ast.AST) -> str:
    return (_const_str(mod, e) or "").split("+")[-1]


def _datatypes_tested(mod, test: ast.AST, subject: str) -> set[str] | None:
    """local names of the datatypes for which `test` (`S == D`, `S in COLL`, or an `or` of these; S = subject) can hold"""
    if isinstance(test, ast.BoolOp) and isinstance(test.op, ast.Or):
        out: set[str] = set()
        for v in test.values:
            s = _datatypes_tested(mod, v, subject)
            if s is None:
                return None
            out |= s
        return out
    if isinstance(test, ast.Compare) and len(test.ops) == 1 and norm(test.left) == subject:
        c = test.comparators[0]
        if isinstance(test.ops[0], ast.In):
            coll = _collection(mod, c)
            return None if coll is None else {_local(mod, x) for x in coll}
        if isinstance(test.ops[0], ast.Eq):
            return {_local(mod, c)}
        if isinstance(test.ops[0], ast.Is) and isinstance(c, ast.Constant) and c.value is None:
            return set()
    return None


def _single_def(fn: ast.AST, name: str) -> ast.AST | None:
    """the value of the only plain assignment `name = value` in fn (None when there is none or more than one binding)"""
    vals = []
    for n in own_nodes(fn):
        if isinstance(n, ast.Name) and isinstance(n.ctx, ast.Store) and n.id == name:
            vals.append(n)
    if len(vals) != 1:
        return None
    for n in own_nodes(fn):
        if isinstance(n, ast.Assign) and len(n.targets) == 1 and n.targets[0] is vals[0]:
            return n.value
        if isinstance(n, ast.AnnAssign) and n.target is vals[0]:
            return n.value
    return None


def _stmt_of(mod, g: CFG, node: ast.AST) -> int:
    """CFG node of the statement a node belongs to"""
    n = node
    while n is not None:
        if id(n) in g.by_ast:
            return g.by_ast[id(n)]
        n = mod.parent.get(id(n))
    raise AnalysisError("no CFG statement for %s" % norm(node)[:60])


def _conv_table(tm) -> dict:
    x2p = _table(tm, "XSDToPython")
    if not isinstance(x2p, ast.Dict):
        raise AnalysisError("XSDToPython is not a dict display")
    return {_local(tm, k): norm(v) for k, v in zip(x2p.keys, x2p.values) if not (isinstance(k, ast.Constant) and k.value is None)}


def _produces(tm, xd, cv: str) -> list[str]:
    """short names of the Python types a converter yields: the type itself, the return annotation of the function, or the table above"""
    if cv in CONVERTER_RESULT:
        return [p.strip().rsplit(".", 1)[-1] for p in CONVERTER_RESULT[cv].split("|")]
    for m in (tm, xd):
        if m.has(cv) and isinstance(m.defs[cv], ast.FunctionDef) and m.defs[cv].returns is not None:
            return [p.strip() for p in norm(m.defs[cv].returns).split("|")]
    return [cv]


def _short_sub(xd, a: str, b: str) -> bool:
    if a == b:
        return True
    if a in STD and b in STD:
        return issubclass(STD[a], STD[b])
    if a == "Duration":
        bases = [norm(x) for x in xd.cls("Duration").bases]
        return b in bases
    return False


# ------------------------------------------------------------------------------------------------------------- (m)
def _rule_m(repo, rep, tm) -> None:
    rid = "C09.m-value-follows-whitespace-processing"
    rep.rule(rid,
             "in Literal.__new__, when the lexical form (the string handed to str.__new__) is rewritten by a helper function after the value (what is stored in _value) "
             "was derived from the unprocessed form, a later statement re-derives the value from the processed form under a datatype test that covers the datatype of "
             "the rewriting: else literals that are equal as terms carry different values - Literal(' a ', datatype=XSD.token) == Literal('a', datatype=XSD.token), "
             "but .value is ' a ' resp. 'a' and eq() is False", floor=3)
    f = tm.func("Literal.__new__")
    rep.analysed("rdflib/term.py:Literal.__new__")
    lex = val = None
    for n in own_nodes(f):
        if isinstance(n, ast.Call) and norm(n.func) == "str.__new__" and len(n.args) >= 2 and isinstance(n.args[1], ast.Name):
            lex = n.args[1].id
        if isinstance(n, ast.Assign) and isinstance(n.targets[0], ast.Attribute) and n.targets[0].attr == "_value" and isinstance(n.value, ast.Name):
            val = n.value.id
    if lex is None or val is None:
        raise AnalysisError("Literal.__new__: str.__new__(cls, <name>) / inst._value = <name> not found")
    g = CFG(f)

    def mentions(e, name):
        return any(isinstance(x, ast.Name) and x.id == name for x in ast.walk(e))

    def guard_datatypes(st):
        """datatypes admitted by the `datatype in (...)` tests of the ifs around st; None = unconditional"""
        out = None
        child = st
        for p in tm.parents(st):
            if p is f:
                break
            if isinstance(p, ast.If) and any(child is x for x in p.body):
                for c in ast.walk(p.test):
                    if isinstance(c, ast.Compare) and len(c.ops) == 1 and isinstance(c.ops[0], ast.In) and isinstance(c.left, ast.Name):
                        coll = _collection(tm, c.comparators[0])
                        if coll is not None:
                            s = {_local(tm, x) for x in coll}
                            out = s if out is None else (out & s)
            child = p
        return out

    derive = [n for n in own_nodes(f) if isinstance(n, ast.Assign) and any(isinstance(t, ast.Name) and t.id == val for t in n.targets) and mentions(n.value, lex)]
    rewrites = [n for n in own_nodes(f) if isinstance(n, ast.Assign) and len(n.targets) == 1 and isinstance(n.targets[0], ast.Name) and n.targets[0].id == lex
                and isinstance(n.value, ast.Call) and isinstance(n.value.func, ast.Name) and tm.has(n.value.func.id)
                and isinstance(tm.defs[n.value.func.id], ast.FunctionDef) and any(isinstance(a, ast.Name) and a.id == lex for a in n.value.args)]
    for rw in rewrites:
        nrw = _stmt_of(tm, g, rw)
        if not any(g.can_follow(_stmt_of(tm, g, d), nrw) for d in derive):
            continue  # the value is not computed yet
        dts = guard_datatypes(rw)
        later = [d for d in derive if g.can_follow(nrw, _stmt_of(tm, g, d))]
        for d in sorted(dts) if dts is not None else ["<any>"]:
            ok = any((lambda gd: gd is None or d in gd)(guard_datatypes(x)) for x in later)
            rep.ob(rid, tm, "Literal.__new__", "%s [%s]" % (norm(rw), d), ok,
                   "the value is re-derived afterwards" if ok else
                   "the lexical form of an xsd:%s literal is replaced by %s(...) after the value was read from the unprocessed form, and no later statement under a test that admits "
                   "xsd:%s binds the value from the processed form: equal terms with different values" % (d, rw.value.func.id, d), node=rw)


# ------------------------------------------------------------------------------------------------------------- (n)
def _rule_n(repo, rep, tm, xd, conv) -> None:
    rid = "C09.n-bytes-value-relexicalised-before-reconstruction"
    rep.rule(rid,
             "Literal(x, datatype=d) reads a str or bytes x as a LEXICAL FORM. Some converters of XSDToPython return bytes (return annotation `bytes`: xsd:hexBinary, "
             "xsd:base64Binary), so wherever the package rebuilds a literal from `L.value` and `L.datatype` of a Literal L, a test isinstance(value, bytes) whose branch "
             "replaces the value by the result of a lexicaliser call lies on every path to the constructor call: else Literal('6869', datatype=XSD.hexBinary).normalize() "
             "re-reads b'hi' as hex text (error / other value)", floor=1)
    byt = sorted(d for d, cv in conv.items() if "bytes" in _produces(tm, xd, cv) and cv not in ("bytes",))
    rep.info["C09.n_bytes_valued_datatypes"] = byt
    if not byt:
        rep.ob(rid, tm, "XSDToPython", "no converter returns bytes", True, "rule not applicable", vacuous=True)
        return
    for m in repo.modules.values():
        for c in ast.walk(m.tree):
            if not (isinstance(c, ast.Call) and norm(c.func).rsplit(".", 1)[-1] == "Literal" and c.args):
                continue
            dt = [k.value for k in c.keywords if k.arg == "datatype"]
            if not dt or not (isinstance(dt[0], ast.Attribute) and dt[0].attr == "datatype"):
                continue
            recv = dt[0].value
            tf = repo.typed.type_of(m.name, recv)
            if tf is None or not any(i == "rdflib.term.Literal" for i in tf.items):
                continue
            a0 = c.args[0]
            fq = m.qual_of(c)
            fn = m.defs.get(fq)
            if not isinstance(fn, (ast.FunctionDef, ast.AsyncFunctionDef)):
                continue

            def is_value_of(e):
                return isinstance(e, ast.Attribute) and e.attr in ("value", "_value") and norm(e.value) == norm(recv)
            if is_value_of(a0):
                rep.ob(rid, m, fq, c, False, "the value of %s is handed to Literal() unchanged: a bytes value (datatypes %s) is read as a lexical form" % (norm(recv), ", ".join(byt)), node=c)
                continue
            if not isinstance(a0, ast.Name):
                continue
            name = a0.id
            if not any(isinstance(n, ast.Assign) and any(isinstance(t, ast.Name) and t.id == name for t in n.targets) and is_value_of(n.value) for n in own_nodes(fn)):
                continue
            rep.analysed("%s:%s" % (m.rel, fq))
            g = CFG(fn)
            guards = []
            for n in own_nodes(fn):
                if not isinstance(n, ast.If):
                    continue
                it = _isinstance_test(repo, m, n.test)
                if it is None or it[0] != name or not any(t == "builtins.bytes" for t, _ in it[1]):
                    continue
                for st in n.body:
                    if isinstance(st, ast.Assign) and isinstance(st.value, ast.Call) and norm(st.value.func) != "Literal" \
                            and any(isinstance(x, ast.Name) and x.id == name and isinstance(x.ctx, ast.Store) for t in st.targets for x in ast.walk(t)) \
                            and any(isinstance(x, ast.Name) and x.id == name for a in st.value.args for x in ast.walk(a)):
                        guards.append(g.by_ast[id(n)])
            ok = bool(guards) and g.must_pass_before(_stmt_of(m, g, c), guards)
            rep.ob(rid, m, fq, c, ok,
                   "bytes values are lexicalised first" if ok else "%s is %s.value; no `if isinstance(%s, bytes): %s = <lexicaliser>(%s ...)` dominates the call, so a bytes value (datatypes %s) is read "
                   "as a lexical form" % (name, norm(recv), name, name, name, ", ".join(byt)), node=c)


def _zero_duration_value(xd, t: str):
    """the zero value of a duration type as an argument of the evaluator: timedelta(0) (a fact of the standard library: days, seconds and microseconds are 0, and
    it is false), Duration() - the attributes its __init__ stores, a timedelta where a timedelta is stored and 0 elsewhere; attributes it does not have are
    looked up on the timedelta when the class says so (__getattr__); true, as the class defines neither __bool__ nor __len__"""
    td = _H.Obj("timedelta", {"days": 0, "seconds": 0, "microseconds": 0}, falsy=True)
    if t == "timedelta":
        return td
    if t != "Duration" or not xd.has("Duration.__init__"):
        return None
    init = xd.func("Duration.__init__")
    me = init.args.args[0].arg if init.args.args else None
    attrs: dict = {}
    for n in own_nodes(init):
        if isinstance(n, ast.Assign) and len(n.targets) == 1 and isinstance(n.targets[0], ast.Attribute) and norm(n.targets[0].value) == me:
            attrs[n.targets[0].attr] = td if any(isinstance(c, ast.Call) and norm(c.func).rsplit(".", 1)[-1] == "timedelta" for c in ast.walk(n.value)) else 0
    if not attrs:
        return None
    bases = tuple(norm(b).rsplit(".", 1)[-1] for b in xd.cls("Duration").bases)
    return _H.Obj("Duration", attrs, falsy=None if (xd.has("Duration.__bool__") or xd.has("Duration.__len__") or bases) else False,
                  delegate=td if xd.has("Duration.__getattr__") else None, bases=bases)


def _is_zero_duration(e: ast.AST) -> bool:
    """timedelta() / timedelta(0) / Duration() / Duration(days=0, ...): a duration constructor all of whose arguments fold to 0"""
    return isinstance(e, ast.Call) and isinstance(e.func, ast.Name) and e.func.id in ("timedelta", "Duration") \
        and all(_fold(a) == 0 for a in e.args) and all(k.arg is not None and _fold(k.value) == 0 for k in e.keywords)


# ------------------------------------------------------------------------------------------------------------- (o)
def _rule_o(repo, rep, tm, xd, conv, rid="C09.o-zero-duration-form-in-lexical-space", text=None, floor=3, other_types=False) -> None:
    """other_types=False: the Python type parse_xsd_duration builds for a duration without years and months (rule o);
    other_types=True: the remaining Python types the converter can yield (rule w)"""
    rep.rule(rid, text or (
             "for every datatype whose converter is parse_xsd_duration, the lexicaliser that _castPythonToLiteral selects (datatype-specific rule first, then first generic "
             "isinstance match) for the Python type parse_xsd_duration returns for a duration without years and months writes the ZERO duration - the constant forms it returns "
             "independently of the value - inside the lexical space of that datatype: 'P0D' is no xsd:yearMonthDuration, so 'P0Y'^^xsd:yearMonthDuration must not be normalised to it"), floor=floor)
    pd = xd.func("parse_xsd_duration")
    rep.analysed("rdflib/xsd_datetime.py:parse_xsd_duration", "rdflib/xsd_datetime.py:duration_isoformat")
    zero_types: set[str] = set()
    universe = _duration_fields(xd)
    for n in own_nodes(pd):
        if isinstance(n, ast.If):
            # the fields of the match the test requires to be zero: `<expression computed from exactly one field> == 0` (the field read
            # itself, or a local bound to its converted text)
            zeroed = set()
            for c in ast.walk(n.test):
                if isinstance(c, ast.Compare) and len(c.ops) == 1 and isinstance(c.ops[0], ast.Eq) and _fold(c.comparators[0]) == 0:
                    fs = _H.fields_of(xd, pd, c.left, universe)
                    if len(fs) == 1:
                        zeroed |= fs
            if {"years", "months"} <= zeroed:
                for st in n.body:
                    zero_types |= {c.func.id for c in ast.walk(st) if isinstance(c, ast.Call) and isinstance(c.func, ast.Name) and c.func.id in ("timedelta", "Duration")}
    if not zero_types:
        raise AnalysisError("parse_xsd_duration: the branch for years == 0 and months == 0 was not found")
    if other_types:
        zero_types = set(_produces(tm, xd, "parse_xsd_duration")) - zero_types
        if not zero_types:
            raise AnalysisError("parse_xsd_duration yields no Python type besides the one of the zero duration")
    spec = _table(tm, "_SpecificPythonToXSDRules")
    gen = _table(tm, "_GenericPythonToXSDRules")
    if not isinstance(spec, ast.List) or not isinstance(gen, ast.List):
        raise AnalysisError("rule tables are not list displays")

    def select(t, d):
        for e in spec.elts:
            if isinstance(e, ast.Tuple) and len(e.elts) == 2 and isinstance(e.elts[0], ast.Tuple) and len(e.elts[0].elts) == 2:
                if _short_sub(xd, t, norm(e.elts[0].elts[0])) and _local(tm, e.elts[0].elts[1]) == d:
                    return e.elts[1]
        for e in gen.elts:
            if isinstance(e, ast.Tuple) and len(e.elts) == 2 and isinstance(e.elts[1], ast.Tuple) and _short_sub(xd, t, norm(e.elts[0])):
                return e.elts[1].elts[0]
        return None

    def fn_named(name):
        for m in (tm, xd):
            if m.has(name) and isinstance(m.defs[name], ast.FunctionDef):
                return m.defs[name]
        return None

    def forms(e, param, depth=0) -> set[str]:
        """string constants an expression yields for a zero (falsy) argument / independently of its argument"""
        if isinstance(e, ast.Constant) and isinstance(e.value, str):
            return {e.value}
        if isinstance(e, ast.IfExp):
            if param is not None and isinstance(e.test, ast.Name) and e.test.id == param:
                return forms(e.orelse, param, depth)
            if param is not None and isinstance(e.test, ast.UnaryOp) and isinstance(e.test.op, ast.Not) and isinstance(e.test.operand, ast.Name) and e.test.operand.id == param:
                return forms(e.body, param, depth)
            if param is not None and isinstance(e.test, ast.Compare) and len(e.test.ops) == 1 and isinstance(e.test.ops[0], (ast.Eq, ast.NotEq)):
                # `param == <zero duration>` / `param != <zero duration>`: decided for the zero argument
                sides = [e.test.left, e.test.comparators[0]]
                if any(isinstance(x, ast.Name) and x.id == param for x in sides) and any(_is_zero_duration(x) for x in sides):
                    return forms(e.body if isinstance(e.test.ops[0], ast.Eq) else e.orelse, param, depth)
            return forms(e.body, param, depth) | forms(e.orelse, param, depth)
        if isinstance(e, ast.Lambda):
            return forms(e.body, e.args.args[0].arg if e.args.args else None, depth)
        callee = e.func.id if isinstance(e, ast.Call) and isinstance(e.func, ast.Name) else (e.id if isinstance(e, ast.Name) else None)
        if callee is not None and depth < 3:
            f2 = fn_named(callee)
            if f2 is not None:
                out: set[str] = set()
                for r in own_nodes(f2):
                    if isinstance(r, ast.Return) and r.value is not None:
                        out |= forms(r.value, None, depth + 1)
                return out
        return set()

    def written_for_zero(lx, t):
        """the text the lexicaliser writes for the zero value of the Python type t: its code (with the functions of term.py / xsd_datetime.py it calls) evaluated
        on that argument by vlib.h_c09.Evaluator - however the text is put together (constants, +, %, f-strings, join; flags, early exits); None when the
        evaluation meets something it does not model"""
        zero = _zero_duration_value(xd, t)
        f = lx if isinstance(lx, ast.Lambda) else (fn_named(lx.id) if isinstance(lx, ast.Name) else None)
        if zero is None or f is None:
            return None
        try:
            v = _H.Evaluator(fn_named, STD).call(f, [zero])
        except _H._Unk:
            return None
        return v if isinstance(v, str) else None

    for d in sorted(k for k, cv in conv.items() if cv == "parse_xsd_duration"):
        if d not in XSD_DURATION_LEXICAL:
            raise AnalysisError("no lexical space known for duration datatype %s" % d)
        for t in sorted(zero_types):
            lx = select(t, d)
            if lx is None:
                raise AnalysisError("no lexicaliser found for (%s, %s)" % (t, d))
            # the constant forms the lexicaliser can hand back whatever the value, and the form its code gives for the zero value
            zs = {z for z in forms(lx, None) if _re.fullmatch(r"-?P[0-9T][0-9A-Z.]*", z)}
            z0 = written_for_zero(lx, t)
            if z0 is not None:
                zs.add(z0)
            if not zs:
                raise AnalysisError("the zero form written by %s could not be determined" % norm(lx)[:60])
            # one obligation per (Python type, datatype): every form found lies in the lexical space (however many constants the lexicaliser is written with)
            bad = [z for z in sorted(zs) if XSD_DURATION_LEXICAL[d].fullmatch(z) is None]
            rep.ob(rid, tm, "_castPythonToLiteral", "(%s, %s) -> %s writes %s" % (t, d, norm(lx)[:60], " / ".join(repr(z) for z in sorted(zs))), not bad,
                   "in the lexical space" if not bad else ("%s is not in the lexical space of xsd:%s: " % (" / ".join(repr(z) for z in bad), d)) + (("a zero %s written as xsd:%s - Literal(%s(), datatype=XSD.%s), the difference of two equal literals - is an ill-formed literal" % (t, d, t, d))
                                                        if other_types else ("Literal('P0Y', datatype=XSD.%s) is normalised to an ill-formed literal" % d)), node=lx)


# ------------------------------------------------------------------------------------------------------------- (p)
def _rule_p(repo, rep, tm, conv) -> None:
    rid = "C09.p-same-converter-datatypes-comparable-in-eq"
    rep.rule(rid,
             "datatypes that share one converter function in XSDToPython have values of one Python type that == compares (xsd:duration and the two datatypes derived from it, "
             "the integer family, float/double): Literal.eq (or the private function it runs for two literals) tests `dtA in C and dtB in C` for a collection C containing the whole family and compares the values, in a "
             "statement placed before the `datatypes differ -> not equal / TypeError` statement; else Literal('P1D', datatype=XSD.dayTimeDuration).eq(Literal('P1D', datatype=XSD.duration)) is False", floor=15)
    # the comparison of two literals is the function - Literal.eq or a private function it runs - that holds the `datatypes differ`
    # statement; the pairwise tests are looked for in that function, before that statement
    found = []
    for q, f in _eq_functions(repo, tm)[1]:
        rep.analysed("rdflib/term.py:" + q)
        for other in [a.arg for a in f.args.args[1:]]:
            r = _rule_p_in(tm, f, f.args.args[0].arg, other)
            if r is not None:
                found.append((q,) + r)
    if len(found) != 1:
        raise AnalysisError("Literal.eq: expected one `datatypes differ` statement, found %d" % len(found))
    q, reject, before = found[0]
    groups: dict[str, list[str]] = {}
    for d, cv in conv.items():
        if cv != "None":
            groups.setdefault(cv, []).append(d)
    for cv, ds in sorted(groups.items()):
        if len(ds) < 2:
            continue
        for d in sorted(ds):
            ok = any(set(ds) <= s for _, s in before)
            rep.ob(rid, tm, q, "xsd:%s comparable with the other datatypes read by %s" % (d, cv), ok,
                   "" if ok else "no value comparison for two literals of {%s} precedes %s: literals of these datatypes with the same value are reported unequal" % (", ".join(sorted(ds)), norm(reject.test)), node=reject)


def _rule_p_in(tm, f, me: str, other: str):
    """(the `datatypes of me and other differ` statement of f, the pairwise value comparisons placed before it in its block); None when f has no such statement"""

    def owner(e) -> set[str]:
        """which operand's datatype an expression denotes ({self}, {other}); through one local assignment"""
        if isinstance(e, ast.Name):
            v = _single_def(f, e.id)
            return set() if v is None else {x.value.id for x in ast.walk(v) if isinstance(x, ast.Attribute) and x.attr in ("datatype", "_datatype") and isinstance(x.value, ast.Name)}
        if isinstance(e, ast.Attribute) and e.attr in ("datatype", "_datatype") and isinstance(e.value, ast.Name):
            return {e.value.id}
        return set()

    def conjuncts(t):
        if isinstance(t, ast.BoolOp) and isinstance(t.op, ast.And):
            for v in t.values:
                yield from conjuncts(v)
        else:
            yield t
    pair_ifs, reject = [], []
    for n in own_nodes(f):
        if not isinstance(n, ast.If):
            continue
        ins = [c for c in conjuncts(n.test) if isinstance(c, ast.Compare) and len(c.ops) == 1 and isinstance(c.ops[0], ast.In)]
        for a in ins:
            for b in ins:
                if owner(a.left) == {me} and owner(b.left) == {other} and norm(a.comparators[0]) == norm(b.comparators[0]):
                    coll = _collection(tm, a.comparators[0])
                    compares_values = any(isinstance(r, ast.Return) and r.value is not None and {x.value.id for x in ast.walk(r.value) if isinstance(x, ast.Attribute) and x.attr == "value" and isinstance(x.value, ast.Name)} >= {me, other}
                                          for st in n.body for r in ast.walk(st))
                    if coll is not None and compares_values:
                        pair_ifs.append((n, {_local(tm, x) for x in coll}))
        if isinstance(n.test, ast.Compare) and len(n.test.ops) == 1 and isinstance(n.test.ops[0], ast.NotEq) \
                and {frozenset(owner(n.test.left)), frozenset(owner(n.test.comparators[0]))} == {frozenset({me}), frozenset({other})}:
            reject.append(n)
    if not reject:
        return None
    if len(reject) != 1:
        raise AnalysisError("Literal.eq: expected one `datatypes differ` statement, found %d" % len(reject))
    blk = tm.parent.get(id(reject[0]))
    body = [x for fld in ("body", "orelse") for x in getattr(blk, fld, []) if isinstance(getattr(blk, fld, None), list)]
    pos = {id(x): i for i, x in enumerate(body)}
    before = [(n, s) for n, s in pair_ifs if id(n) in pos and pos[id(n)] < pos[id(reject[0])]]
    return reject[0], before


# ------------------------------------------------------------------------------------------------------------- (q)
def _duration_fields(xd) -> set[str]:
    """the named groups of ISO8601_PERIOD_REGEX"""
    for st in xd.tree.body:
        if isinstance(st, ast.Assign) and isinstance(st.targets[0], ast.Name) and st.targets[0].id == "ISO8601_PERIOD_REGEX":
            pat = "".join(c.value for c in ast.walk(st.value) if isinstance(c, ast.Constant) and isinstance(c.value, str))
            return set(_re.findall(r"\(\?P<(\w+)>", pat))
    raise AnalysisError("ISO8601_PERIOD_REGEX not found")


def _rule_q(repo, rep, tm, xd) -> None:
    rid = "C09.q-fraction-field-converted-exactly"
    rep.rule(rid,
             "in parse_xsd_duration the text of a field that may carry a fraction in the XSD lexical form (XSD allows one only before 'S'; the field is found by the named group of ISO8601_PERIOD_REGEX that ends in that designator) is not converted with float() "
             "on its way to the timedelta / Duration constructor: a float keeps 53 bits, so 'PT9999999999.000001S' (a seconds field above about 8.6e9) loses its microsecond digits "
             "and the literal is normalised to another value. The conversions of a field are the numeric constructors its text - every read `G[k]` / `G.get(k)` whose key can be "
             "that field where it is evaluated - is handed to first, followed through slicing, str methods, casts, local names and the functions of the package it is passed to; "
             "a constructor argument reads a field when it is computed from it, also through local names", floor=2)
    pd = xd.func("parse_xsd_duration")
    lexpat = XSD_DURATION_LEXICAL["duration"].pattern  # XSD: only the seconds field may have a fraction
    isopat = None
    for st in xd.tree.body:
        if isinstance(st, ast.Assign) and isinstance(st.targets[0], ast.Name) and st.targets[0].id == "ISO8601_PERIOD_REGEX":
            isopat = "".join(c.value for c in ast.walk(st.value) if isinstance(c, ast.Constant) and isinstance(c.value, str))
    if not lexpat or not isopat:
        raise AnalysisError("ISO8601_PERIOD_REGEX not found")
    frac_letters = set(_re.findall(r"\(\\\.\[0-9\]\+\)\?([A-Z])", lexpat))
    names = {nm for nm, letter in _re.findall(r"\(\?P<(\w+)>[^()]*(?:\([^()]*\))?[^()]*?([A-Z])\)", isopat) if letter in frac_letters}
    if not frac_letters or not names:
        raise AnalysisError("no fraction-bearing field found in the duration patterns")
    universe = _duration_fields(xd)
    calls = _H.Calls(repo)
    # conversions applied to the text of each field
    convs: dict[str, set[str]] = {nm: set() for nm in names}
    for n in own_nodes(pd):
        if _H.key_read(n) is None:
            continue
        ks = _H.feasible_keys(xd, pd, n, universe) & names
        if not ks:
            continue
        cv, _ = _H.text_conversions(calls, xd, pd, n)
        for nm in ks:
            convs[nm] |= cv
    # uses: keyword arguments of the constructor calls that are computed from the field
    uses = 0
    for c in own_nodes(pd):
        if isinstance(c, ast.Call) and isinstance(c.func, ast.Name) and c.func.id in ("timedelta", "Duration"):
            for kw in c.keywords:
                for nm in sorted(_H.fields_of(xd, pd, kw.value, universe) & names):
                    uses += 1
                    cv = convs[nm]
                    ok = bool(cv) and "float" not in cv
                    rep.ob(rid, xd, "parse_xsd_duration", "%s(%s=...) reads field %r converted by %s" % (c.func.id, kw.arg, nm, "/".join(sorted(cv)) or "?"), ok,
                           "exact" if ok else "the %r field, which carries the fraction, is converted by float(): above 2**53 microseconds (about 9e9 s) the last digits are lost" % nm, node=c)
    if not uses:
        raise AnalysisError("parse_xsd_duration: no constructor argument reads the fraction-bearing field(s) %s" % sorted(names))


def tm_parents(mod, node, stop):
    for p in mod.parents(node):
        if p is stop:
            return
        yield p


# ------------------------------------------------------------------------------------------------------------- (r)
def _rule_r(repo, rep, mods) -> None:
    rid = "C09.r-isinstance-chain-no-shadowed-class"
    rep.rule(rid,
             "in every chain of isinstance tests on one subject in rdflib/term.py and rdflib/xsd_datetime.py that are tried one after the other (if / elif; an `if` whose "
             "branches all leave the function followed by the next `if`; a chain written inside a later branch of another chain, which runs after the earlier tests of that "
             "one failed; the rows of a constant table that a `for` runs through until the first one matches; and, when all tests failed and the rest is `return <private "
             "function>(...)`, the chain that function starts with, about the parameter the subject is bound to - at every call of it), no class tested by a later branch is a subclass of a class that an earlier "
             "branch tests unconditionally: that branch is dead for it (bool after int: Literal(True).eq(True) fell into the numeric branch and returned NotImplemented)", floor=17)
    calls = _H.Calls(repo)
    for m in mods:
        chains = {id(fn): (q, fn, list(_else_chains(m, fn))) for q, fn in m.functions()}

        def unconditional(chain):
            out = []
            for br in chain:
                it = _isinstance_test(repo, m, br.test)
                if it is not None:
                    out.extend((it[0], t) for t, _ in it[1])
            return out

        def inherited(fn, chain, depth=0):
            """(parameter, class) pairs that every caller of the private function fn has tested, and seen fail, before it runs fn as
            the last alternative of a chain of its own - when `chain` is what fn starts with"""
            nm = getattr(fn, "name", "")
            body = [st for st in fn.body if not (isinstance(st, ast.Expr) and isinstance(st.value, ast.Constant))]
            if depth > 3 or not nm.startswith("_") or (nm.startswith("__") and nm.endswith("__")) or not body or body[0] is not chain[0]:
                return []
            common = None
            for cq, cf, call in calls.every_call_site(m, fn) or []:
                b = calls.bind(m.qual_of(fn), fn, call)
                here = []
                for ch, rest in chains.get(id(cf), ("", None, []))[2]:
                    if b is not None and rest is not None and len(rest) == 1 and isinstance(rest[0], ast.Return) and rest[0].value is call:
                        for subj, t in inherited(cf, ch, depth + 1) + unconditional(ch):
                            here.extend((p, t) for p, a in b.items() if norm(a) == subj and not _H.defs_of(fn, p) and not _H.defs_of(cf, subj))
                common = here if common is None else [x for x in common if x in here]
            return common or []

        member = {id(br): (ch, k) for _q, _fn, chs in chains.values() for ch, _rest in chs for k, br in enumerate(ch)}

        def enclosing(fn, chain):
            """(subject, class) pairs that the chains around this one have tested, and seen fail, where it starts: a chain written
            inside a branch of another chain runs only when the earlier branches of that chain were not taken (inside its final
            `else`: none of them) - the same control flow as further `elif`s of the outer chain"""
            child = chain[0]
            for p in m.parents(chain[0]):
                if p is fn:
                    break
                if isinstance(p, ast.If) and id(p) in member:
                    ch, k = member[id(p)]
                    failed = ch[:k] if any(child is x for x in p.body) else (ch[:k + 1] if any(child is x for x in p.orelse) else None)
                    if failed is not None:
                        return [(s_, t) for s_, t in enclosing(fn, ch) + inherited(fn, ch) + unconditional(failed) if s_.isidentifier() and not any(x.id == s_ for x in ast.walk(fn) if isinstance(x, ast.Name) and not isinstance(x.ctx, ast.Load))]
                child = p
            return []

        for q, fn in m.functions():
            for chain, _rest in chains[id(fn)][2]:
                seen: list[tuple[str, str]] = inherited(fn, chain) + enclosing(fn, chain)  # (subject, class) tested by earlier branches
                if len(chain) < 2 and not seen:
                    continue
                for br in chain:
                    it = _isinstance_test(repo, m, br.test)
                    if it is None:
                        # `isinstance(...) and cond`: later branches stay reachable; nothing recorded
                        continue
                    subj, ts = it
                    for t, node in ts:
                        if not any(s == subj for s, u in seen):
                            continue  # first test of this subject in the chain: nothing can shadow it
                        sh = [u for s, u in seen if s == subj and _ty_sub(repo, t, u)]
                        rep.ob(rid, m, q, "isinstance(%s, %s) after [%s]" % (subj, norm(node), ", ".join(u.rsplit(".", 1)[-1] for s, u in seen if s == subj)), not sh,
                               "reachable" if not sh else "%s is a subclass of %s, which an earlier branch of the chain takes: this branch never runs for a %s" % (norm(node), sh[0], norm(node)), node=br)
                    seen.extend((subj, t) for t, _ in ts)
                rep.analysed("%s:%s" % (m.rel, q))


# ------------------------------------------------------------------------------------------------------------- (s)
def _rule_s(repo, rep, tm, xd, conv) -> None:
    rid = "C09.s-eq-python-operand-covers-value-types"
    rep.rule(rid,
             "a branch `isinstance(other, Ts)` of Literal.eq (or of a private function it runs) that compares self.value with the Python operand for the datatypes it tests accepts every Python type that the "
             "converters of those datatypes produce: xsd:decimal is read by Decimal, so the numeric branch takes a Decimal - else Literal(Decimal('1.5')).eq(Decimal('1.5')) is NotImplemented", floor=20)
    for q, f in _eq_functions(repo, tm)[1]:
        for other in [a.arg for a in f.args.args[1:]]:
            _rule_s_in(repo, rep, rid, tm, xd, conv, q, f, f.args.args[0].arg, other)


def _rule_s_in(repo, rep, rid, tm, xd, conv, q, f, me, other) -> None:
    for chain in _if_chains(tm, f):
        for br in chain:
            it = _isinstance_test(repo, tm, br.test)
            if it is None or it[0] != other:
                continue
            ts = [norm(n) for _, n in it[1]]
            for inner in br.body:
                if not isinstance(inner, ast.If):
                    continue
                if not any(isinstance(r, ast.Return) and isinstance(r.value, ast.Compare) and {norm(r.value.left), norm(r.value.comparators[0])} == {me + ".value", other} for st in inner.body for r in ast.walk(st)):
                    continue
                ds = _datatypes_tested(tm, inner.test, me + ".datatype")
                if ds is None:
                    raise AnalysisError("Literal.eq: unmodelled datatype test %s" % norm(inner.test)[:80])
                for d in sorted(ds):
                    if d not in conv:
                        raise AnalysisError("Literal.eq tests datatype %s, which has no converter" % d)
                    for p in _produces(tm, xd, conv[d]):
                        ok = any(_short_sub(xd, p, t) for t in ts)
                        rep.ob(rid, tm, q, "xsd:%s value (%s) accepted by isinstance(%s, (%s))" % (d, p, other, ", ".join(ts)), ok,
                               "" if ok else "the value of an xsd:%s literal is a %s (converter %s), which the branch comparing values of that datatype does not accept: eq(<%s>) returns NotImplemented" % (d, p, conv[d], p), node=br)


_run_base3 = run


def run(repo: Repo, rep: Report) -> None:  # noqa: F811
    _layer(rep, _run_base3, repo)
    rep.extra["explanation"] = rep.extra.get("explanation", "") + (
        " Further structural clauses: (m) Literal.__new__ re-derives the value after white-space processing of the lexical form; (n) a bytes value is lexicalised before "
        "a literal is rebuilt from value + datatype; (o) the zero duration is written inside the lexical space of each duration datatype; (p) datatypes sharing a converter "
        "are compared by value in Literal.eq before the `datatypes differ` exit; (q) the fraction-bearing duration field is not converted through float; (r) no isinstance "
        "chain in term.py / xsd_datetime.py tests a subclass after its base class; (s) each Python-operand branch of Literal.eq accepts every Python type its datatypes' converters produce.")
    tm = repo.mod("rdflib.term")
    xd = repo.mod("rdflib.xsd_datetime")
    conv = _conv_table(tm)
    _each_in_its_own_layer(
        repo, rep,
        lambda repo, rep: _rule_m(repo, rep, tm),
        lambda repo, rep: _rule_n(repo, rep, tm, xd, conv),
        lambda repo, rep: _rule_o(repo, rep, tm, xd, conv),
        lambda repo, rep: _rule_p(repo, rep, tm, conv),
        lambda repo, rep: _rule_q(repo, rep, tm, xd),
        lambda repo, rep: _rule_r(repo, rep, (tm, xd)),
        lambda repo, rep: _rule_s(repo, rep, tm, xd, conv))


# =====================================================================================================================
# layer 4: rules t-x (an ill-typed literal has no value to compare or to re-lexicalise, bounded integer datatypes
# reject what lies outside, the zero form of every duration value type, UTC offsets with seconds)
# =====================================================================================================================
from vlib import h_c09 as _H

_COMPARISON_METHODS = ("eq", "neq", "__gt__", "__lt__", "__le__", "__ge__")


# ------------------------------------------------------------------------------------------------------------- (t)
def _rule_t(repo, rep, tm) -> None:
    rid = "C09.t-value-compared-only-when-well-typed"
    rep.rule(rid,
             "in the value-space comparison methods of Literal (eq, neq, __gt__, __lt__, __le__, __ge__) and the private functions of the module they run, every return "
             "statement whose result is computed from the Python value of an operand (`X.value`, directly or through a local bound to it) is reached only on paths on which "
             "`X.ill_typed` was tested and found not true. What counts as tested: enclosing tests, earlier operands of an and/or, earlier `if ...: return` exits, single-assignment locals, "
             "`bool(A.ill_typed) != bool(B.ill_typed)` exits, a call of a function of the package with X as receiver / argument whose truth value is known and every return "
             "of which that can give that truth value has tested the flag of the parameter, and - inside a private function - what every call of it has established about "
             "the argument. The converter of an ill-typed lexical form hands back some made-up value - Literal('yes', datatype=XSD.boolean).value is False - so without the "
             "test 'yes'^^xsd:boolean eq 'false'^^xsd:boolean, and .eq(False), are True", floor=20)
    lm = tm.methods("Literal")
    if "eq" not in lm:
        raise AnalysisError("Literal.eq vanished")
    calls = _H.Calls(repo)
    n_eq = 0
    done: set[int] = set()
    closures = {name: calls.private_closure(tm, "Literal." + name) for name in _COMPARISON_METHODS if name in lm}
    # the paths of interest start at the comparison methods: inside a private function, what the calls from these functions establish
    scope = {id(f) for fs in closures.values() for _, f in fs}
    for name, fns in closures.items():
        for q, f in fns:
            if id(f) in done:
                n_eq += name == "eq" and any(i["rule"] == rid and i["function"] == q for i in rep.instances)
                continue
            done.add(id(f))
            rep.analysed("rdflib/term.py:" + q)
            for r in own_nodes(f):
                if not (isinstance(r, ast.Return) and r.value is not None):
                    continue
                reads = _H.value_read_nodes(f, r.value)
                if not reads:
                    continue
                # (judged where the value is read: inside `A and not X.ill_typed and X.value ...` the read comes after the test)
                for x in sorted({x for x, _ in reads}):
                    n_eq += name == "eq"
                    ok = all(x in calls.well_typed_at(tm, f, at, None, scope) for y, at in reads if y == x)
                    rep.ob(rid, tm, q, "%s [value of %s]" % (norm(r), x), ok,
                           "%s.ill_typed is known not to be true here" % x if ok else
                           "the result is computed from %s.value on a path on which %s.ill_typed was not tested: an ill-typed literal is compared by the value its converter made up "
                           "('yes'^^xsd:boolean has the value False, '300'^^xsd:byte the value 300)" % (x, x), node=r)
    if not n_eq:
        raise AnalysisError("Literal.eq: no return statement compares a value")


# ------------------------------------------------------------------------------------------------------------- (u)
def _rule_u(repo, rep, tm) -> None:
    rid = "C09.u-relexicalisation-guarded-like-the-constructor"
    rep.rule(rid,
             "wherever a Python value that was READ FROM A LEXICAL FORM (the result of _castLexicalToPython, or `L.value` of a Literal L) is written back as a lexical form of the same "
             "datatype (handed to _castPythonToLiteral, or to Literal(..., datatype=L.datatype)), the call is reached only where (1) the literal is known not to be ill-typed (`not L.ill_typed`, "
             "or `not F` for a local F whose value becomes the `_ill_typed` flag of the literal under construction - stored into it, copied into such a local, or handed back to "
             "the caller that stores it) and "
             "(2) _value_is_approximate(<lexical form>, <value>) was tested false: an ill-typed form has no canonical form and a form that says more than the Python type holds "
             "must be kept - else normalize() turns 'yes'^^xsd:boolean into 'false', '2000-01-01Z'^^xsd:date loses its time zone and a seventh fraction digit of a time is dropped; "
             "the constructor and Literal.normalize are the two such places and must agree", floor=6)
    sites = 0
    calls_ = _H.Calls(repo)
    for m in repo.modules.values():
        for fq, fn in m.functions():
            calls = []
            for c in own_nodes(fn):
                if not (isinstance(c, ast.Call) and c.args):
                    continue
                fname = norm(c.func).rsplit(".", 1)[-1]
                if fname == "_castPythonToLiteral":
                    calls.append((c, None))
                elif fname == "Literal":
                    dt = [k.value for k in c.keywords if k.arg == "datatype"]
                    if dt and isinstance(dt[0], ast.Attribute) and dt[0].attr in ("datatype", "_datatype"):
                        calls.append((c, norm(dt[0].value)))
            if not calls:
                continue
            # the locals whose value ends up as the _ill_typed flag of the instance under construction (stored into it here, copied into
            # such a local, or handed back to a caller that stores it)
            flags = _H.ill_typed_flag_locals(calls_, m, fn, "<the lexical form>")
            for c, dt_owner in calls:
                a0 = c.args[0]
                srcs = _H.reaching_values(m, fn, c, a0.id) if isinstance(a0, ast.Name) else [a0]
                subjects: set[str] = set()
                for sx in srcs:
                    if isinstance(sx, ast.Call) and norm(sx.func).rsplit(".", 1)[-1] == "_castLexicalToPython":
                        subjects.add("<the lexical form>")
                    elif isinstance(sx, ast.Attribute) and sx.attr in ("value", "_value"):
                        tf = repo.typed.type_of(m.name, sx.value)
                        if tf is not None and any(i == "rdflib.term.Literal" for i in tf.items) and (dt_owner is None or dt_owner == norm(sx.value)):
                            subjects.add(norm(sx.value))
                if not subjects:
                    continue  # a Python object given by the caller: nothing was read from a lexical form
                sites += 1
                rep.analysed("%s:%s" % (m.rel, fq))
                facts = _H.facts_at(m, fn, c)
                wt = calls_.well_typed_at(m, fn, c, flags)
                approx = False
                for e, pol in facts:
                    if not pol and isinstance(e, ast.Call) and norm(e.func).rsplit(".", 1)[-1] == "_value_is_approximate" and len(e.args) == 2:
                        v = e.args[1]
                        if norm(v) == norm(a0) or (isinstance(v, ast.Attribute) and v.attr in ("value", "_value") and norm(v.value) in subjects) \
                                or (isinstance(v, ast.Name) and isinstance(a0, ast.Name) and any(sx is not None and norm(sx) == norm(d) for sx in srcs for d in _H.defs_of(fn, v.id) if d is not None)):
                            approx = True
                for sj in sorted(subjects):
                    ok = sj in wt
                    rep.ob(rid, m, fq, "%s [%s not ill-typed]" % (norm(c)[:90], sj), ok,
                           "guarded" if ok else "the value read from %s is written back as a lexical form on a path on which its ill-typed flag was not tested: an ill-typed literal is "
                           "replaced by the form of the value its converter made up (Literal('yes', datatype=XSD.boolean, normalize=False).normalize() is 'false')" % sj, node=c)
                rep.ob(rid, m, fq, "%s [value not approximate]" % norm(c)[:90], approx,
                       "guarded" if approx else "no `not _value_is_approximate(<lexical form>, %s)` holds here: a form that says more than the Python value ('2000-01-01Z'^^xsd:date, "
                       "'12:00:00.0000001'^^xsd:time) is replaced by the form of the narrower value" % norm(a0), node=c)
    if not sites:
        raise AnalysisError("no re-lexicalisation site (_castPythonToLiteral / Literal(L.value, datatype=L.datatype)) found")


# ------------------------------------------------------------------------------------------------------------- (v)
def _rule_v(repo, rep, tm, conv) -> None:
    rid = "C09.v-bounded-integer-datatype-rejects-outside"
    rep.rule(rid,
             "every integer-derived datatype with a converter in XSDToPython whose XSD value space is bounded (xsd:long, int, short, byte, their unsigned variants, "
             "non/Positive/Negative-Integer) has a checker registered in _check_well_formed_types - the fallback _well_formed_by_value accepts every value - and that checker, "
             "evaluated by constant folding of its comparison chain (or, where it is made by functools.partial of a shared function or has early exits, by evaluating its code), REJECTS the integers next to each bound: else '9223372036854775808'^^xsd:long and "
             "'18446744073709551616'^^xsd:unsignedLong are taken for well-typed and normalised (counterpart of rule f, which checks that the bounds themselves are accepted)", floor=20)
    wf = _table(tm, "_check_well_formed_types")
    checker = {_local(tm, k): v for k, v in {norm(k): (k, v) for k, v in _table_entries(tm, "_check_well_formed_types")}.values()}
    int_types = {k for k, v in STD.items() if v is int}
    for d, (lo, hi) in sorted(XSD_INT_BOUNDS.items()):
        if d not in conv or (lo is None and hi is None):
            continue
        if conv[d] not in int_types:
            raise AnalysisError("xsd:%s is not read by an integer converter (%s)" % (d, conv[d]))
        outside = ([lo - 1] if lo is not None else []) + ([hi + 1] if hi is not None else [])
        ck = checker.get(d)
        if ck is None:
            for pt in outside:
                rep.ob(rid, tm, "_check_well_formed_types", "xsd:%s rejects %d" % (d, pt), False,
                       "no checker is registered for xsd:%s, so the fallback (a value could be made) decides: %d, outside the value space, is well-typed" % (d, pt), node=wf)
            continue
        fname = norm(ck)
        cal = _checker(tm, ck)
        if cal is None:
            raise AnalysisError("checker %s of xsd:%s is not a callable defined in term.py" % (fname, d))
        rep.analysed("rdflib/term.py:" + fname)
        for pt in outside:
            a = _checker_accepts(tm, ck, cal, pt, int_types)
            if a is None:
                raise AnalysisError("checker %s: cannot decide whether it accepts %d" % (fname, pt))
            rep.ob(rid, tm, fname, "xsd:%s rejects %d" % (d, pt), not a,
                   "outside the value space and rejected" if not a else "%d is outside the value space of xsd:%s (%s .. %s) but the checker accepts it: the literal is not flagged ill-typed "
                   "and is normalised" % (pt, d, lo if lo is not None else "-inf", hi if hi is not None else "inf"), node=ck)


# ------------------------------------------------------------------------------------------------------------- (x)
def _rule_x(repo, rep, tm, xd) -> None:
    rid = "C09.x-utc-offset-inspected-before-isoformat"
    rep.rule(rid,
             "isoformat() of the Python types that carry a UTC offset (those with a utcoffset() method: datetime, time - a fact of the standard library) writes the offset with its "
             "seconds when it has any ('+00:19:32', a local mean time), and an XSD time zone is (+|-)hh:mm only. So in every Python->XSD lexicaliser registered for such a type "
             "(generic and datatype-specific rules, through the functions of term.py / xsd_datetime.py it calls) each isoformat() call is reached only through a test that reads the "
             "value's utcoffset() / tzinfo (a branch that can treat such a value differently): else Literal(datetime(..., tzinfo=<offset 0:19:32>)) has a lexical form that is no "
             "xsd:dateTime and is ill-typed when read back", floor=2)
    lexers: list[tuple[str, str, ast.AST]] = []
    gen, spec = _table(tm, "_GenericPythonToXSDRules"), _table(tm, "_SpecificPythonToXSDRules")
    if not isinstance(gen, ast.List) or not isinstance(spec, ast.List):
        raise AnalysisError("rule tables are not list displays")
    for e in gen.elts:
        if isinstance(e, ast.Tuple) and len(e.elts) == 2 and isinstance(e.elts[1], ast.Tuple) and len(e.elts[1].elts) == 2:
            lexers.append((norm(e.elts[0]), _local(tm, e.elts[1].elts[1]), e.elts[1].elts[0]))
    for e in spec.elts:
        if isinstance(e, ast.Tuple) and len(e.elts) == 2 and isinstance(e.elts[0], ast.Tuple) and len(e.elts[0].elts) == 2:
            lexers.append((norm(e.elts[0].elts[0]), _local(tm, e.elts[0].elts[1]), e.elts[1]))

    def fn_named(name):
        for m in (tm, xd):
            if m.has(name) and isinstance(m.defs[name], ast.FunctionDef):
                return m, m.defs[name]
        return None, None

    def reads_offset(fn, e, depth=0) -> bool:
        for n in ast.walk(e):
            if isinstance(n, ast.Attribute) and n.attr in ("utcoffset", "tzinfo"):
                return True
            if isinstance(n, ast.Name) and isinstance(n.ctx, ast.Load) and depth < 2 and not isinstance(fn, ast.Lambda):
                if any(d is not None and reads_offset(fn, d, depth + 1) for d in _H.defs_of(fn, n.id)):
                    return True
        return False

    found = 0
    for t, d, lx in lexers:
        cls = STD.get(t.rsplit(".", 1)[-1])
        if cls is None or not hasattr(cls, "utcoffset"):
            continue
        work = []
        if isinstance(lx, ast.Lambda):
            work.append((tm, lx))
        elif isinstance(lx, ast.Name):
            m, f = fn_named(lx.id)
            if f is None:
                raise AnalysisError("lexicaliser %s of %s not found" % (lx.id, t))
            work.append((m, f))
        seen: set[str] = set()
        while work:
            m, f = work.pop()
            g = None if isinstance(f, ast.Lambda) else CFG(f)
            body_nodes = list(ast.walk(f.body)) if isinstance(f, ast.Lambda) else list(own_nodes(f))
            for n in body_nodes:
                if isinstance(n, ast.Call) and isinstance(n.func, ast.Name) and n.func.id not in seen:
                    seen.add(n.func.id)
                    m2, f2 = fn_named(n.func.id)
                    if f2 is not None:
                        work.append((m2, f2))
                if not (isinstance(n, ast.Call) and isinstance(n.func, ast.Attribute) and n.func.attr == "isoformat"):
                    continue
                found += 1
                # conditional expressions / and-or operands around the call
                ok = any(reads_offset(f, e) for e, _ in _H.facts_at(m, f, n)) if not isinstance(f, ast.Lambda) else False
                if isinstance(f, ast.Lambda):
                    child = n
                    for p in m.parents(n):
                        if isinstance(p, ast.IfExp) and child is not p.test and reads_offset(f, p.test):
                            ok = True
                        if p is f:
                            break
                        child = p
                elif not ok:
                    tests = [g.by_ast[id(s)] for s in own_nodes(f) if isinstance(s, (ast.If, ast.While)) and id(s) in g.by_ast and reads_offset(f, s.test)]
                    ok = bool(tests) and g.must_pass_before(_stmt_of(m, g, n), tests)
                where = f.name if isinstance(f, ast.FunctionDef) else "_GenericPythonToXSDRules"
                rep.ob(rid, m, where, "%s -> xsd:%s: %s" % (t, d, norm(n)), ok,
                       "the offset is inspected first" if ok else
                       "%s is written by a bare isoformat(): a %s whose UTC offset has seconds (tzinfo=timezone(timedelta(minutes=19, seconds=32))) gets the lexical form "
                       "'...+00:19:32', which is outside the lexical space of xsd:%s - ill-typed when read back" % (t, t, d), node=n)
    if not found:
        raise AnalysisError("no isoformat() call reachable from the lexicalisers of datetime / time")


_run_base4 = run


def run(repo: Repo, rep: Report) -> None:  # noqa: F811
    # (a `for` over the rows of a constant table is the chain of branches it stands for: the rules read it in that form)
    repo = _H.unrolled(repo)
    _layer(rep, _run_base4, repo)
    rep.extra["explanation"] = rep.extra.get("explanation", "") + (
        " (t) value-space comparisons read an operand's value only where it is known not to be ill-typed; (u) a value read from a lexical form is re-lexicalised only for a "
        "well-typed literal whose value is not approximate, in the constructor and in normalize() alike; (v) the checker of every bounded integer datatype rejects the integers "
        "next to its bounds; (w) the zero duration is written inside the lexical space for every Python type the duration converter yields; (x) lexicalisers of offset-carrying "
        "types inspect the UTC offset before isoformat().")
    tm = repo.mod("rdflib.term")
    xd = repo.mod("rdflib.xsd_datetime")
    conv = _conv_table(tm)
    _each_in_its_own_layer(
        repo, rep,
        lambda repo, rep: _rule_t(repo, rep, tm),
        lambda repo, rep: _rule_u(repo, rep, tm),
        lambda repo, rep: _rule_v(repo, rep, tm, conv),
        lambda repo, rep: _rule_w(repo, rep, tm, xd, conv),
        lambda repo, rep: _rule_x(repo, rep, tm, xd))


def _rule_w(repo, rep, tm, xd, conv) -> None:
    _rule_o(repo, rep, tm, xd, conv, rid="C09.w-zero-form-of-every-duration-value-type", floor=3, other_types=True, text=(
        "as rule o, for the OTHER Python types the converter of the duration datatypes yields (CONVERTER_RESULT of parse_xsd_duration: a Duration besides the timedelta it builds "
        "for a duration without years and months - such values come from arithmetic, e.g. the difference of two equal xsd:yearMonthDuration literals, and from the caller): the "
        "lexicaliser that _castPythonToLiteral selects for (type, datatype) writes the zero duration inside the lexical space of the datatype - Literal(Duration(), "
        "datatype=XSD.yearMonthDuration) must not be 'P0D'"))
