"""C09 - Literal <-> Python value mapping: table consistency (DESIGN.md §2 C09)."""
from __future__ import annotations

import ast
import datetime as _dt
import decimal as _dec
import fractions as _fr

from vlib import truthy
from vlib.core import AnalysisError, Repo, Report, norm, own_nodes

EXPLANATION = (
    "(a) first-match order of _GenericPythonToXSDRules respects subclassing: no entry's Python type is a subclass of an earlier "
    "entry's type with a different mapping (bool before int, datetime before date, Duration before timedelta); (b) every generic "
    "rule's datatype has an entry in XSDToPython whose converter produces that Python type (the type itself, or a parse function "
    "whose return annotation / name agrees); (c) the keys of _check_well_formed_types are datatypes that have a converter, and each "
    "checker is the one named for its datatype; (d) value-space equality/ordering code in Literal never tests a Python value "
    "(`.value`, which is falsy for 0, 0.0, False, '') through truthiness to mean 'no value'. Lexical<->value faithfulness over the "
    "value spaces and idempotence of normalisation are runtime-value properties and not decided."
)

# stdlib facts (these are Python's own classes, not rdflib code)
STD = {"str": str, "float": float, "bool": bool, "int": int, "long_type": int, "Decimal": _dec.Decimal, "datetime": _dt.datetime, "date": _dt.date,
       "time": _dt.time, "timedelta": _dt.timedelta, "Fraction": _fr.Fraction, "bytes": bytes}
# converter -> python type name it produces, when it is not the type itself
CONVERTER_RESULT = {"parse_time": "time", "parse_xsd_date": "date", "parse_datetime": "datetime", "parse_xsd_duration": "Duration|timedelta",
                    "_parseBoolean": "bool", "_parseXML": "xml.dom.minidom.Document", "_parse_html": "xml.dom.minidom.DocumentFragment"}


def _const_str(mod, e: ast.AST) -> str | None:
    """local name of a datatype expression: URIRef(_XSD_PFX + "x") or a constant name bound to such"""
    if isinstance(e, ast.Call) and norm(e.func) == "URIRef" and e.args:
        a = e.args[0]
        if isinstance(a, ast.BinOp) and isinstance(a.right, ast.Constant):
            return norm(a.left) + "+" + a.right.value
        if isinstance(a, ast.Constant):
            return a.value
    if isinstance(e, ast.Name):
        for st in mod.tree.body:
            if isinstance(st, (ast.Assign, ast.AnnAssign)):
                t = st.targets[0] if isinstance(st, ast.Assign) else st.target
                if isinstance(t, ast.Name) and t.id == e.id and getattr(st, "value", None) is not None:
                    return _const_str(mod, st.value)
    if isinstance(e, ast.Constant) and e.value is None:
        return None
    return norm(e)


def _table(mod, name: str) -> ast.AST:
    for st in mod.tree.body:
        if isinstance(st, (ast.Assign, ast.AnnAssign)):
            t = st.targets[0] if isinstance(st, ast.Assign) else st.target
            if isinstance(t, ast.Name) and t.id == name and getattr(st, "value", None) is not None:
                return st.value
    raise AnalysisError("table %s vanished from term.py" % name)


def run(repo: Repo, rep: Report) -> None:
    rep.extra["explanation"] = EXPLANATION
    tm = repo.mod("rdflib.term")
    xd = repo.mod("rdflib.xsd_datetime")

    gen = _table(tm, "_GenericPythonToXSDRules")
    if not isinstance(gen, ast.List) or len(gen.elts) < 10:
        raise AnalysisError("_GenericPythonToXSDRules is not a list display of >= 10 entries")
    entries = []
    for e in gen.elts:
        if not (isinstance(e, ast.Tuple) and len(e.elts) == 2 and isinstance(e.elts[1], ast.Tuple)):
            raise AnalysisError("unmodelled rule entry %s" % norm(e))
        entries.append((norm(e.elts[0]), norm(e.elts[1].elts[0]), _const_str(tm, e.elts[1].elts[1]), e))
    # rdflib's own Duration class: bases from the AST
    dur = xd.cls("Duration")
    dur_bases = [norm(b) for b in dur.bases]

    def is_sub(a: str, b: str) -> bool:
        if a == b:
            return True
        if a in STD and b in STD:
            return issubclass(STD[a], STD[b])
        if a == "Duration":
            return b in dur_bases or any(x in STD and b in STD and issubclass(STD[x], STD[b]) for x in dur_bases)
        return False

    # ------------------------------------------------------------------ (a)
    rep.rule("C09.a-first-match-order",
             "in _GenericPythonToXSDRules (first isinstance match wins) no entry's type is a subclass of an earlier entry's type unless both map identically", floor=10)
    for j, (tj, cj, dj, ej) in enumerate(entries):
        shadow = None
        for i in range(j):
            ti, ci, di, _ = entries[i]
            if is_sub(tj, ti) and (ci, di) != (cj, dj):
                shadow = (ti, di)
                break
        rep.ob("C09.a-first-match-order", tm, "_GenericPythonToXSDRules", "%s -> %s" % (tj, dj), shadow is None,
               "reachable for its own instances" if shadow is None else
               "%s is a subclass of the earlier entry %s (-> %s): a %s value is given that datatype instead of %s" % (tj, shadow[0], shadow[1], tj, dj), node=ej)

    # ------------------------------------------------------------------ (b)
    rep.rule("C09.b-datatype-has-inverse-converter",
             "the datatype each Python type maps to has an entry in XSDToPython whose converter yields that Python type", floor=10)
    x2p = _table(tm, "XSDToPython")
    if not isinstance(x2p, ast.Dict):
        raise AnalysisError("XSDToPython is not a dict display")
    conv = {}
    for k, v in zip(x2p.keys, x2p.values):
        conv[_const_str(tm, k)] = norm(v)
    if len(conv) < 30:
        raise AnalysisError("XSDToPython: expected >= 30 entries, found %d" % len(conv))
    for t, c, d, e in entries:
        if d is None:
            continue  # plain string
        if d not in conv:
            # html/xml literal added conditionally, owl:rational has no converter table entry by design?
            rep.ob("C09.b-datatype-has-inverse-converter", tm, "_GenericPythonToXSDRules", "%s -> %s" % (t, d), t in ("Fraction",),
                   "no XSD converter (owl:rational is parsed by the Fraction special case)" if t in ("Fraction",) else "datatype %s produced for %s has no converter in XSDToPython: toPython() does not give the value back" % (d, t), node=e)
            continue
        cv = conv[d]
        produces = CONVERTER_RESULT.get(cv, cv)
        ok = any(is_sub(p.strip(), t) or is_sub(t, p.strip()) or p.strip().endswith(t) for p in produces.split("|")) or (cv == "None" and t == "str")
        rep.ob("C09.b-datatype-has-inverse-converter", tm, "XSDToPython", "%s -> %s -> %s" % (t, d, cv), ok,
               "converter yields %s" % produces if ok else "the converter registered for %s (%s) does not produce a %s" % (d, cv, t), node=e)
    # parse functions exist
    bound = set(xd.defs)
    for n in ast.walk(xd.tree):
        if isinstance(n, ast.Name) and isinstance(n.ctx, ast.Store):
            bound.add(n.id)
        if isinstance(n, ast.alias):
            bound.add(n.asname or n.name)
    for fn in ("parse_time", "parse_xsd_date", "parse_datetime", "parse_xsd_duration", "duration_isoformat"):
        rep.ob("C09.b-datatype-has-inverse-converter", xd, fn, "%s bound in xsd_datetime" % fn, fn in bound, "" if fn in bound else "%s vanished" % fn, node=xd.tree)

    # ------------------------------------------------------------------ (c)
    rep.rule("C09.c-well-formed-table",
             "every key of _check_well_formed_types has a converter in XSDToPython and its checker is the function named for that datatype", floor=10)
    wf = _table(tm, "_check_well_formed_types")
    if not isinstance(wf, ast.Dict):
        raise AnalysisError("_check_well_formed_types is not a dict display")
    for k, v in zip(wf.keys, wf.values):
        d = _const_str(tm, k)
        local = d.split("+")[-1] if d else ""
        fname = norm(v)
        canon = fname.replace("_well_formed_", "").replace("_", "").lower()
        ok = d in conv and canon == local.lower() and tm.has(fname)
        rep.ob("C09.c-well-formed-table", tm, "_check_well_formed_types", "%s -> %s" % (local, fname), ok,
               "" if ok else "checker %s is registered for %s (converter present: %s): the wrong range check decides ill_typed" % (fname, local, d in conv), node=k)

    # ------------------------------------------------------------------ (d)
    rep.rule("C09.d-python-value-not-tested-by-truthiness",
             "in Literal's value-space comparison methods a Python value (`.value`) is compared with None by identity; its truthiness is never "
             "used to mean `has a value` (0, 0.0, False and '' are values)", floor=2)
    lm = tm.methods("Literal")
    for name in ("eq", "neq", "__gt__", "__lt__", "__le__", "__ge__", "_comparable_to", "__add__", "__sub__", "__neg__", "__pos__", "__abs__", "__invert__", "toPython", "normalize"):
        f = lm.get(name)
        if f is None:
            continue
        rep.analysed("rdflib/term.py:Literal." + name)
        for n in own_nodes(f):
            if isinstance(n, ast.Compare) and isinstance(n.ops[0], (ast.Is, ast.IsNot)) and isinstance(n.left, ast.Attribute) and n.left.attr == "value" \
                    and isinstance(n.comparators[0], ast.Constant) and n.comparators[0].value is None:
                rep.ob("C09.d-python-value-not-tested-by-truthiness", tm, "Literal." + name, n, True, "by identity", node=n)
        for e, owner, kind in truthy.bool_contexts(f):
            if isinstance(e, ast.Attribute) and e.attr == "value" and isinstance(e.value, ast.Name):
                rep.ob("C09.d-python-value-not-tested-by-truthiness", tm, "Literal." + name, "%s [in %s: %s]" % (norm(e), kind, norm(getattr(owner, "test", owner))[:70]), False,
                       "%s is a Python value: 0, 0.0, False and '' are falsy, so zero-valued literals take the `no value` path" % norm(e), node=e)
