"""C07 - term identity laws: table / field agreement (DESIGN.md §2 C07)."""
from __future__ import annotations

import ast

from checks.c03 import escape_table_rules
from vlib import truthy
from vlib.core import AnalysisError, Repo, Report, norm, own_nodes

EXPLANATION = (
    "(a) eq/hash coherence by construction: for every Node subclass of rdflib/term.py that defines __eq__, __hash__ is defined "
    "(or re-bound) in the same class, and every (field, normaliser) the hash reads is compared by __eq__ with the same "
    "normaliser (e.g. Literal: str, _datatype, _language.lower()); (b) _ORDERING gives BNode < Variable < URIRef < Literal "
    "distinct ranks and Identifier.__lt__/__gt__ are mirror images: same guard chain, rank lookup with the same key on both "
    "sides, operator matching the method; the None guard is by identity (a falsy term is not None); (c) pickling: "
    "__reduce__ of every term class rebuilds from all the fields __eq__ compares, and Literal.__getstate__/__setstate__ "
    "use the same keys. Transitivity of Literal ordering and the n3()/from_n3 text round trip are value-level and not decided "
    "(the string-escape table part of the latter is decided under C03)."
)


def _features_hash(fn: ast.AST) -> set[tuple[str, str]]:
    """(field, normaliser) pairs read by a __hash__ body"""
    out = set()
    for c in ast.walk(fn):
        if isinstance(c, ast.Call):
            f = norm(c.func)
            if f in ("str.__hash__",) and c.args and norm(c.args[0]) == "self":
                out.add(("str", ""))
            if f == "hash" and c.args:
                a = c.args[0]
                chain = []
                while isinstance(a, ast.Call) and isinstance(a.func, ast.Attribute) and not a.args:
                    chain.append(a.func.attr)
                    a = a.func.value
                if isinstance(a, ast.Attribute) and isinstance(a.value, ast.Name) and a.value.id == "self":
                    out.add((a.attr, ".".join(reversed(chain))))
                elif norm(a) in ("self", "str(self)"):
                    out.add(("str", ".".join(reversed(chain))))
    return out


def _features_eq(fn: ast.AST) -> set[tuple[str, str]]:
    out = set()
    for c in ast.walk(fn):
        if isinstance(c, ast.Call) and norm(c.func) == "str.__eq__":
            out.add(("str", ""))
        if isinstance(c, ast.Compare) and len(c.ops) == 1 and isinstance(c.ops[0], ast.Eq):
            l, r = c.left, c.comparators[0]
            if norm(l) == "str(self)" and norm(r) == "str(other)":
                out.add(("str", ""))
                continue

            def feat(e, who):
                # self._x  |  self._x.lower() if self._x else None  | self._x.lower()
                if isinstance(e, ast.IfExp):
                    e = e.body
                chain = []
                while isinstance(e, ast.Call) and isinstance(e.func, ast.Attribute) and not e.args:
                    chain.append(e.func.attr)
                    e = e.func.value
                if isinstance(e, ast.Attribute) and isinstance(e.value, ast.Name) and e.value.id == who:
                    return (e.attr, ".".join(reversed(chain)))
                return None
            fl, fr = feat(l, "self"), feat(r, "other")
            if fl and fr and fl == fr:
                out.add(fl)
    return out


def run(repo: Repo, rep: Report) -> None:
    rep.extra["explanation"] = EXPLANATION
    tm = repo.mod("rdflib.term")
    typed = repo.typed
    classes = [c for c in typed.subclasses("rdflib.term.Node") if c.startswith("rdflib.term.")]
    if len(classes) < 8:
        raise AnalysisError("expected >= 8 Node classes in term.py, found %s" % classes)

    # ------------------------------------------------------------------ (a)
    rep.rule("C07.a-eq-hash-coherent",
             "a term class that defines __eq__ also defines/re-binds __hash__, and every (field, normaliser) its hash reads is compared by its __eq__ with the same normaliser", floor=6)
    for c in sorted(classes):
        cname = c.rsplit(".", 1)[1]
        cd = tm.cls(cname)
        meths = tm.methods(cname)
        rebinds = {norm(st.targets[0]): norm(st.value) for st in cd.body if isinstance(st, ast.Assign) and isinstance(st.targets[0], ast.Name)}
        has_eq = "__eq__" in meths
        has_hash = "__hash__" in meths or "__hash__" in rebinds
        if not has_eq and not has_hash:
            continue
        rep.analysed("rdflib/term.py:%s.__eq__" % cname, "rdflib/term.py:%s.__hash__" % cname)
        rep.ob("C07.a-eq-hash-coherent", tm, cname, "__eq__ and __hash__ defined together", has_eq == has_hash or (has_hash and not has_eq),
               "" if has_eq == has_hash else "%s defines __eq__ without __hash__: instances become unhashable / inherit an incoherent hash" % cname, node=cd)
        if not has_eq:
            continue
        eqf = _features_eq(meths["__eq__"])
        if "__hash__" in meths:
            hf = _features_hash(meths["__hash__"])
        else:
            hf = {("str", "")} if rebinds.get("__hash__") == "str.__hash__" else set()
            if not hf:
                raise AnalysisError("%s.__hash__ re-bound to %s: unmodelled" % (cname, rebinds.get("__hash__")))
        if not hf or not eqf:
            raise AnalysisError("%s: could not extract eq/hash features (eq=%s hash=%s)" % (cname, eqf, hf))
        for feat in sorted(hf):
            ok = feat in eqf
            same_field = [e for e in eqf if e[0] == feat[0]]
            rep.ob("C07.a-eq-hash-coherent", tm, cname + ".__hash__", "hash reads %s%s" % (feat[0], "." + feat[1] + "()" if feat[1] else ""), ok,
                   "compared the same way by __eq__" if ok else
                   ("__eq__ compares %s as %s but __hash__ reads it as %s: equal terms can hash differently (sets, dict keys and graphs then keep both)" % (feat[0], same_field[0][1] or "raw", feat[1] or "raw")
                    if same_field else "__hash__ reads %s which __eq__ does not compare" % feat[0]), node=meths.get("__hash__", cd))

    # ------------------------------------------------------------------ (b)
    rep.rule("C07.b-ordering-table-and-mirrors",
             "_ORDERING ranks are distinct with BNode < Variable < URIRef < Literal; Identifier.__lt__/__gt__ have the same guard chain, look ranks up "
             "with the same key expression for both operands, and use the operator of their name; guards on `other` are by identity", floor=8)
    ranks = {}
    for st in tm.tree.body:
        if isinstance(st, ast.Expr) and isinstance(st.value, ast.Call) and norm(st.value.func) == "_ORDERING.update" and st.value.args and isinstance(st.value.args[0], ast.Dict):
            for k, v in zip(st.value.args[0].keys, st.value.args[0].values):
                if isinstance(v, ast.Constant):
                    ranks[norm(k)] = v.value
    want = ["BNode", "Variable", "URIRef", "Literal"]
    ok = all(w in ranks for w in want) and [ranks[w] for w in want] == sorted(ranks[w] for w in want) and len({ranks[w] for w in want}) == 4
    rep.ob("C07.b-ordering-table-and-mirrors", tm, "_ORDERING", "ranks %s" % ranks, ok,
           "BNode < Variable < URIRef < Literal, all distinct" if ok else "kind ranks are not strictly BNode < Variable < URIRef < Literal: %s" % ranks, node=tm.tree)
    im = tm.methods("Identifier")
    ops = {"__lt__": ast.Lt, "__gt__": ast.Gt}
    chains = {}
    for name, op in ops.items():
        f = im.get(name)
        if f is None:
            raise AnalysisError("Identifier.%s vanished" % name)
        rep.analysed("rdflib/term.py:Identifier." + name)
        tests = []
        n = [s for s in f.body if isinstance(s, ast.If)]
        cur = n[0] if n else None
        while cur is not None:
            tests.append(norm(cur.test))
            # comparisons in this arm
            for c in [x for s in cur.body for x in ast.walk(s)]:
                if isinstance(c, ast.Compare) and len(c.ops) == 1 and isinstance(c.ops[0], (ast.Lt, ast.Gt, ast.LtE, ast.GtE)):
                    okop = isinstance(c.ops[0], op)
                    l, r = norm(c.left), norm(c.comparators[0])
                    sym = l.replace("self", "@") == r.replace("other", "@")
                    rep.ob("C07.b-ordering-table-and-mirrors", tm, "Identifier." + name, c, okop and sym,
                           "operator and operands match the method" if okop and sym else
                           "comparison %s in %s uses the wrong operator or asymmetric keys" % (norm(c), name), node=c)
            cur = cur.orelse[0] if len(cur.orelse) == 1 and isinstance(cur.orelse[0], ast.If) else None
        chains[name] = tests
    same = chains["__lt__"] == chains["__gt__"]
    rep.ob("C07.b-ordering-table-and-mirrors", tm, "Identifier.__lt__/__gt__", "guard chains %s" % chains["__gt__"], same,
           "mirror images" if same else "__lt__ and __gt__ decide their cases differently: %s vs %s - for some pair neither a<b nor b<a nor a==b holds, sorting depends on input order" % (chains["__lt__"], chains["__gt__"]), node=im["__lt__"])
    operand = {"other": (True, ["rdflib.term.Literal"], "comparison operand: any term, possibly a falsy one, or None")}
    for cname in ("Identifier", "Literal"):
        for name in ("__lt__", "__gt__", "__le__", "__ge__", "__eq__", "__ne__", "eq", "neq"):
            f = tm.methods(cname).get(name)
            if f is not None:
                truthy.scan(repo, rep, "C07.b-ordering-table-and-mirrors", tm, f, "%s.%s" % (cname, name), extra_types=operand)

    # ------------------------------------------------------------------ (c)
    rep.rule("C07.c-pickle-covers-eq-fields",
             "__reduce__ of URIRef/BNode/Variable rebuilds from str(self); Literal.__reduce__ passes the lexical form, language and datatype; "
             "Literal.__getstate__ and __setstate__ use the same keys and restore the fields __eq__ compares", floor=6)
    for cname in ("URIRef", "BNode", "Variable"):
        f = tm.methods(cname).get("__reduce__")
        if f is None:
            raise AnalysisError("%s.__reduce__ vanished" % cname)
        r = [x for x in own_nodes(f) if isinstance(x, ast.Return)][0].value
        ok = isinstance(r, ast.Tuple) and norm(r.elts[0]) == cname and isinstance(r.elts[1], ast.Tuple) and [norm(e) for e in r.elts[1].elts] == ["str(self)"]
        rep.ob("C07.c-pickle-covers-eq-fields", tm, cname + ".__reduce__", norm(r), ok, "" if ok else "%s is not rebuilt as %s(str(self))" % (cname, cname), node=f)
    lm = tm.methods("Literal")
    r = [x for x in own_nodes(lm["__reduce__"]) if isinstance(x, ast.Return)][0].value
    args = [norm(e) for e in r.elts[1].elts] if isinstance(r, ast.Tuple) and isinstance(r.elts[1], ast.Tuple) else []
    ok = norm(r.elts[0]) == "Literal" and args[:1] == ["str(self)"] and any("language" in a for a in args) and any("datatype" in a for a in args)
    rep.ob("C07.c-pickle-covers-eq-fields", tm, "Literal.__reduce__", norm(r), ok, "lexical form, language and datatype" if ok else "Literal.__reduce__ drops a field that __eq__ compares: %s" % args, node=lm["__reduce__"])
    # positional meaning: Literal.__new__(cls, lexical_or_value, lang, datatype, normalize, ...)
    newp = [a.arg for a in lm["__new__"].args.args[1:]]
    want = {"lexical_or_value": "str(self)", "lang": "self.language", "datatype": "self.datatype"}
    rargs = list(r.elts[1].elts) if isinstance(r, ast.Tuple) and isinstance(r.elts[1], ast.Tuple) else []
    okp = 3 <= len(rargs) <= len(newp)
    for prm, a in zip(newp, rargs):
        if prm in want:
            okp = okp and norm(a) == want[prm]
        else:
            okp = okp and isinstance(a, ast.Constant)  # an option of the constructor, not a field of the term
    rep.ob("C07.c-pickle-covers-eq-fields", tm, "Literal.__reduce__", "argument order matches Literal.__new__%s" % newp[:len(rargs)], okp,
           "" if okp else "the reduce tuple %s does not line up with Literal.__new__'s parameters %s" % (args, newp), node=lm["__reduce__"])
    # the constructor normalises the lexical form by default (normalize=None -> rdflib.NORMALIZE_LITERALS): a copy built from
    # str(self) is the same term only if the reduce tuple switches that off (the stored form may be one that normalisation
    # would rewrite: Literal(1, datatype=XSD.double) is "1", normalize=False literals, ill-typed forms)
    if "normalize" in newp:
        i = newp.index("normalize")
        a = rargs[i] if i < len(rargs) else None
        okn = isinstance(a, ast.Constant) and a.value is False
        rep.ob("C07.c-pickle-covers-eq-fields", tm, "Literal.__reduce__", "rebuilds with normalize=False", okn,
               "" if okn else "Literal.__reduce__ rebuilds through the normalising constructor (normalize is %s): pickle/copy/deepcopy of a literal whose stored lexical form "
               "is not the canonical one gives a different term" % ("left to the default" if a is None else norm(a)), node=lm["__reduce__"])
    gs = [x for x in own_nodes(lm["__getstate__"]) if isinstance(x, ast.Return)][0].value
    gkeys = set()
    for c in ast.walk(gs):
        if isinstance(c, ast.Call) and norm(c.func) == "dict":
            gkeys = {k.arg for k in c.keywords}
        if isinstance(c, ast.Dict):
            gkeys = {k.value for k in c.keys if isinstance(k, ast.Constant)}
    skeys = {}
    for n in own_nodes(lm["__setstate__"]):
        if isinstance(n, ast.Assign) and isinstance(n.value, ast.Subscript) and isinstance(n.value.slice, ast.Constant):
            skeys[n.value.slice.value] = norm(n.targets[0])
    ok = gkeys == set(skeys) == {"language", "datatype"} and skeys.get("language") == "self._language" and skeys.get("datatype") == "self._datatype"
    rep.ob("C07.c-pickle-covers-eq-fields", tm, "Literal.__getstate__/__setstate__", "keys %s -> %s" % (sorted(gkeys), skeys), ok,
           "" if ok else "getstate keys %s and setstate reads %s do not restore _language/_datatype consistently" % (sorted(gkeys), skeys), node=lm["__setstate__"])

    # ------------------------------------------------------------------ (d)  n3() text form: string escape tables (shared with C03)
    escape_table_rules(repo, rep, "C07.d-n3-string-escapes")

    # ------------------------------------------------------------------ (e)
    rep.rule("C07.e-from-n3-forwards-context",
             "util.from_n3 passes its resolution context on in the recursive call that resolves a literal's datatype: the caller's namespace manager "
             "(and default / backend) - otherwise a prefixed datatype is resolved against a different prefix table than the one n3() wrote it with", floor=1)
    um = repo.mod("rdflib.util")
    f = um.func("from_n3")
    params = [a.arg for a in f.args.args]
    ctx_params = [p for p in params[1:]]
    rec = [c for c in own_nodes(f) if isinstance(c, ast.Call) and norm(c.func) == "from_n3"]
    dt_calls = []
    for c in rec:
        # the datatype call: its result is assigned to a name containing 'datatype' or used as datatype=
        par_ = um.parent.get(id(c))
        if isinstance(par_, ast.Assign) and "datatype" in norm(par_.targets[0]).lower():
            dt_calls.append(c)
    if not dt_calls:
        raise AnalysisError("from_n3: recursive datatype resolution call not found")
    for c in dt_calls:
        passed = {}
        for i, a in enumerate(c.args):
            if i < len(params):
                passed[params[i]] = norm(a)
        for k in c.keywords:
            if k.arg:
                passed[k.arg] = norm(k.value)
        missing = [p for p in ctx_params if passed.get(p) != p]
        rep.ob("C07.e-from-n3-forwards-context", um, "from_n3", c, not missing,
               "forwards %s" % ctx_params if not missing else "the datatype is resolved without the caller's %s: text written by n3(namespace_manager) is read back with another prefix table" % missing, node=c)

    # ------------------------------------------------------------------ (f)
    rep.rule("C07.f-sparql-absolute-iri-not-rebased",
             "in the SPARQL prologue, an IRI is handed to base resolution (URIRef(iri, base=...), i.e. urllib's urljoin, which re-assembles and thereby "
             "alters some absolute IRIs: an empty query or empty path parameters are dropped) only under a test that it has no scheme: the n3() text of "
             "an IRI term is absolute and must be read back unchanged", floor=1)
    sm = repo.mod("rdflib.plugins.sparql.sparql")
    af = sm.func("Prologue.absolutize")
    nf = 0
    for c in own_nodes(af):
        if not (isinstance(c, ast.Call) and norm(c.func) == "URIRef" and any(k.arg == "base" for k in c.keywords) and c.args):
            continue
        nf += 1
        x = norm(c.args[0])
        guarded = False
        child = c
        for p_ in sm.parents(c):
            if isinstance(p_, ast.If) and child in p_.body:
                for t in ast.walk(p_.test):
                    if isinstance(t, ast.Compare) and len(t.ops) == 1 and isinstance(t.ops[0], (ast.In, ast.NotIn)) and norm(t.comparators[0]) == x \
                            and isinstance(t.left, ast.Constant) and t.left.value in (":", "://"):
                        # `":" not in x`, or `not ":" in x`
                        neg = isinstance(t.ops[0], ast.NotIn) or isinstance(sm.parent.get(id(t)), ast.UnaryOp)
                        guarded = guarded or neg
                    if isinstance(t, ast.Attribute) and t.attr == "scheme" and x in norm(t):
                        guarded = True
            if p_ is af:
                break
            child = p_
        rep.ob("C07.f-sparql-absolute-iri-not-rebased", sm, "Prologue.absolutize", c, guarded,
               "only scheme-less references are resolved" if guarded else
               "%s is resolved against BASE without a test that it is relative: with BASE <http://example/> the absolute IRI <http://example/a?> (the n3() text of that term) is read as <http://example/a>" % x, node=c)
    if nf == 0:
        rep.ob("C07.f-sparql-absolute-iri-not-rebased", sm, "Prologue.absolutize", "no base resolution through URIRef(base=)", True, "resolution not delegated to urljoin", node=af)


_run_base = run


def run(repo: Repo, rep: Report) -> None:  # noqa: F811
    _run_base(repo, rep)
    # ------------------------------------------------------------------ (g)
    rep.rule("C07.g-sparql-text-parsed-with-tabs",
             "pyparsing's parse_string() expands the tabs of its input to spaces unless parseWithTabs() was called on the expression it is invoked on (documented behaviour); "
             "SPARQL string literals may contain a raw tab (it is what Literal.n3() writes), so every grammar element that parseQuery/parseUpdate call parse_string on is set "
             "to parse with tabs (as the TSV result grammar of the same package already is)", floor=2)
    pm = repo.mod("rdflib.plugins.sparql.parser")
    alias = {}
    for st in pm.tree.body:
        if isinstance(st, ast.Assign) and isinstance(st.value, ast.Name) and isinstance(st.targets[0], ast.Name):
            alias[st.targets[0].id] = st.value.id

    def root(n: str) -> str:
        seen = set()
        while n in alias and n not in seen:
            seen.add(n)
            n = alias[n]
        return n

    with_tabs = set()
    for c in ast.walk(pm.tree):
        if isinstance(c, ast.Call) and isinstance(c.func, ast.Attribute) and c.func.attr in ("parseWithTabs", "parse_with_tabs") and isinstance(c.func.value, ast.Name):
            with_tabs.add(root(c.func.value.id))
    n_entry = 0
    for fn in ("parseQuery", "parseUpdate"):
        f = pm.func(fn)
        for c in own_nodes(f):
            if isinstance(c, ast.Call) and isinstance(c.func, ast.Attribute) and c.func.attr in ("parse_string", "parseString") and isinstance(c.func.value, ast.Name):
                n_entry += 1
                el = c.func.value.id
                ok = root(el) in with_tabs
                rep.ob("C07.g-sparql-text-parsed-with-tabs", pm, fn, c, ok,
                       "%s parses with tabs" % el if ok else
                       "%s.parse_string() runs on a copy of the request in which every tab was replaced by spaces: the literal `a<TAB>b` in quotes (the n3() text of a literal with a tab) is read as 'a' + spaces + 'b'" % el, node=c)
    if n_entry == 0:
        raise AnalysisError("parseQuery/parseUpdate: parse_string call not found")

    # ------------------------------------------------------------------ (h)
    rep.rule("C07.h-from-n3-covers-what-n3-writes",
             "util.from_n3 has a branch for every bare form Identifier.n3() writes: `?name` is read as a Variable (not swallowed by the fall-through that makes a blank node of "
             "any other text), and a decimal shorthand is not converted through float() (a decimal has arbitrary precision; float's repr of a large one is exponent notation, "
             "which is not a decimal lexical form)", floor=2)
    um = repo.mod("rdflib.util")
    f = um.func("from_n3")
    var_branch = [n for n in own_nodes(f) if isinstance(n, ast.If) and 'startswith("?")' in norm(n.test).replace("'", '"')
                  and any(isinstance(r, ast.Return) and r.value is not None and "Variable" in norm(r.value) for r in n.body)]
    rep.ob("C07.h-from-n3-covers-what-n3-writes", um, "from_n3", "`?name` -> Variable", bool(var_branch),
           "" if var_branch else "no branch for the n3() form of a Variable: from_n3('?v') falls through to BNode('?v')", node=f)
    dec = [c for c in own_nodes(f) if isinstance(c, ast.Call) and norm(c.func).endswith("Literal") and any(k.arg == "datatype" and norm(k.value).endswith("XSD.decimal") for k in c.keywords)]
    if not dec:
        raise AnalysisError("from_n3: decimal shorthand branch not found")
    for c in dec:
        through_float = any(isinstance(x, ast.Call) and norm(x.func) == "float" for a in c.args for x in ast.walk(a))
        rep.ob("C07.h-from-n3-covers-what-n3-writes", um, "from_n3", c, not through_float,
               "exact" if not through_float else "the decimal is built from float(s): from_n3('100000000000000000000000.5') gives the lexical form 1.0000000000000001e+23 (not a decimal lexical form), and digits beyond double precision are lost", node=c)
