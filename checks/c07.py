"""C07 - term identity laws: table / field agreement (DESIGN.md §2 C07)."""
from __future__ import annotations

import ast

from typing import Optional

from checks.c03 import escape_table_rules
from vlib import h_c07 as H
from vlib import truthy
from vlib.core import AnalysisError, Repo, Report, norm, own_nodes

EXPLANATION = (
    "(a) eq/hash coherence by construction: for every Node subclass of rdflib/term.py that defines __eq__, __hash__ is defined "
    "(or re-bound) in the same class, and every (field, normaliser) the hash reads is compared by __eq__ with the same "
    "normaliser (e.g. Literal: str, _datatype, _language.lower()); (b) _ORDERING gives BNode < Variable < URIRef < Literal "
    "distinct ranks and Identifier.__lt__/__gt__ are mirror images: same guard chain, rank lookup with the same key on both "
    "sides, operator matching the method; the None guard is by identity (a falsy term is not None); (c) pickling: "
    "__reduce__ of every term class rebuilds from all the fields __eq__ compares, and Literal.__getstate__/__setstate__ "
    "use the same keys. (i)-(q), necessary conditions of the value-level clauses that are visible in the shape of the code: "
    "(i) Literal() decides ill-typedness wherever it interprets a lexical form and keeps an ill-typed or inexactly valued form; "
    "(j) xsd_datetime rejects only durations of mixed sign; (k) every datatype with a lenient converter has a lexical-space pattern, "
    "consulted by a full match, base64 is validated; (l) 'already escaped' is decided by parity, not by one neighbouring character; "
    "(m) every shorthand datatype has a bare token in the Turtle-family parser; (n) n3()/shorthand write the literal's own lexical form, "
    "the shorthand only for literals that are not ill-typed; (o) numbers form one block before a comparison by datatype IRI or lexical form; "
    "(p) language tags are compared case-folded everywhere; (q) NaN test before value comparison, __lt__ is the mirror of __gt__, "
    "__le__/__ge__ accept the same term. What remains value-level and undecided: that the converters themselves compute the XSD value."
)


def _field_feature(e: ast.AST, who: str, D=None, expand=None, depth: int = 0) -> "tuple[str, str] | None":
    """(field, normaliser) when e is a field of <who> as __eq__ / __hash__ read it: who._x, who._x.lower(), `who._x.lower() if who._x else None`
    (the arm for a value that is there), a local name bound once to one of these, or a call f(who._x) of a def - replaced by what it returns when
    it is one expression (`expand`), else the normaliser is the def itself, which is the same function on both sides"""
    if depth > 6:
        return None
    if isinstance(e, ast.Name) and D is not None:
        r = D.resolve(e)
        return _field_feature(r, who, D, expand, depth + 1) if r is not e else None
    if isinstance(e, ast.IfExp):
        return _field_feature(e.body, who, D, expand, depth + 1)
    if isinstance(e, ast.Call) and not (isinstance(e.func, ast.Attribute) and not e.args and not e.keywords):
        if expand is not None:
            x = expand(e)
            if norm(x) != norm(e):
                return _field_feature(x, who, D, expand, depth + 1)
        if len(e.args) == 1 and not e.keywords and isinstance(e.func, ast.Name) and e.func.id not in ("hash", "str"):
            inner = _field_feature(e.args[0], who, D, expand, depth + 1)
            if inner is not None:
                return inner[0], ".".join(x for x in (inner[1], e.func.id + "()") if x)
        return None
    chain = []
    while isinstance(e, ast.Call) and isinstance(e.func, ast.Attribute) and not e.args and not e.keywords:
        chain.append(e.func.attr)
        e = e.func.value
    if isinstance(e, ast.Attribute) and isinstance(e.value, ast.Name) and e.value.id == who:
        return e.attr, ".".join(reversed(chain))
    return None


def _features_hash(fn: ast.AST, expand=None) -> set[tuple[str, str]]:
    """(field, normaliser) pairs read by a __hash__ body"""
    out = set()
    D = H.Defs(fn)
    for c in ast.walk(fn):
        if isinstance(c, ast.Call):
            f = norm(c.func)
            if f in ("str.__hash__",) and c.args and norm(c.args[0]) == "self":
                out.add(("str", ""))
            if f == "hash" and c.args:
                a = c.args[0]
                feat = _field_feature(a, "self", D, expand)
                if feat is not None:
                    out.add(feat)
                    continue
                chain = []
                while isinstance(a, ast.Call) and isinstance(a.func, ast.Attribute) and not a.args:
                    chain.append(a.func.attr)
                    a = a.func.value
                if norm(a) in ("self", "str(self)"):
                    out.add(("str", ".".join(reversed(chain))))
    return out


def _features_eq(fn: ast.AST, expand=None) -> set[tuple[str, str]]:
    out = set()
    D = H.Defs(fn)
    for c in ast.walk(fn):
        if isinstance(c, ast.Call) and norm(c.func) == "str.__eq__":
            out.add(("str", ""))
        if isinstance(c, ast.Compare) and len(c.ops) == 1 and isinstance(c.ops[0], ast.Eq):
            l, r = c.left, c.comparators[0]
            if norm(l) == "str(self)" and norm(r) == "str(other)":
                out.add(("str", ""))
                continue
            fl, fr = _field_feature(l, "self", D, expand), _field_feature(r, "other", D, expand)
            if fl and fr and fl == fr:
                out.add(fl)
    return out


def _rule_a_eq_hash(repo: Repo, rep: Report) -> None:
    tm = repo.mod("rdflib.term")
    typed = repo.typed
    classes = [c for c in typed.subclasses("rdflib.term.Node") if c.startswith("rdflib.term.")]
    if len(classes) < 8:
        raise AnalysisError("expected >= 8 Node classes in term.py, found %s" % classes)

    rep.rule("C07.a-eq-hash-coherent",
             "a term class that defines __eq__ also defines/re-binds __hash__, and every (field, normaliser) its hash reads is compared by its __eq__ with the same normaliser "
             "(a normaliser applied in place, through a local, or by a def of the package - a one-expression def stands for its expression)", floor=6)
    for c in sorted(classes):
        cname = c.rsplit(".", 1)[1]
        cd = tm.cls(cname)
        meths = tm.methods(cname)
        rebinds = {norm(st.targets[0]): norm(st.value) for st in cd.body if isinstance(st, ast.Assign) and isinstance(st.targets[0], ast.Name)}
        has_eq = "__eq__" in meths
        has_hash = "__hash__" in meths or "__hash__" in rebinds
        if not has_eq and not has_hash:
            continue
        rep.analysed("rdflib/term.py:%s.__eq__" % cname, "rdflib/term.py:%s.__hash__" % cname)
        rep.ob("C07.a-eq-hash-coherent", tm, cname, "__eq__ and __hash__ defined together", has_eq == has_hash or (has_hash and not has_eq),
               "" if has_eq == has_hash else "%s defines __eq__ without __hash__: instances become unhashable / inherit an incoherent hash" % cname, node=cd)
        if not has_eq:
            continue
        def expand(e: ast.AST, _cname=cname) -> ast.AST:
            return H.expand_calls(repo, tm, e, _cname)

        eqf = _features_eq(meths["__eq__"], expand)
        if "__hash__" in meths:
            hf = _features_hash(meths["__hash__"], expand)
        else:
            hf = {("str", "")} if rebinds.get("__hash__") == "str.__hash__" else set()
            if not hf:
                raise AnalysisError("%s.__hash__ re-bound to %s: unmodelled" % (cname, rebinds.get("__hash__")))
        if not hf or not eqf:
            raise AnalysisError("%s: could not extract eq/hash features (eq=%s hash=%s)" % (cname, eqf, hf))
        for feat in sorted(hf):
            ok = feat in eqf
            same_field = [e for e in eqf if e[0] == feat[0]]
            rep.ob("C07.a-eq-hash-coherent", tm, cname + ".__hash__", "hash reads %s%s" % (feat[0], "." + feat[1] + "()" if feat[1] else ""), ok,
                   "compared the same way by __eq__" if ok else
                   ("__eq__ compares %s as %s but __hash__ reads it as %s: equal terms can hash differently (sets, dict keys and graphs then keep both)" % (feat[0], same_field[0][1] or "raw", feat[1] or "raw")
                    if same_field else "__hash__ reads %s which __eq__ does not compare" % feat[0]), node=meths.get("__hash__", cd))


# ---------------------------------------------------------------------- (b)
_OP_TEXT = {ast.Lt: "<", ast.Gt: ">", ast.LtE: "<=", ast.GtE: ">=", ast.Eq: "==", ast.NotEq: "!="}


def _rule_b_ordering(repo: Repo, rep: Report) -> None:
    tm = repo.mod("rdflib.term")
    rep.rule("C07.b-ordering-table-and-mirrors",
             "_ORDERING ranks are distinct with BNode < Variable < URIRef < Literal; Identifier.__lt__/__gt__ (each in the def that decides its answer: "
             "its own body, or the def it hands the decision to, read with what it passes for the parameters) decide the same cases in the same order, "
             "compare the same key expression of both operands, and apply the operator of their name (written as `a < b` or as the function of `operator` "
             "that is passed in); guards on `other` are by identity", floor=8)
    ranks = {}
    for st in tm.tree.body:
        if isinstance(st, ast.Expr) and isinstance(st.value, ast.Call) and norm(st.value.func) == "_ORDERING.update" and st.value.args and isinstance(st.value.args[0], ast.Dict):
            for k, v in zip(st.value.args[0].keys, st.value.args[0].values):
                if isinstance(v, ast.Constant):
                    ranks[norm(k)] = v.value
    want = ["BNode", "Variable", "URIRef", "Literal"]
    ok = all(w in ranks for w in want) and [ranks[w] for w in want] == sorted(ranks[w] for w in want) and len({ranks[w] for w in want}) == 4
    rep.ob("C07.b-ordering-table-and-mirrors", tm, "_ORDERING", "ranks %s" % ranks, ok,
           "BNode < Variable < URIRef < Literal, all distinct" if ok else "kind ranks are not strictly BNode < Variable < URIRef < Literal: %s" % ranks, node=tm.tree)
    im = tm.methods("Identifier")
    ops = {"__lt__": ast.Lt, "__gt__": ast.Gt}
    chains = {}
    deciding = {}
    for name, op in ops.items():
        f = im.get(name)
        if f is None:
            raise AnalysisError("Identifier.%s vanished" % name)
        rep.analysed("rdflib/term.py:Identifier." + name)
        # the def that decides the answer: the method, or the def it hands the decision to (with what it passes for its parameters -
        # the operands, the operator as a function of `operator`, the answer for None)
        dmod, dfn, bound, _ = H.delegation(repo, tm, f, "Identifier")
        deciding[name] = (dmod, dfn, bound)
        me, you = _self_param(f), _second_param(f)
        D = H.Defs(dfn)
        found = []
        for c, cops, left, right in H.comparisons([dmod, tm], dfn, bound, D):
            if not all(o in (ast.Lt, ast.Gt, ast.LtE, ast.GtE) for o in cops):
                continue
            found.append(c)
            okop = all(o is op for o in cops)
            sym = norm(H.subst_names(left, {me: ast.Name(id="@", ctx=ast.Load())})) == norm(H.subst_names(right, {you: ast.Name(id="@", ctx=ast.Load())}))
            shown = "%s %s %s" % (norm(left), "/".join(sorted({_OP_TEXT[o] for o in cops})), norm(right))
            rep.ob("C07.b-ordering-table-and-mirrors", dmod, "Identifier." + name, shown, okop and sym,
                   "operator and operands match the method" if okop and sym else
                   "comparison %s in %s uses the wrong operator or asymmetric keys" % (shown, name), node=c)
        if not found:
            raise AnalysisError("Identifier.%s: no ordering comparison found in the def that decides its answer (%s)" % (name, dfn.name))
        # the cases it decides, in order: per path the tests (in terms of the method's own parameters) and the kind of answer
        try:
            paths = H.decision_paths(dfn)
        except H.Unmodelled as e:
            raise AnalysisError("Identifier.%s: %s is not a loop-free decision list (%s)" % (name, dfn.name, e)) from None
        cases = []
        for conds, val in paths:
            tests = ["%s%s" % ("" if pol else "not ", norm(H.in_terms_of(D, bound, t))) for t, pol in H.atoms(conds)]
            if val is None or isinstance(val, ast.Raise):
                kind = "falls off" if val is None else "raises"
            else:
                v = H.in_terms_of(D, bound, val)
                cmp_ = H.as_comparison([dmod, tm], v)
                if isinstance(v, ast.Constant):
                    kind = "constant"
                elif cmp_ is not None and all(o in (ast.Lt, ast.Gt, ast.LtE, ast.GtE) for o in cmp_[0]):
                    kind = "ordered: %s ? %s" % (norm(cmp_[1]), norm(cmp_[2]))
                else:
                    kind = norm(v)
            cases.append((tests, kind))
        chains[name] = cases
    same = chains["__lt__"] == chains["__gt__"]
    rep.ob("C07.b-ordering-table-and-mirrors", tm, "Identifier.__lt__/__gt__", "guard chains %s" % [t[-1] if t else "" for t, _ in chains["__gt__"]], same,
           "mirror images" if same else "__lt__ and __gt__ decide their cases differently: %s vs %s - for some pair neither a<b nor b<a nor a==b holds, sorting depends on input order" % (chains["__lt__"], chains["__gt__"]), node=im["__lt__"])
    operand = {"other": (True, ["rdflib.term.Literal"], "comparison operand: any term, possibly a falsy one, or None")}
    for cname in ("Identifier", "Literal"):
        for name in ("__lt__", "__gt__", "__le__", "__ge__", "__eq__", "__ne__", "eq", "neq"):
            f = tm.methods(cname).get(name)
            if f is not None:
                truthy.scan(repo, rep, "C07.b-ordering-table-and-mirrors", tm, f, "%s.%s" % (cname, name), extra_types=operand)
    # ... and in the defs the two methods hand the decision to: the parameter that receives the operand is tested by identity there
    scanned = set()
    for name, (dmod, dfn, bound) in deciding.items():
        if dfn is im[name] or id(dfn) in scanned:
            continue
        scanned.add(id(dfn))
        you = _second_param(im[name])
        handed = {p: operand["other"] for p, x in bound.items() if isinstance(x, ast.Name) and x.id == you}
        truthy.scan(repo, rep, "C07.b-ordering-table-and-mirrors", dmod, dfn, dmod.qual_of(dfn) or dfn.name, extra_types=handed)


# ---------------------------------------------------------------------- (c)
def _returned(repo: Repo, mod, f: ast.FunctionDef, cls: str) -> ast.AST:
    """what a def of one return statement gives back, as an expression over its parameters: speaking local names replaced by what they are
    bound to, calls of one-expression defs of the package by what they return (`_reduce_to(URIRef, self)` is a name for `(URIRef, (str(self),))`)"""
    r = H.returned_expression(f)
    if r is None:
        rets = [x for x in own_nodes(f) if isinstance(x, ast.Return) and x.value is not None]
        if not rets:
            raise AnalysisError("%s.%s returns nothing" % (cls, f.name))
        r = rets[0].value
    return H.expand_calls(repo, mod, r, cls)


def _rule_c_pickle(repo: Repo, rep: Report) -> None:
    tm = repo.mod("rdflib.term")
    rep.rule("C07.c-pickle-covers-eq-fields",
             "__reduce__ of URIRef/BNode/Variable rebuilds from str(self); Literal.__reduce__ passes the lexical form, language and datatype; "
             "Literal.__getstate__ and __setstate__ use the same keys and restore the fields __eq__ compares (what a method returns is read as an expression "
             "over self: a speaking local name stands for what it is bound to, a call of a one-expression def of the package for what that returns)", floor=6)
    for cname in ("URIRef", "BNode", "Variable"):
        f = tm.methods(cname).get("__reduce__")
        if f is None:
            raise AnalysisError("%s.__reduce__ vanished" % cname)
        r = _returned(repo, tm, f, cname)
        ok = isinstance(r, ast.Tuple) and len(r.elts) == 2 and norm(r.elts[0]) == cname and isinstance(r.elts[1], ast.Tuple) and [norm(e) for e in r.elts[1].elts] == ["str(self)"]
        rep.ob("C07.c-pickle-covers-eq-fields", tm, cname + ".__reduce__", norm(r), ok, "" if ok else "%s is not rebuilt as %s(str(self))" % (cname, cname), node=f)
    lm = tm.methods("Literal")
    r = _returned(repo, tm, lm["__reduce__"], "Literal")
    args = [norm(e) for e in r.elts[1].elts] if isinstance(r, ast.Tuple) and len(r.elts) >= 2 and isinstance(r.elts[1], ast.Tuple) else []
    ok = isinstance(r, ast.Tuple) and norm(r.elts[0]) == "Literal" and args[:1] == ["str(self)"] and any("language" in a for a in args) and any("datatype" in a for a in args)
    rep.ob("C07.c-pickle-covers-eq-fields", tm, "Literal.__reduce__", norm(r), ok, "lexical form, language and datatype" if ok else "Literal.__reduce__ drops a field that __eq__ compares: %s" % args, node=lm["__reduce__"])
    # positional meaning: Literal.__new__(cls, lexical_or_value, lang, datatype, normalize, ...)
    newp = [a.arg for a in lm["__new__"].args.args[1:]]
    want = {"lexical_or_value": "str(self)", "lang": "self.language", "datatype": "self.datatype"}
    rargs = list(r.elts[1].elts) if isinstance(r, ast.Tuple) and isinstance(r.elts[1], ast.Tuple) else []
    okp = 3 <= len(rargs) <= len(newp)
    for prm, a in zip(newp, rargs):
        if prm in want:
            okp = okp and norm(a) == want[prm]
        else:
            okp = okp and isinstance(a, ast.Constant)  # an option of the constructor, not a field of the term
    rep.ob("C07.c-pickle-covers-eq-fields", tm, "Literal.__reduce__", "argument order matches Literal.__new__%s" % newp[:len(rargs)], okp,
           "" if okp else "the reduce tuple %s does not line up with Literal.__new__'s parameters %s" % (args, newp), node=lm["__reduce__"])
    # the constructor normalises the lexical form by default (normalize=None -> rdflib.NORMALIZE_LITERALS): a copy built from
    # str(self) is the same term only if the reduce tuple switches that off (the stored form may be one that normalisation
    # would rewrite: Literal(1, datatype=XSD.double) is "1", normalize=False literals, ill-typed forms)
    if "normalize" in newp:
        i = newp.index("normalize")
        a = rargs[i] if i < len(rargs) else None
        okn = isinstance(a, ast.Constant) and a.value is False
        rep.ob("C07.c-pickle-covers-eq-fields", tm, "Literal.__reduce__", "rebuilds with normalize=False", okn,
               "" if okn else "Literal.__reduce__ rebuilds through the normalising constructor (normalize is %s): pickle/copy/deepcopy of a literal whose stored lexical form "
               "is not the canonical one gives a different term" % ("left to the default" if a is None else norm(a)), node=lm["__reduce__"])
    gs = _returned(repo, tm, lm["__getstate__"], "Literal")
    gkeys = set()
    for c in ast.walk(gs):
        if isinstance(c, ast.Call) and norm(c.func) == "dict":
            gkeys = {k.arg for k in c.keywords}
        if isinstance(c, ast.Dict):
            gkeys = {k.value for k in c.keys if isinstance(k, ast.Constant)}
    skeys = {}
    for n in own_nodes(lm["__setstate__"]):
        if isinstance(n, ast.Assign) and isinstance(n.value, ast.Subscript) and isinstance(n.value.slice, ast.Constant):
            skeys[n.value.slice.value] = norm(n.targets[0])
    ok = gkeys == set(skeys) == {"language", "datatype"} and skeys.get("language") == "self._language" and skeys.get("datatype") == "self._datatype"
    rep.ob("C07.c-pickle-covers-eq-fields", tm, "Literal.__getstate__/__setstate__", "keys %s -> %s" % (sorted(gkeys), skeys), ok,
           "" if ok else "getstate keys %s and setstate reads %s do not restore _language/_datatype consistently" % (sorted(gkeys), skeys), node=lm["__setstate__"])


# ---------------------------------------------------------------------- (d)  n3() text form: string escape tables (shared with C03)
def _rule_d_escape_tables(repo: Repo, rep: Report) -> None:
    escape_table_rules(repo, rep, "C07.d-n3-string-escapes")


# ---------------------------------------------------------------------- (e)
def _rule_e_from_n3_context(repo: Repo, rep: Report) -> None:
    rep.rule("C07.e-from-n3-forwards-context",
             "util.from_n3 passes its resolution context on in the recursive call that resolves a literal's datatype: the caller's namespace manager "
             "(and default / backend) - otherwise a prefixed datatype is resolved against a different prefix table than the one n3() wrote it with", floor=1)
    um = repo.mod("rdflib.util")
    f = um.func("from_n3")
    params = [a.arg for a in f.args.args]
    ctx_params = [p for p in params[1:]]
    rec = [c for c in own_nodes(f) if isinstance(c, ast.Call) and norm(c.func) == "from_n3"]
    dt_calls = []
    for c in rec:
        # the datatype call: its result is assigned to a name containing 'datatype' or used as datatype=
        par_ = um.parent.get(id(c))
        if isinstance(par_, ast.Assign) and "datatype" in norm(par_.targets[0]).lower():
            dt_calls.append(c)
    if not dt_calls:
        raise AnalysisError("from_n3: recursive datatype resolution call not found")
    for c in dt_calls:
        passed = {}
        for i, a in enumerate(c.args):
            if i < len(params):
                passed[params[i]] = norm(a)
        for k in c.keywords:
            if k.arg:
                passed[k.arg] = norm(k.value)
        missing = [p for p in ctx_params if passed.get(p) != p]
        rep.ob("C07.e-from-n3-forwards-context", um, "from_n3", c, not missing,
               "forwards %s" % ctx_params if not missing else "the datatype is resolved without the caller's %s: text written by n3(namespace_manager) is read back with another prefix table" % missing, node=c)


# ---------------------------------------------------------------------- (f)
def _rule_f_sparql_absolute(repo: Repo, rep: Report) -> None:
    rep.rule("C07.f-sparql-absolute-iri-not-rebased",
             "in the SPARQL prologue, an IRI is handed to base resolution (URIRef(iri, base=...), i.e. urllib's urljoin, which re-assembles and thereby "
             "alters some absolute IRIs: an empty query or empty path parameters are dropped) only under a test that it has no scheme: the n3() text of "
             "an IRI term is absolute and must be read back unchanged", floor=1)
    sm = repo.mod("rdflib.plugins.sparql.sparql")
    af = sm.func("Prologue.absolutize")
    nf = 0
    for c in own_nodes(af):
        if not (isinstance(c, ast.Call) and norm(c.func) == "URIRef" and any(k.arg == "base" for k in c.keywords) and c.args):
            continue
        nf += 1
        x = norm(c.args[0])
        guarded = False
        child = c
        for p_ in sm.parents(c):
            if isinstance(p_, ast.If) and child in p_.body:
                for t in ast.walk(p_.test):
                    if isinstance(t, ast.Compare) and len(t.ops) == 1 and isinstance(t.ops[0], (ast.In, ast.NotIn)) and norm(t.comparators[0]) == x \
                            and isinstance(t.left, ast.Constant) and t.left.value in (":", "://"):
                        # `":" not in x`, or `not ":" in x`
                        neg = isinstance(t.ops[0], ast.NotIn) or isinstance(sm.parent.get(id(t)), ast.UnaryOp)
                        guarded = guarded or neg
                    if isinstance(t, ast.Attribute) and t.attr == "scheme" and x in norm(t):
                        guarded = True
                    # `not SCHEME.match(x)`, SCHEME a module-level compiled pattern for "<scheme>:" (letters first, a literal colon last, anchored by match())
                    if isinstance(t, ast.UnaryOp) and isinstance(t.op, ast.Not) and isinstance(t.operand, ast.Call) and isinstance(t.operand.func, ast.Attribute) \
                            and t.operand.func.attr in ("match", "fullmatch") and t.operand.args and norm(t.operand.args[0]) == x and isinstance(t.operand.func.value, ast.Name):
                        pat = None
                        for st in sm.tree.body:
                            if isinstance(st, ast.Assign) and norm(st.targets[0]) == t.operand.func.value.id and isinstance(st.value, ast.Call) and norm(st.value.func) in ("re.compile", "compile") \
                                    and st.value.args and isinstance(st.value.args[0], ast.Constant) and isinstance(st.value.args[0].value, str):
                                pat = st.value.args[0].value
                        if pat is not None:
                            import re._parser as _sre
                            items = list(_sre.parse(pat))
                            first_ok = bool(items) and str(items[0][0]) == "IN" and any(str(k) == "RANGE" and v == (ord("A"), ord("Z")) or str(k) == "RANGE" and v == (ord("a"), ord("z")) for k, v in items[0][1])
                            last_ok = bool(items) and str(items[-1][0]) == "LITERAL" and items[-1][1] == ord(":")
                            mid_ok = all(str(k) in ("IN", "MAX_REPEAT", "MIN_REPEAT") for k, _ in items[1:-1])
                            no_delims = not any(ch in pat for ch in "/?#")
                            guarded = guarded or (first_ok and last_ok and mid_ok and no_delims and t.operand.func.attr == "match")
            if p_ is af:
                break
            child = p_
        rep.ob("C07.f-sparql-absolute-iri-not-rebased", sm, "Prologue.absolutize", c, guarded,
               "only scheme-less references are resolved" if guarded else
               "%s is resolved against BASE without a test that it is relative: with BASE <http://example/> the absolute IRI <http://example/a?> (the n3() text of that term) is read as <http://example/a>" % x, node=c)
    if nf == 0:
        rep.ob("C07.f-sparql-absolute-iri-not-rebased", sm, "Prologue.absolutize", "no base resolution through URIRef(base=)", True, "resolution not delegated to urljoin", node=af)


from vlib.core import layer as _layer  # noqa: E402


# ---------------------------------------------------------------------- (g)
def _rule_g_sparql_tabs(repo: Repo, rep: Report) -> None:
    rep.rule("C07.g-sparql-text-parsed-with-tabs",
             "pyparsing's parse_string() expands the tabs of its input to spaces unless parseWithTabs() was called on the expression it is invoked on (documented behaviour); "
             "SPARQL string literals may contain a raw tab (it is what Literal.n3() writes), so every grammar element that parseQuery/parseUpdate call parse_string on is set "
             "to parse with tabs (as the TSV result grammar of the same package already is)", floor=2)
    pm = repo.mod("rdflib.plugins.sparql.parser")
    alias = {}
    for st in pm.tree.body:
        if isinstance(st, ast.Assign) and isinstance(st.value, ast.Name) and isinstance(st.targets[0], ast.Name):
            alias[st.targets[0].id] = st.value.id

    def root(n: str) -> str:
        seen = set()
        while n in alias and n not in seen:
            seen.add(n)
            n = alias[n]
        return n

    with_tabs = set()
    for c in ast.walk(pm.tree):
        if isinstance(c, ast.Call) and isinstance(c.func, ast.Attribute) and c.func.attr in ("parseWithTabs", "parse_with_tabs") and isinstance(c.func.value, ast.Name):
            with_tabs.add(root(c.func.value.id))
    n_entry = 0
    for fn in ("parseQuery", "parseUpdate"):
        f = pm.func(fn)
        for c in own_nodes(f):
            if isinstance(c, ast.Call) and isinstance(c.func, ast.Attribute) and c.func.attr in ("parse_string", "parseString") and isinstance(c.func.value, ast.Name):
                n_entry += 1
                el = c.func.value.id
                ok = root(el) in with_tabs
                rep.ob("C07.g-sparql-text-parsed-with-tabs", pm, fn, c, ok,
                       "%s parses with tabs" % el if ok else
                       "%s.parse_string() runs on a copy of the request in which every tab was replaced by spaces: the literal `a<TAB>b` in quotes (the n3() text of a literal with a tab) is read as 'a' + spaces + 'b'" % el, node=c)
    if n_entry == 0:
        raise AnalysisError("parseQuery/parseUpdate: parse_string call not found")


# ---------------------------------------------------------------------- (h)
def _rule_h_from_n3_covers(repo: Repo, rep: Report) -> None:
    rep.rule("C07.h-from-n3-covers-what-n3-writes",
             "util.from_n3 has a branch for every bare form Identifier.n3() writes: `?name` is read as a Variable (not swallowed by the fall-through that makes a blank node of "
             "any other text), and a decimal shorthand is not converted through float() (a decimal has arbitrary precision; float's repr of a large one is exponent notation, "
             "which is not a decimal lexical form)", floor=2)
    um = repo.mod("rdflib.util")
    f = um.func("from_n3")
    # a `return Variable(...)` that control reaches under a test which is true of every text that starts with "?" - whatever the form of
    # the test (startswith of the character or of a tuple with it, the first character compared, one alternative of an `or`) and of the
    # branching (elif arm, guard clause)
    text = f.args.args[0].arg if f.args.args else ""
    var_branch = [r for r in own_nodes(f) if isinstance(r, ast.Return) and isinstance(r.value, ast.Call) and norm(r.value.func).rsplit(".", 1)[-1] == "Variable"
                  and any(pol and H.holds_for_prefix(t, text, "?") for t, pol in H.atoms(H.facts_at(um, f, r)))]
    rep.ob("C07.h-from-n3-covers-what-n3-writes", um, "from_n3", "`?name` -> Variable", bool(var_branch),
           "" if var_branch else "no branch for the n3() form of a Variable: from_n3('?v') falls through to BNode('?v')", node=f)
    dec = [c for c in own_nodes(f) if isinstance(c, ast.Call) and norm(c.func).endswith("Literal") and any(k.arg == "datatype" and norm(k.value).endswith("XSD.decimal") for k in c.keywords)]
    if not dec:
        raise AnalysisError("from_n3: decimal shorthand branch not found")
    for c in dec:
        through_float = any(isinstance(x, ast.Call) and norm(x.func) == "float" for a in c.args for x in ast.walk(a))
        rep.ob("C07.h-from-n3-covers-what-n3-writes", um, "from_n3", c, not through_float,
               "exact" if not through_float else "the decimal is built from float(s): from_n3('100000000000000000000000.5') gives the lexical form 1.0000000000000001e+23 (not a decimal lexical form), and digits beyond double precision are lost", node=c)


# ====================================================================== third layer: rules (i) - (q)
# Structural conditions pinned after the audit round (F121-F141): how Literal() treats lexical forms, what n3()/the
# Turtle shorthand may write, and the laws of the literal order.  Helpers live in vlib/h_c07.py.

# converters that take more than the XSD lexical space of the datatype they are registered for (rule k).  The reason is
# the documented behaviour of the callable; a datatype mapped to one of them needs a pattern in term._lexical_spaces.
_LENIENT_CONVERTERS = {
    "int": "int() takes '1_000', non-ASCII digits and any Unicode white space around the number",
    "float": "float() takes 'Infinity', 'nan', 'inf', '1_0.0', non-ASCII digits",
    "Decimal": "Decimal() takes '1e3', 'Infinity', 'sNaN', '1_000', non-ASCII digits",
    "parse_time": "time.fromisoformat / isodate take reduced precision ('2000' is 20:00), basic format",
    "parse_datetime": "datetime.fromisoformat / isodate take a date without time, basic format, week dates, a blank for 'T'",
    "parse_date": "date.fromisoformat / isodate take basic format and week dates",
    "parse_xsd_date": "delegates to the ISO 8601 date parser (basic format, week dates)",
    "parse_xsd_duration": "takes the ISO 8601 alternative format PYYYY-MM-DDThh:mm:ss and a decimal comma",
}
_B64_REASON = "base64.b64decode() silently drops every character outside the base64 alphabet unless validate=True"


def _self_param(fn: ast.FunctionDef) -> str:
    return fn.args.args[0].arg


def _second_param(fn: ast.FunctionDef) -> str:
    if len(fn.args.args) < 2:
        raise AnalysisError("%s has no operand parameter" % fn.name)
    return fn.args.args[1].arg


# ---------------------------------------------------------------------- (i)
def _top_arm(fn: ast.FunctionDef, mod, node: ast.AST) -> list[ast.stmt]:
    """the arm (statement list) of the outermost if/elif chain of fn's body that contains node"""
    chain = [p for p in mod.parents(node)]
    top = None
    for p in chain:
        if p is fn:
            break
        top = p
    inside = {id(x) for x in [node] + chain}
    cur = top
    while isinstance(cur, ast.If):
        if any(id(s) in inside for s in cur.body):
            return cur.body
        if len(cur.orelse) == 1 and isinstance(cur.orelse[0], ast.If) and id(cur.orelse[0]) in inside:
            cur = cur.orelse[0]
            continue
        return cur.orelse
    raise AnalysisError("%s: statement at line %s is not inside an if-arm of the function body" % (fn.name, getattr(node, "lineno", "?")))


def _in_opposite_branches(mod, fn: ast.AST, a: ast.AST, b: ast.AST) -> bool:
    """a and b sit in the two different branches (body / orelse) of one `if` statement of fn: no path runs through both"""
    def sides(n: ast.AST) -> dict[int, str]:
        out: dict[int, str] = {}
        child = n
        for p in mod.parents(n):
            if isinstance(p, ast.If):
                if any(child is s for s in p.body):
                    out[id(p)] = "body"
                elif any(child is s for s in p.orelse):
                    out[id(p)] = "orelse"
            if p is fn:
                break
            child = p
        return out

    sa, sb = sides(a), sides(b)
    return any(k in sb and sb[k] != v for k, v in sa.items())


def _rule_i_constructor(repo: Repo, rep: Report, tm, lm) -> None:
    rid = "C07.i-lexical-form-checked-and-kept"
    rep.rule(rid,
             "Literal.__new__: every arm that interprets a lexical form under a datatype (_castLexicalToPython(<lexical>, ...)) also decides ill-typedness there "
             "(Literal(<Literal>, datatype=) took a short cut: '01'^^xsd:integer from the SPARQL parser stayed '01' while the Turtle parser gave '1'), and replaces the "
             "lexical form by the canonical form of the value (_castPythonToLiteral) only under `not <ill-typed flag>` ('yes'^^xsd:boolean became 'false') and "
             "`not _value_is_approximate(...)` ('2000-01-01Z'^^xsd:date lost its time zone): otherwise the term read back from n3() text is another term", floor=3)
    new = lm.get("__new__")
    if new is None:
        raise AnalysisError("Literal.__new__ vanished")
    rep.analysed("rdflib/term.py:Literal.__new__")
    lex = _second_param(new)
    flags = {norm(n.value) for n in own_nodes(new) if isinstance(n, ast.Assign) and isinstance(n.targets[0], ast.Attribute)
             and n.targets[0].attr == "_ill_typed" and isinstance(n.value, ast.Name)}
    if len(flags) != 1:
        raise AnalysisError("Literal.__new__: the name stored to ._ill_typed not found (%s)" % sorted(flags))
    flag = flags.pop()
    # names that hold the lexical form / the flag: the parameter and the local stored into the slot, and every local that is a plain
    # copy of one of them where it is used (a value that is copied into the flag later is the flag: `a, b, flag = x, y, f`)
    K = H.Copies(new)

    def targets(x: ast.AST) -> list[str]:
        ts = x.targets if isinstance(x, ast.Assign) else [x.target] if isinstance(x, (ast.AnnAssign, ast.AugAssign)) else []
        return [n.id for t in ts for n in ast.walk(t) if isinstance(n, ast.Name)]

    sites = [c for c in own_nodes(new) if isinstance(c, ast.Call) and norm(c.func) == "_castLexicalToPython" and c.args and isinstance(c.args[0], ast.Name)
             and K.same(c.args[0].id, lex, c)]
    if not sites:
        raise AnalysisError("Literal.__new__: no _castLexicalToPython(%s, ...) call" % lex)
    for c in sites:
        arm = _top_arm(new, tm, c)
        arm_nodes = [x for s in arm for x in ast.walk(s)]
        par_ = tm.parent.get(id(c))
        vname = norm(par_.targets[0]) if isinstance(par_, ast.Assign) and isinstance(par_.targets[0], ast.Name) else None
        # (1) ill-typedness decided in this arm
        # (an assignment in the other branch of an `if` around the site is not on its path: `if datatype is not None: <site> else: <flag> = <other>.ill_typed`)
        decides = any(isinstance(x, (ast.Assign, ast.AnnAssign)) and flag in targets(x) and not _in_opposite_branches(tm, new, c, x) for x in arm_nodes)
        rep.ob(rid, tm, "Literal.__new__", "%s: ill-typedness decided in the same arm" % norm(c), decides,
               "" if decides else "this arm takes the value of a lexical form under the datatype without checking that the form is in the lexical space (%s stays None) and "
               "without normalising it: Literal(Literal('01'), datatype=XSD.integer) - what the SPARQL parser builds for \"01\"^^xsd:integer - is not the term "
               "Literal('01', datatype=XSD.integer) the Turtle parser builds" % flag, node=c)
        # (2) canonical form only for a well-typed form with an exact value
        canon_names = set()
        for x in arm_nodes:
            if isinstance(x, ast.Assign) and isinstance(x.value, ast.Call) and norm(x.value.func) == "_castPythonToLiteral" and x.value.args and norm(x.value.args[0]) == vname:
                canon_names |= {n.id for t in x.targets for n in ast.walk(t) if isinstance(n, ast.Name)}
        repl = [x for x in arm_nodes if isinstance(x, ast.Assign) and len(x.targets) == 1 and isinstance(x.targets[0], ast.Name) and K.flows_into(x, x.targets[0].id, lex)
                and isinstance(x.value, ast.Name) and x.value.id in canon_names]
        if not repl:
            if decides:
                raise AnalysisError("Literal.__new__: the arm of %s does not normalise the lexical form - unmodelled" % norm(c))
            continue
        for x in repl:
            at = H.atoms(H.path_conds(tm, new, x))
            g_ill = any(isinstance(e, ast.Name) and K.same(e.id, flag, e) and pol is False for e, pol in at)
            g_apx = any(isinstance(e, ast.Call) and norm(e.func) == "_value_is_approximate" and pol is False
                        and any(isinstance(a, ast.Name) and K.same(a.id, lex, a) for a in e.args) and vname in {norm(a) for a in e.args} for e, pol in at)
            rep.ob(rid, tm, "Literal.__new__", "%s under `not %s`" % (norm(x), flag), g_ill,
                   "" if g_ill else "the canonical form of the value replaces the lexical form although the form may be ill-typed: the converters return a made-up value for some "
                   "ill-typed forms (_parseBoolean('yes') is False), so Literal('yes', datatype=XSD.boolean) becomes \"false\"^^xsd:boolean", node=x)
            rep.ob(rid, tm, "Literal.__new__", "%s under `not _value_is_approximate(%s, %s)`" % (norm(x), lex, vname), g_apx,
                   "" if g_apx else "the canonical form of the value replaces the lexical form although the Python value may be narrower than the XSD value: "
                   "Literal('2000-01-01Z', datatype=XSD.date) becomes '2000-01-01', '10:00:00.1234567'^^xsd:time loses its last digit", node=x)


# ---------------------------------------------------------------------- (j)
_YM_ATTRS = ("years", "months")
_DT_ATTRS = ("tdelta", "days", "seconds", "microseconds")


def _duration_part(D: "H.Defs", e: ast.AST, seen: frozenset = frozenset()) -> set[str]:
    """which part of a duration an expression measures: 'ym' (reads .years/.months) or 'dt' (reads .tdelta/.days/.seconds/
    .microseconds); local names are followed to their bindings"""
    out: set[str] = set()
    for x in ast.walk(e):
        if isinstance(x, ast.Attribute):
            if x.attr in _YM_ATTRS:
                out.add("ym")
            elif x.attr in _DT_ATTRS:
                out.add("dt")
        elif isinstance(x, ast.Name) and x.id not in seen and x.id not in D.params:  # (a re-bound parameter stays what its attributes say)
            for v in D.values(x.id):
                if v is not None:
                    out |= _duration_part(D, v, seen | {x.id})
    return out


def _sign_facts(mod, fn: ast.AST, D: "H.Defs", node: ast.AST) -> dict[str, set[str]]:
    """what the path condition of node says about the sign of the year/month part and of the day/time part"""
    facts: dict[str, set[str]] = {}

    def put(parts: set[str], sign: str) -> None:
        if len(parts) == 1:
            facts.setdefault(next(iter(parts)), set()).add(sign)

    for e, pol in H.atoms(H.path_conds(mod, fn, node)):
        if isinstance(e, ast.Compare) and len(e.ops) == 1 and isinstance(e.ops[0], (ast.Lt, ast.Gt)):
            l, r = e.left, e.comparators[0]
            lt = isinstance(e.ops[0], ast.Lt)
            if isinstance(l, ast.Constant) and l.value == 0:
                l, r, lt = r, l, not lt
            if isinstance(r, ast.Constant) and r.value == 0 and not isinstance(r.value, bool):
                sign = ("neg" if lt else "pos") if pol else ("nonneg" if lt else "nonpos")
                put(_duration_part(D, l), sign)
        elif isinstance(e, ast.Name):
            # a flag: set to True under a sign test somewhere before this point
            parts: set[str] = set()
            signs: set[str] = set()
            for st in H.earlier_siblings(mod, fn, node):
                for a in ast.walk(st):
                    if isinstance(a, ast.Assign) and any(isinstance(t, ast.Name) and t.id == e.id for t in a.targets) \
                            and isinstance(a.value, ast.Constant) and a.value.value is True:
                        inner = _sign_facts(mod, fn, D, a)
                        for p_, s_ in inner.items():
                            if s_ & {"neg", "pos"}:
                                parts.add(p_)
                                signs |= s_ & {"neg", "pos"}
            if len(parts) == 1 and len(signs) == 1:
                s = next(iter(signs))
                put(parts, s if pol else ("nonneg" if s == "neg" else "nonpos"))
    return facts


def _rule_j_duration_sign(repo: Repo, rep: Report) -> None:
    rid = "C07.j-duration-rejects-only-mixed-signs"
    rep.rule(rid,
             "rdflib/xsd_datetime.py: a `raise` whose path condition fixes the sign of both the year/month part and the day/time part of a duration is reached only when the "
             "two signs are opposite; -P1Y1D (both parts negative) is a valid xsd:duration whose value and canonical form must be computable, otherwise the literal has no "
             "value and is not the term its lexical form denotes", floor=2)
    xm = repo.mod("rdflib.xsd_datetime")
    n = 0
    for q, fn in xm.functions():
        D = H.Defs(fn)
        for r in own_nodes(fn):
            if not isinstance(r, ast.Raise):
                continue
            facts = _sign_facts(xm, fn, D, r)
            if not ("ym" in facts and "dt" in facts):
                continue
            n += 1
            rep.analysed("rdflib/xsd_datetime.py:" + q)
            same = bool({"neg"} <= facts["ym"] and {"neg"} <= facts["dt"]) or bool({"pos"} <= facts["ym"] and {"pos"} <= facts["dt"])
            rep.ob(rid, xm, q, "raise under year/month %s, day/time %s" % ("+".join(sorted(facts["ym"])), "+".join(sorted(facts["dt"]))), not same,
                   "mixed signs only" if not same else "a duration whose parts have the same sign is rejected: Literal('-P1Y1D', datatype=XSD.duration) "
                   "(parse_xsd_duration negates both parts) raises here, so the literal gets no value / no canonical form", node=r)
    if n == 0:
        raise AnalysisError("xsd_datetime: no sign-dependent raise found (duration_isoformat changed shape)")


# ---------------------------------------------------------------------- (k)
def _dict_entries(tm, name: str) -> list[tuple[ast.expr, ast.expr]]:
    vals = H.module_assigns(tm).get(name, [])
    out: list[tuple[ast.expr, ast.expr]] = []
    for v in vals:
        if isinstance(v, ast.Dict):
            out += [(k, x) for k, x in zip(v.keys, v.values) if k is not None]
    return out


def _lexical_space_table(repo: Repo, tm, xsd_to_python: list[tuple[str, ast.expr]]) -> dict[str, ast.expr]:
    """datatype IRI -> pattern expression of term._lexical_spaces: the dict display plus the
    `_lexical_spaces.update((URIRef(k), PAT) for k, v in XSDToPython.items() if v in (...))` idiom, evaluated on the table"""
    table: dict[str, ast.expr] = {}
    for k, v in _dict_entries(tm, "_lexical_spaces"):
        iri = H.fold_str(repo, tm, k)
        if iri is None:
            raise AnalysisError("_lexical_spaces: key %s is not a constant IRI" % norm(k))
        table[iri] = v
    for st in tm.tree.body:
        if not (isinstance(st, ast.Expr) and isinstance(st.value, ast.Call) and norm(st.value.func) == "_lexical_spaces.update"):
            continue
        a = st.value.args[0] if st.value.args else None
        ok = isinstance(a, ast.GeneratorExp) and len(a.generators) == 1 and norm(a.generators[0].iter) == "XSDToPython.items()" \
            and isinstance(a.generators[0].target, ast.Tuple) and len(a.generators[0].target.elts) == 2 and isinstance(a.elt, ast.Tuple) and len(a.elt.elts) == 2
        if not ok:
            raise AnalysisError("_lexical_spaces.update(%s): unmodelled" % norm(a) if a is not None else "?")
        g = a.generators[0]
        kname, vname = norm(g.target.elts[0]), norm(g.target.elts[1])
        if not any(isinstance(x, ast.Name) and x.id == kname for x in ast.walk(a.elt.elts[0])):
            raise AnalysisError("_lexical_spaces.update: key expression %s does not use the datatype" % norm(a.elt.elts[0]))
        wanted: Optional[set[str]] = None
        for cond in g.ifs:
            if isinstance(cond, ast.Compare) and len(cond.ops) == 1 and isinstance(cond.ops[0], ast.In) and norm(cond.left) == vname \
                    and isinstance(cond.comparators[0], (ast.Tuple, ast.List, ast.Set)):
                wanted = {H.root_callable(repo, tm, e)[0].rsplit(".", 1)[-1] for e in cond.comparators[0].elts}
            else:
                raise AnalysisError("_lexical_spaces.update: filter %s unmodelled" % norm(cond))
        for iri, conv in xsd_to_python:
            if wanted is None or (isinstance(conv, ast.Name) and H.root_callable(repo, tm, conv)[0].rsplit(".", 1)[-1] in wanted):
                table.setdefault(iri, a.elt.elts[1])
    return table


def _regex_categories(pattern: str) -> set[str]:
    import re._parser as sre  # type: ignore[import-not-found]

    out: set[str] = set()

    def walk(items) -> None:
        for op, av in items:
            name = str(op)
            if name == "CATEGORY":
                out.add(str(av))
            elif name == "ANY":
                out.add("ANY")
            if isinstance(av, (list, tuple)):
                for x in av:
                    if hasattr(x, "data"):
                        walk(x.data)
                    elif isinstance(x, (list, tuple)):
                        if len(x) == 2 and not isinstance(x[0], (list, tuple)) and str(x[0]).isupper():
                            walk([x])
                        else:
                            for y in x:
                                if hasattr(y, "data"):
                                    walk(y.data)
                                elif isinstance(y, (list, tuple)) and len(y) == 2 and str(y[0]).isupper():
                                    walk([y])
            elif hasattr(av, "data"):
                walk(av.data)

    walk(sre.parse(pattern).data)
    return out


def _consulting_defs(repo: Repo, mod, fn: ast.AST, value: ast.AST, table: str, depth: int = 0, seen: Optional[set] = None) -> list[ast.FunctionDef]:
    """the defs of the package that read the module-level name `table` and that `value` (an expression of fn) depends on: they are called
    in an expression of the backward slice of value (every binding of every local it is computed from), or - where a local of the slice is
    one of several results of a call `a, b, c = h(...)` - inside h, in the slice of the result that lands in that local (to depth 3)"""
    seen = seen if seen is not None else set()
    out: list[ast.FunctionDef] = []
    key = (id(fn), norm(value))
    if depth > 3 or key in seen:
        return out
    seen.add(key)
    D = H.Defs(fn)
    exprs = H.backward_slice(D, value)
    names = {n.id for x in exprs for n in ast.walk(x) if isinstance(n, ast.Name)}
    cls = mod.qual_of(fn).rsplit(".", 1)[0] if "." in mod.qual_of(fn) else None
    # results of calls that are unpacked into locals of the slice
    unpacked: list[tuple[ast.Call, Optional[int]]] = []
    for n in own_nodes(fn):
        if isinstance(n, ast.Assign) and isinstance(n.value, ast.Call):
            for t in n.targets:
                if isinstance(t, (ast.Tuple, ast.List)):
                    for i, el in enumerate(t.elts):
                        if isinstance(el, ast.Name) and el.id in names:
                            unpacked.append((n.value, i))
    calls: list[tuple[ast.Call, Optional[int]]] = [(c, None) for x in exprs for c in ast.walk(x) if isinstance(c, ast.Call)] + unpacked
    for c, idx in calls:
        cal = H.resolve_call(repo, mod, c, cls)
        if cal is None:
            continue
        if any(isinstance(x, ast.Name) and x.id == table for x in ast.walk(cal.fn)):
            if cal.fn not in out:
                out.append(cal.fn)
            continue
        for r in own_nodes(cal.fn):
            if not (isinstance(r, ast.Return) and r.value is not None):
                continue
            v = r.value
            if idx is not None and isinstance(v, ast.Tuple) and idx < len(v.elts):
                v = v.elts[idx]
            for b in _consulting_defs(repo, cal.mod, cal.fn, v, table, depth + 1, seen):
                if b not in out:
                    out.append(b)
    return out


def _rule_k_converters(repo: Repo, rep: Report, tm, lm) -> None:
    rid = "C07.k-lexical-space-not-left-to-lenient-converter"
    rep.rule(rid,
             "every recognised datatype whose lexical-to-value converter in term.XSDToPython accepts more than the XSD lexical space (the Python constructors int/float/Decimal: "
             "'1_000', non-ASCII digits, 'Infinity', '1e3'^^xsd:decimal; the ISO 8601 parsers: '2000'^^xsd:time, basic format, week dates, a bare date for a dateTime) has a pattern "
             "in term._lexical_spaces, a pattern is free of Unicode-wide classes (\\d, \\w, \\s), Literal.__new__ makes the ill-typed flag depend on that table (the value stored into _ill_typed is "
             "computed, in __new__ or in a def whose result it takes, from a call of a def that reads the table) through a full match, "
             "and base64 text is decoded with validate=True: else an ill-typed form gets a value, is taken for well-typed and is rewritten to the canonical form of that value, "
             "i.e. the text of one term is read back as another term", floor=30)
    x2p = []
    for k, v in _dict_entries(tm, "XSDToPython"):
        if isinstance(k, ast.Constant) and k.value is None:
            continue
        iri = H.fold_str(repo, tm, k)
        if iri is None:
            raise AnalysisError("XSDToPython: key %s is not a constant IRI" % norm(k))
        x2p.append((iri, v))
    if len(x2p) < 25:
        raise AnalysisError("XSDToPython: only %d entries found" % len(x2p))
    table = _lexical_space_table(repo, tm, x2p)
    n_b64 = 0
    for iri, conv in x2p:
        if isinstance(conv, ast.Constant) and conv.value is None:
            continue
        if not isinstance(conv, ast.Name):
            raise AnalysisError("XSDToPython[%s]: converter %s unmodelled" % (iri, norm(conv)))
        root, where = H.root_callable(repo, tm, conv)
        last = root.rsplit(".", 1)[-1]
        short = iri.rsplit("#", 1)[-1]
        if last in _LENIENT_CONVERTERS:
            ok = iri in table
            rep.ob(rid, tm, "XSDToPython", "%s -> %s: pattern in _lexical_spaces" % (short, last), ok,
                   "" if ok else "%s; no pattern restricts the lexical forms of %s, so such a form is well-typed for Literal() and is replaced by the canonical form of its value" % (_LENIENT_CONVERTERS[last], short),
                   node=conv)
        elif last == "b64decode":
            n_b64 += 1
            rep.ob(rid, tm, "XSDToPython", "%s -> %s" % (short, root), False,
                   "%s: Literal('AA=!=', datatype=XSD.base64Binary) gets the value b'\\x00' and the lexical form 'AA=='" % _B64_REASON, node=conv)
        elif where is not None:
            fn = where.defs.get(last)
            for c in ast.walk(fn) if fn is not None else []:
                if isinstance(c, ast.Call) and H.root_callable(repo, where, c.func)[0].rsplit(".", 1)[-1] == "b64decode":
                    n_b64 += 1
                    ok = any(kw.arg == "validate" and isinstance(kw.value, ast.Constant) and kw.value.value is True for kw in c.keywords)
                    rep.ob(rid, where, last, c, ok, "" if ok else _B64_REASON + ": an ill-typed xsd:base64Binary form gets a value and is normalised to other text", node=c)
    if n_b64 == 0:
        raise AnalysisError("XSDToPython: no base64 decoder found")
    # the patterns themselves
    seen_pat: set[str] = set()
    for iri, pe in sorted(table.items()):
        ptxt = H.fold_str(repo, tm, pe, wrappers=("URIRef", "str", "re.compile", "compile"))
        if ptxt is None and isinstance(pe, ast.Call) and norm(pe.func) in ("re.compile", "compile") and pe.args:
            ptxt = H.fold_str(repo, tm, pe.args[0])
        if ptxt is None and isinstance(pe, ast.Name):
            vals = H.module_assigns(tm).get(pe.id, [])
            if len(vals) == 1 and isinstance(vals[0], ast.Call) and norm(vals[0].func) in ("re.compile", "compile") and vals[0].args:
                ptxt = H.fold_str(repo, tm, vals[0].args[0])
        if ptxt is None:
            raise AnalysisError("_lexical_spaces[%s]: pattern %s is not a constant" % (iri, norm(pe)))
        if ptxt in seen_pat:
            continue
        seen_pat.add(ptxt)
        cats = {c for c in _regex_categories(ptxt) if c.startswith("CATEGORY")}
        rep.ob(rid, tm, "_lexical_spaces", "pattern %s" % ptxt, not cats,
               "ASCII classes only" if not cats else "the pattern uses %s, which in a str pattern match non-ASCII characters (\\d matches the Arabic-Indic digits int() also takes): "
               "'١'^^xsd:integer stays well-typed and is rewritten to '1'" % sorted(cats), node=pe)
    # Literal.__new__ consults the table, by a full match
    new = lm["__new__"]
    flag_assigns = [n for n in own_nodes(new) if isinstance(n, ast.Assign) and isinstance(n.targets[0], ast.Attribute) and n.targets[0].attr == "_ill_typed"]
    consult = []
    for fa in flag_assigns:
        for body in _consulting_defs(repo, tm, new, fa.value, "_lexical_spaces"):
            if body not in consult:
                consult.append(body)
    ok = bool(consult)
    rep.ob(rid, tm, "Literal.__new__", "the ill-typed flag depends on _lexical_spaces", ok,
           "" if ok else "Literal.__new__ decides ill-typedness from the converter's success alone: every form the lenient Python / ISO 8601 converters accept is well-typed", node=new)
    for body in consult[:1]:
        full = any(isinstance(c, ast.Call) and isinstance(c.func, ast.Attribute) and c.func.attr == "fullmatch" for c in ast.walk(body))
        rep.ob(rid, tm, body.name, "the pattern is applied with fullmatch", full,
               "" if full else "%s applies the pattern with match()/search(): a form with a valid prefix ('1_000', '12abc') is in the lexical space" % body.name, node=body)


# ---------------------------------------------------------------------- (l)
def _rule_l_backslash_parity(repo: Repo, rep: Report) -> None:
    rid = "C07.l-escapedness-by-parity"
    rep.rule(rid,
             "a function that writes text in which the backslash escapes itself (it maps every backslash to two: .replace('\\\\', '\\\\\\\\'), or .translate() with a constant "
             "table that has this entry) never decides whether a character is already "
             "escaped by looking at ONE neighbouring character (x[-2] != '\\\\', x.endswith('\\\\')): after an escaped backslash the neighbour is a backslash too, only the parity of "
             "the run tells.  Literal('a\\n\\\\\"').n3() ended in \\\\\"\"\"\" - the final quote closed the long string early and the text did not read back", floor=2)
    n = 0
    for _, mod in sorted(repo.modules.items()):
        for q, fn in mod.functions():
            doubles = H.backslash_doublings(repo, mod, fn)
            if not doubles:
                continue
            n += 1
            rep.analysed("%s:%s" % (mod.rel, q))
            bad = []
            for c in own_nodes(fn):
                if isinstance(c, ast.Compare) and len(c.ops) == 1 and isinstance(c.ops[0], (ast.Eq, ast.NotEq)):
                    sides = [c.left, c.comparators[0]]
                    if any(isinstance(s, ast.Constant) and s.value in ("\\", b"\\") for s in sides) and \
                            any(isinstance(s, ast.Subscript) and not isinstance(s.slice, ast.Slice) for s in sides):
                        bad.append(c)
                if isinstance(c, ast.Call) and isinstance(c.func, ast.Attribute) and c.func.attr in ("endswith", "startswith") and c.args \
                        and isinstance(c.args[0], ast.Constant) and c.args[0].value in ("\\", b"\\"):
                    bad.append(c)
            if not bad:
                rep.ob(rid, mod, q, "no single-character test for 'already escaped'", True, "", node=fn)
            for c in bad:
                rep.ob(rid, mod, q, c, False,
                       "%s reads one character to decide whether the next one is escaped; in this text a backslash may itself be the second half of an escaped backslash: "
                       "for the lexical form 'a<LF>\\\\\"' (ends in backslash, quote) the final quote is left unescaped and runs into the closing quotes" % norm(c), node=c)
    if n == 0:
        raise AnalysisError("no function doubling backslashes found (Literal._quote_encode changed shape)")


# ---------------------------------------------------------------------- (m)
def _rule_m_plain_types(repo: Repo, rep: Report, tm) -> None:
    rid = "C07.m-shorthand-types-have-a-token"
    rep.rule(rid,
             "every datatype in term._PLAIN_LITERAL_TYPES (those Literal._literal_n3(use_plain=True) may write as a bare token) is a datatype the Turtle-family parser gives to a "
             "bare token (the Literal(..., datatype=) constructions of notation3.RDFSink.normalise): owl:rational has no token - a bare -3 is read back as xsd:integer and a "
             "bare 1/2 is a syntax error", floor=4)
    vals = H.module_assigns(tm).get("_PLAIN_LITERAL_TYPES", [])
    if len(vals) != 1 or not isinstance(vals[0], (ast.Tuple, ast.List)):
        raise AnalysisError("term._PLAIN_LITERAL_TYPES is not a tuple display")
    nm = repo.mod("rdflib.plugins.parsers.notation3")
    nf = nm.func("RDFSink.normalise")
    rep.analysed("rdflib/plugins/parsers/notation3.py:RDFSink.normalise")
    read: set[str] = set()
    for c in own_nodes(nf):
        if isinstance(c, ast.Call) and norm(c.func) == "Literal":
            for kw in c.keywords:
                if kw.arg == "datatype":
                    iri = H.fold_str(repo, nm, kw.value)
                    if iri is None:
                        raise AnalysisError("RDFSink.normalise: datatype %s is not a constant" % norm(kw.value))
                    read.add(iri)
    if len(read) < 4:
        raise AnalysisError("RDFSink.normalise: bare-token datatypes not found (%s)" % sorted(read))
    for e in vals[0].elts:
        iri = H.fold_str(repo, tm, e)
        if iri is None:
            raise AnalysisError("_PLAIN_LITERAL_TYPES: %s is not a constant IRI" % norm(e))
        ok = iri in read
        rep.ob(rid, tm, "_PLAIN_LITERAL_TYPES", "%s (%s)" % (norm(e), iri), ok,
               "a bare token of the parser" if ok else "no bare token of the Turtle / N3 / SPARQL grammars is read as <%s>: a literal of this type written without quotes and datatype "
               "comes back as a term of another datatype or does not parse (Literal(Fraction(-3)) -> -3 -> xsd:integer)" % iri, node=e)


# ---------------------------------------------------------------------- (n)
def _own_text(mod, fn: ast.AST, at: ast.AST, e: ast.AST, selfname: str, depth: int = 0) -> bool:
    """e, evaluated at statement `at`, is the literal's own lexical form: str(self), f"{self}", self, or a local name whose
    bindings reaching `at` are all such"""
    if depth > 6:
        return False
    if isinstance(e, ast.Name):
        if e.id == selfname:
            return True
        vals = H.reaching_values(mod, fn, at, e.id)
        return bool(vals) and all(v is not None and _own_text(mod, fn, at, v, selfname, depth + 1) for v in vals)
    if isinstance(e, ast.JoinedStr):
        return len(e.values) == 1 and isinstance(e.values[0], ast.FormattedValue) and e.values[0].format_spec is None \
            and e.values[0].conversion in (-1, 115) and _own_text(mod, fn, at, e.values[0].value, selfname, depth + 1)
    if isinstance(e, ast.Call) and not e.keywords:
        f = norm(e.func)
        if f in ("str", "str.__str__") and len(e.args) == 1:
            return _own_text(mod, fn, at, e.args[0], selfname, depth + 1)
        if f == selfname + ".__str__" and not e.args:
            return True
    return False


def _subst_name(e: ast.AST, name: str, value: Optional[ast.AST], placeholder: str = "TOKEN") -> str:
    """text of e with the local `name` replaced by the expression it is bound to (or a placeholder): independent of how locals are called"""
    import copy

    class T(ast.NodeTransformer):
        def visit_Name(self, n: ast.Name):  # noqa: N802
            if n.id == name:
                return copy.deepcopy(value) if value is not None else ast.Name(id=placeholder, ctx=ast.Load())
            return n

    return norm(T().visit(copy.deepcopy(e)))


def _not_ill_typed(at: list, selfname: str) -> bool:
    for e, pol in at:
        if isinstance(e, ast.Attribute) and e.attr in ("ill_typed", "_ill_typed") and norm(e.value) == selfname and pol is False:
            return True
        if isinstance(e, ast.Compare) and len(e.ops) == 1 and isinstance(e.left, ast.Attribute) and e.left.attr in ("ill_typed", "_ill_typed") \
                and norm(e.left.value) == selfname and isinstance(e.comparators[0], ast.Constant):
            c, op = e.comparators[0].value, e.ops[0]
            if c is False and isinstance(op, (ast.Is, ast.Eq)) and pol:
                return True
            if c is True and isinstance(op, (ast.Is, ast.Eq)) and not pol:
                return True
            if c is True and isinstance(op, (ast.IsNot, ast.NotEq)) and pol:
                return True
    return False


class _Frame:
    """one function on the way from Literal._literal_n3 to a token: the name the literal has there and what is known where the
    token is computed (tests of the enclosing arms, negated tests of the guard clauses passed)"""

    def __init__(self, mod, fn: ast.AST, lit: Optional[str], facts: list):
        self.mod, self.fn, self.lit, self.facts = mod, fn, lit, list(facts)
        self.D = H.Defs(fn)


class _Token:
    """an expression whose value Literal._literal_n3 returns as a bare token: `expr`, evaluated at statement `at` of the last frame"""

    def __init__(self, expr: ast.AST, at: ast.AST, frames: list):
        self.expr, self.at, self.frames = expr, at, frames

    @property
    def last(self) -> "_Frame":
        return self.frames[-1]


def _shorthand_block(tm, fn: ast.AST) -> ast.If:
    blocks = [s for s in own_nodes(fn) if isinstance(s, ast.If) and any(isinstance(x, ast.Name) and x.id == "_PLAIN_LITERAL_TYPES" for x in ast.walk(s.test))]
    if len(blocks) != 1:
        raise AnalysisError("Literal._literal_n3: the shorthand block (test on _PLAIN_LITERAL_TYPES) not found once (%d)" % len(blocks))
    return blocks[0]


def _shorthand_tokens(repo: Repo, tm, fn: ast.AST, me: str) -> tuple[ast.If, list["_Token"]]:
    """the bare tokens of the Turtle shorthand: every expression whose value a `return` of the shorthand block of _literal_n3 hands back -
    written in the block, or returned by a def of the package the block calls for it (followed to depth 3; None stands for 'no token',
    a conditional expression is split into its arms).  Where the code that picks the token sits is not part of the clause."""
    blk = _shorthand_block(tm, fn)
    out: list[_Token] = []

    def follow(frames: list, at: ast.AST, e: ast.AST, depth: int) -> None:
        fr = frames[-1]
        for val, conds in H.split_conditional(e):
            here = frames[:-1] + [_Frame(fr.mod, fr.fn, fr.lit, fr.facts + conds)] if conds else frames
            if isinstance(val, ast.Constant) and val.value is None:
                continue  # no token on this path
            call = val
            if isinstance(val, ast.Name) and val.id != fr.lit:
                rv = H.reaching_values(fr.mod, fr.fn, at, val.id)
                if len(rv) == 1 and isinstance(rv[0], ast.Call):
                    call = rv[0]
            cal = None
            if isinstance(call, ast.Call) and depth < 3 and not (fr.lit is not None and _own_text(fr.mod, fr.fn, at, val, fr.lit)):
                cal = H.resolve_call(repo, fr.mod, call, "Literal" if fr.mod is tm else None)
                if cal is not None and cal.fn is fn:
                    cal = None
            if cal is None:
                out.append(_Token(val, at, here))
                continue
            lit = cal.param_of(lambda a: isinstance(a, ast.Name) and a.id == fr.lit) if fr.lit is not None else None
            rets = [r for r in own_nodes(cal.fn) if isinstance(r, ast.Return) and r.value is not None]
            if not rets:
                out.append(_Token(val, at, here))
                continue
            for r in rets:
                follow(here + [_Frame(cal.mod, cal.fn, lit, H.facts_at(cal.mod, cal.fn, r))], r, r.value, depth + 1)

    rets = [r for s in blk.body for r in ast.walk(s) if isinstance(r, ast.Return) and r.value is not None
            and not (isinstance(r.value, ast.Call) and norm(r.value.func) == me + "._literal_n3")]
    if not rets:
        raise AnalysisError("Literal._literal_n3: the shorthand block returns no bare token")
    for r in rets:
        follow([_Frame(tm, fn, me, H.facts_at(tm, fn, r))], r, r.value, 0)
    return blk, out


def _quoted_text_rewrites(repo: Repo, mod, fn: ast.AST, q: str, exempt, depth: int = 0) -> tuple[list[tuple[ast.AST, str]], list[str]]:
    """(re-bindings of the quoted text, defs it passes through unchanged): every binding of the local `q` of fn other than the exempt
    ones re-binds the text - unless it is `q = h(.., q, ..)` for a def h of the package, in which case the text is followed into h:
    there the re-bindings of the parameter, and every `return` of something else than the parameter, are the rewrites"""
    rewrites: list[tuple[ast.AST, str]] = []
    through: list[str] = []
    for n in own_nodes(fn):
        if not (isinstance(n, (ast.Assign, ast.AugAssign, ast.AnnAssign)) and any(isinstance(t, ast.Name) and t.id == q for t in (n.targets if isinstance(n, ast.Assign) else [n.target]))):
            continue
        v = getattr(n, "value", None)
        if v is None or exempt(v):
            continue
        cal = H.resolve_call(repo, mod, v, mod.qual_of(fn).rsplit(".", 1)[0] if "." in mod.qual_of(fn) else None) if isinstance(n, (ast.Assign, ast.AnnAssign)) and depth < 3 else None
        p = cal.param_of(lambda a: isinstance(a, ast.Name) and a.id == q) if cal is not None else None
        if cal is None or p is None or cal.fn is fn:
            rewrites.append((n, _subst_name(v, q, None, "QUOTED")))
            continue
        inner, th = _quoted_text_rewrites(repo, cal.mod, cal.fn, p, lambda _v: False, depth + 1)
        for r in own_nodes(cal.fn):
            if isinstance(r, ast.Return) and not (isinstance(r.value, ast.Name) and r.value.id == p):
                inner.append((r, _subst_name(r.value, p, None, "QUOTED") if r.value is not None else "None"))
        rewrites += inner
        through += [cal.fn.name] + th
    return rewrites, through


def _rule_n_written_text(repo: Repo, rep: Report, tm, lm) -> None:
    rid = "C07.n-written-text-is-the-lexical-form"
    rep.rule(rid,
             "Literal._literal_n3 writes the literal's own lexical form: (1) a bare token of the Turtle shorthand - an expression a `return` of the shorthand block hands back, "
             "written there or in a def the block calls for it - is the text of the literal itself (str(self) / f'{self}', possibly "
             "after tests on it), never a text derived from it (s += '.0' wrote \"1\"^^xsd:decimal as 1.0; .lower() / the value wrote \"1\"^^xsd:boolean as 1, an integer) - "
             "the parser takes the token for the lexical form; (2) the shorthand is used only for literals that are not ill-typed (an ill-typed form is not a token of the grammar): "
             "a test of ill_typed holds where the token is computed, in _literal_n3 or in that def; (3) in the quoted form the text bound from self._quote_encode() is not rewritten "
             "afterwards, neither in _literal_n3 nor in a def it is handed to and taken back from", floor=5)
    fn = lm.get("_literal_n3")
    if fn is None:
        raise AnalysisError("Literal._literal_n3 vanished")
    rep.analysed("rdflib/term.py:Literal._literal_n3")
    me = _self_param(fn)
    blk, tokens = _shorthand_tokens(repo, tm, fn, me)
    if not tokens:
        raise AnalysisError("Literal._literal_n3: the shorthand block returns no bare token")
    for t in tokens:
        fr = t.last
        ok = fr.lit is not None and _own_text(fr.mod, fr.fn, t.at, t.expr, fr.lit)
        # the token as a computation: how a constant regular expression it applies is kept (pattern text in place, a precompiled
        # module-level constant, `re.sub` or `sub`) is not part of it
        def _text(e_: ast.AST, _mod=fr.mod) -> str:
            return norm(H.functional_regex_calls(repo, _mod, e_))

        shown = _text(t.expr)
        one = None
        if isinstance(t.expr, ast.Name):
            rv = H.reaching_values(fr.mod, fr.fn, t.at, t.expr.id)
            shown = " | ".join("<augmented>" if v is None else _text(v) for v in rv) or shown
            one = rv[0] if len(rv) == 1 and rv[0] is not None else None
        # the tests the token went through (part of the construct: a tested and an untested token differ)
        tested = []
        for e, pol in H.atoms(fr.facts):
            if isinstance(t.expr, ast.Name) and any(isinstance(x, ast.Name) and x.id == t.expr.id for x in ast.walk(e)):
                tested.append(("" if pol else "not ") + _subst_name(e, t.expr.id, one))
        if tested:
            shown += " [tested: %s]" % "; ".join(tested)
        rep.ob(rid, tm, "Literal._literal_n3", "bare token: %s" % shown, ok,
               "the literal's own text" if ok else "the token written is not the lexical form of the literal but a text computed from it (%s): the parser reads a bare token as "
               "the lexical form, so the term read back is another one whenever the two differ" % shown, node=t.at)
    unguarded = [t for t in tokens if not any(f.lit is not None and _not_ill_typed(H.atoms(f.facts), f.lit) for f in t.frames)]
    rep.ob(rid, tm, "Literal._literal_n3", "bare tokens only for literals that are not ill-typed", not unguarded,
           "" if not unguarded else "the shorthand block is entered on `%s` alone; an ill-typed literal may have a value (the converters are lenient: '1_000'^^xsd:integer has the value 1000, "
           "'1e3'^^xsd:decimal, 'TRUE'^^xsd:boolean) and its lexical form is then written as a bare token: 1_000 does not parse, 1e3 is read back as an xsd:double"
           % " and ".join(norm(e) if pol else "not (%s)" % norm(e) for f in unguarded[0].frames for e, pol in H.atoms(f.facts)[:3]), node=blk)
    # (3) quoted path
    def from_encoder(v: ast.AST) -> bool:
        return isinstance(v, ast.Call) and norm(v.func) == me + "._quote_encode"

    qnames = [norm(n.targets[0]) for n in own_nodes(fn) if isinstance(n, (ast.Assign,)) and from_encoder(n.value) and isinstance(n.targets[0], ast.Name)]
    qnames += [n.target.id for n in own_nodes(fn) if isinstance(n, ast.AnnAssign) and n.value is not None and from_encoder(n.value) and isinstance(n.target, ast.Name)]
    if not qnames:
        raise AnalysisError("Literal._literal_n3: self._quote_encode() is not bound to a name")
    for q in sorted(set(qnames)):
        others, through = _quoted_text_rewrites(repo, tm, fn, q, from_encoder)
        if not others:
            rep.ob(rid, tm, "Literal._literal_n3", "the quoted text is self._quote_encode(), unchanged%s" % ("".join(" through %s()" % h for h in through)), True, "", node=fn)
        for n, shown in others:
            rep.ob(rid, tm, "Literal._literal_n3", "re-binds the quoted text: %s" % shown, False,
                   "the quoted lexical form is rewritten after encoding: Literal('inf', datatype=XSD.double).n3() is \"INF\"^^xsd:double and Literal(Decimal('Infinity')).n3() is "
                   "\"INF\"^^xsd:decimal - read back, these are other terms than the ones written (the constructor already writes INF / NaN for float values; what is left are "
                   "ill-typed forms and Decimal('Infinity'), which must keep their text)", node=n)


# ---------------------------------------------------------------------- (o) (p) (q)
def _lang_of(D: "H.Defs", e: ast.AST, depth: int = 0, expand=None) -> Optional[tuple[str, bool]]:
    """(whose, case-folded?) when e is the language tag of a literal: x.language / x._language, `... or ""`,
    `x._language.lower() if x._language else None`, .lower()/.casefold() of one, a local name bound to one, or a call of a
    one-expression def of the package / a read of a private one-expression property that returns one of these for its argument
    (`expand` replaces such calls and reads by what they return)"""
    if depth > 6:
        return None
    if isinstance(e, ast.Attribute) and e.attr in ("language", "_language") and isinstance(e.value, ast.Name):
        return e.value.id, False
    if isinstance(e, ast.BoolOp) and isinstance(e.op, ast.Or) and len(e.values) == 2 and isinstance(e.values[1], ast.Constant):
        return _lang_of(D, e.values[0], depth + 1, expand)
    if isinstance(e, ast.IfExp):
        return _lang_of(D, e.body, depth + 1, expand)
    if isinstance(e, ast.Call) and isinstance(e.func, ast.Attribute) and not e.args and not e.keywords:
        inner = _lang_of(D, e.func.value, depth + 1, expand)
        if inner is not None and e.func.attr in ("lower", "casefold", "upper"):
            return inner[0], True
        if inner is not None:
            return None
    if isinstance(e, (ast.Call, ast.Attribute)) and expand is not None:
        x = expand(e)
        if norm(x) != norm(e):
            return _lang_of(D, x, depth + 1, expand)
        return None
    if isinstance(e, ast.Name):
        r = D.resolve(e)
        if r is not e:
            return _lang_of(D, r, depth + 1, expand)
    return None


def _compares_reached(repo: Repo, mod, fn: ast.AST, cls: Optional[str], ops: tuple, operand) -> list[tuple[ast.AST, ast.AST, ast.AST, ast.cmpop, ast.AST]]:
    """(site, left, right, operator, comparison) for every two-operand comparison with an operator out of `ops` that fn performs: written
    in fn (site = the comparison), or written in a def of the package that fn hands two operands to - a call with at least two arguments that
    satisfy `operand` - between these two parameters, which (with the singly-bound locals of that def) are replaced by the arguments of the
    call (site = the call).  `_tag_gt(a_tag, b_tag)` compares the two tags as `a_tag > b_tag` in place does."""
    out: list[tuple[ast.AST, ast.AST, ast.AST, ast.cmpop, ast.AST]] = []
    for c in own_nodes(fn):
        if isinstance(c, ast.Compare) and len(c.ops) == 1 and isinstance(c.ops[0], ops):
            out.append((c, c.left, c.comparators[0], c.ops[0], c))
        elif isinstance(c, ast.Call) and len(c.args) + len(c.keywords) >= 2:
            cal = H.resolve_call(repo, mod, c, cls)
            if cal is None or cal.fn is fn:
                continue
            handed = {p for p, a in cal.bound.items() if a is not None and any(a is x for x in list(c.args) + [k.value for k in c.keywords]) and operand(a)}
            if len(handed) < 2:
                continue
            De = H.Defs(cal.fn)
            for cc in own_nodes(cal.fn):
                if isinstance(cc, ast.Compare) and len(cc.ops) == 1 and isinstance(cc.ops[0], ops):
                    try:
                        l = ast.parse(De.expand(cc.left), mode="eval").body
                        r = ast.parse(De.expand(cc.comparators[0]), mode="eval").body
                    except SyntaxError:
                        continue
                    if not all(any(isinstance(x, ast.Name) and x.id in handed for x in ast.walk(side)) for side in (l, r)):
                        continue
                    out.append((c, H.subst_names(l, cal.bound), H.subst_names(r, cal.bound), cc.ops[0], cc))
    return out


def _reads_of(D: "H.Defs", e: ast.AST, attrs: tuple[str, ...], depth: int = 0) -> set[str]:
    """whose <attrs> attribute the expression (local names followed) reads: {'self'}, {'other'}, ..."""
    out: set[str] = set()
    if depth > 6:
        return out
    for x in ast.walk(e):
        if isinstance(x, ast.Attribute) and x.attr in attrs and isinstance(x.value, ast.Name):
            out.add(x.value.id)
        elif isinstance(x, ast.Name) and x.id not in D.params:
            for v in D.values(x.id):
                if v is not None:
                    out |= _reads_of(D, v, attrs, depth + 1)
    return out


def _is_value_of(D: "H.Defs", e: ast.AST, who: str) -> bool:
    r = D.resolve(e) if isinstance(e, ast.Name) else e
    return isinstance(r, ast.Attribute) and r.attr in ("value", "_value") and isinstance(r.value, ast.Name) and r.value.id == who


def _rule_p_language_folded(repo: Repo, rep: Report, tm, lm) -> None:
    # ---- (p) language tags are compared case-folded wherever two literals are compared
    rp = "C07.p-language-compared-casefolded"
    rep.rule(rp,
             "wherever a method of Literal compares the language tags of two literals (==, !=, <, >; in the method, or in a def of the package it hands the two tags to), "
             "both sides are case-folded (.lower() / .casefold(), applied in place or by a one-expression def), as in __eq__ and __hash__: "
             "'chat'@en and 'chat'@EN are equal, so neither may be greater than the other (sorted() / ORDER BY otherwise depend on the input order)", floor=5)
    def expand(e: ast.AST) -> ast.AST:
        return H.expand_calls(repo, tm, e, "Literal")

    for name, fn in sorted(lm.items()):
        D = H.Defs(fn)
        for site, left, right, op, c in _compares_reached(repo, tm, fn, "Literal", (ast.Eq, ast.NotEq, ast.Lt, ast.Gt, ast.LtE, ast.GtE),
                                                          lambda a: _lang_of(D, a, 0, expand) is not None):
            a, b = _lang_of(D, left, 0, expand), _lang_of(D, right, 0, expand)
            if a is None or b is None or a[0] == b[0]:
                continue
            rep.analysed("rdflib/term.py:Literal." + name)
            ok = a[1] and b[1]
            rep.ob(rp, tm, "Literal." + name, "%s %s %s" % (D.expand(left), type(op).__name__, D.expand(right)), ok,
                   "case-folded on both sides" if ok else "the tags are compared as written: Literal('chat', lang='en') == Literal('chat', lang='EN') but this comparison tells them apart, "
                   "so one is ordered after the other / they are not comparable though equal", node=c)


def _numeric_flag_of(repo: Repo, tm, D: "H.Defs", e: ast.AST) -> set[str]:
    """whose datatype the expression tests for membership in _NUMERIC_LITERAL_TYPES - a numeric flag of <who>.  Local names are
    followed to their bindings and calls of one-expression defs of the package to what they return (`x._is_number()` is a name for
    `x.datatype in _NUMERIC_LITERAL_TYPES and ...`)"""
    try:
        tree = ast.parse(D.expand(e), mode="eval")
    except SyntaxError:
        return set()
    tree = H.expand_calls(repo, tm, tree, "Literal")
    who = set()
    for x in ast.walk(tree):
        if isinstance(x, ast.Compare) and len(x.ops) == 1 and isinstance(x.ops[0], ast.In) and norm(x.comparators[0]) == "_NUMERIC_LITERAL_TYPES":
            who |= {n.value.id for n in ast.walk(x.left) if isinstance(n, ast.Attribute) and isinstance(n.value, ast.Name)}
    return who


def _gt_lt(rep: Report, lm):
    gt = lm.get("__gt__")
    lt = lm.get("__lt__")
    if gt is None or lt is None:
        raise AnalysisError("Literal.__gt__/__lt__ vanished")
    rep.analysed("rdflib/term.py:Literal.__gt__", "rdflib/term.py:Literal.__lt__")
    return gt, lt


def _rule_o_numbers_one_block(repo: Repo, rep: Report, tm, lm) -> None:
    gt, lt = _gt_lt(rep, lm)
    me, ot = _self_param(gt), _second_param(gt)
    D = H.Defs(gt)

    def numeric_flag_of(e: ast.AST) -> set[str]:
        return _numeric_flag_of(repo, tm, D, e)

    # ---- (o) numbers are one block in the order of the datatypes
    ro = "C07.o-numbers-one-block-in-datatype-order"
    rep.rule(ro,
             "Literal.__gt__: numeric literals are ordered by value across datatypes, so a comparison that orders two literals by another key - the datatype IRIs, or the lexical "
             "forms; written in __gt__ or in a def of the package __gt__ hands the two keys to - is reached only after it was decided that both or neither are numbers (a test `<numeric self> != <numeric other>` that returns); interleaving numbers with "
             "other literals by such a key breaks transitivity: 0 < 1.0e0 (value) < P1D (xsd:double < xsd:duration) < 0 (xsd:duration < xsd:integer)", floor=3)
    n_o = 0

    def lexical_of(e: ast.AST) -> Optional[str]:
        return norm(e.args[0]) if isinstance(e, ast.Call) and norm(e.func) == "str" and len(e.args) == 1 and not e.keywords else None

    def order_key(a: ast.AST) -> bool:
        return bool(_reads_of(D, a, ("datatype", "_datatype"))) or lexical_of(a) in (me, ot)

    # the comparisons __gt__ performs: in its body, or in a def it hands the two keys to (judged where that def is called)
    for c, l, r, op, cmp_ in _compares_reached(repo, tm, gt, "Literal", (ast.Gt, ast.Lt, ast.GtE, ast.LtE), order_key):
        kind = None
        if _reads_of(D, l, ("datatype", "_datatype")) == {me} and _reads_of(D, r, ("datatype", "_datatype")) == {ot}:
            kind = "datatype IRI"
        elif (lexical_of(l), lexical_of(r)) == (me, ot):
            kind = "lexical form"
        if kind is None:
            continue
        n_o += 1
        at = H.atoms(H.path_conds(tm, gt, c))
        decided = False
        # (i) an earlier arm of the chain, or an earlier statement all of whose paths leave, tested the numeric flags for difference
        def is_flag_test(e: ast.AST) -> bool:
            return isinstance(e, ast.Compare) and len(e.ops) == 1 and isinstance(e.ops[0], (ast.NotEq, ast.IsNot)) \
                and numeric_flag_of(e.left) == {me} and numeric_flag_of(e.comparators[0]) == {ot}
        if any(is_flag_test(e) and pol is False for e, pol in at):
            decided = True
        for st in H.earlier_siblings(tm, gt, c):
            if isinstance(st, ast.If) and is_flag_test(st.test) and H.always_leaves(st.body):
                decided = True
        # (ii) datatype IRIs only: the (coalesced) datatypes were found equal before - the two are of one kind
        same_dt = False
        if kind == "datatype IRI":
            for st in H.earlier_siblings(tm, gt, c):
                if isinstance(st, ast.If) and isinstance(st.test, ast.Compare) and len(st.test.ops) == 1 and isinstance(st.test.ops[0], ast.NotEq) \
                        and _reads_of(D, st.test.left, ("datatype", "_datatype")) == {me} and _reads_of(D, st.test.comparators[0], ("datatype", "_datatype")) == {ot} \
                        and H.always_leaves(st.body):
                    same_dt = True
        ok = decided or same_dt
        rep.ob(ro, tm, "Literal.__gt__", "order by %s: %s" % (kind, D.expand(ast.Compare(left=l, ops=[op], comparators=[r]))), ok,
               ("after the numbers were set apart" if decided else "datatypes already found equal") if ok else
               "two literals are ordered by their %s although one of them may be a number (ordered by value against the other numbers) and the other not: the order is not "
               "transitive - %s" % (kind, "0 < 1.0e0 < 'P1D'^^xsd:duration < 0" if kind == "datatype IRI" else
                                    "'5'^^xsd:integer < '20'^^xsd:integer (value) < '3x'^^xsd:integer (lexical form) < '5'^^xsd:integer (lexical form)"), node=c)
    if n_o == 0:
        raise AnalysisError("Literal.__gt__: no comparison by datatype IRI / lexical form found")


def _rule_q_total_and_mirrored(repo: Repo, rep: Report, tm, lm) -> None:
    gt, lt = _gt_lt(rep, lm)
    me, ot = _self_param(gt), _second_param(gt)
    D = H.Defs(gt)

    def numeric_flag_of(e: ast.AST) -> set[str]:
        return _numeric_flag_of(repo, tm, D, e)

    # ---- (q) NaN, mirror, reflexivity
    rq = "C07.q-order-total-on-nan-and-mirrored"
    rep.rule(rq,
             "the literal order is a strict order also where values are not: (1) in the numeric arm of Literal.__gt__ a value comparison `a > b` is preceded by a NaN test of both "
             "operands (x != x) that returns - NaN > x and x > NaN are both False, and Decimal raises InvalidOperation; (2) Literal.__lt__(other) is other.__gt__(self), not "
             "`not self > other and not self.eq(other)`, which holds in both directions for unordered values; (3) __le__/__ge__ are mirror images and accept the same term "
             "(self == other), since value equality eq() is not reflexive (NaN)", floor=5)
    n_q = 0
    for c in own_nodes(gt):
        if not (isinstance(c, ast.Compare) and len(c.ops) == 1 and isinstance(c.ops[0], (ast.Gt, ast.Lt)) and _is_value_of(D, c.left, me) and _is_value_of(D, c.comparators[0], ot)):
            continue
        at = H.atoms(H.path_conds(tm, gt, c))
        if not any(pol and numeric_flag_of(e) for e, pol in at):
            continue  # not in the numeric arm: values of one non-numeric datatype
        n_q += 1
        covered: set[str] = set()
        for st in H.earlier_siblings(tm, gt, c):
            if isinstance(st, ast.If) and H.always_leaves(st.body):
                for x in ast.walk(st.test):
                    if isinstance(x, ast.Compare) and len(x.ops) == 1 and isinstance(x.ops[0], ast.NotEq) and norm(x.left) == norm(x.comparators[0]):
                        for who in (me, ot):
                            if _is_value_of(D, x.left, who):
                                covered.add(who)
                    if isinstance(x, ast.Call) and (norm(x.func) in ("math.isnan", "isnan") or (isinstance(x.func, ast.Attribute) and x.func.attr == "is_nan")):
                        tgt = x.args[0] if x.args else x.func.value  # type: ignore[union-attr]
                        for who in (me, ot):
                            if _is_value_of(D, tgt, who):
                                covered.add(who)
        ok = covered == {me, ot}
        rep.ob(rq, tm, "Literal.__gt__", "numeric arm: %s after a NaN test of both values" % D.expand(c), ok,
               "" if ok else "the values of two numeric literals are compared with > without a NaN test%s: Literal(float('nan')) is neither greater nor less than any number nor equal "
               "to it, so sorted() / ORDER BY give an order that depends on the input; Literal(Decimal(1)) > Literal(float('nan')) raises decimal.InvalidOperation"
               % (" of %s" % sorted({me, ot} - covered) if covered else ""), node=c)
    if n_q == 0:
        raise AnalysisError("Literal.__gt__: no value comparison in the numeric arm found")
    # (2) mirror
    lme, lot = _self_param(lt), _second_param(lt)
    calls = [c for c in own_nodes(lt) if isinstance(c, ast.Call) and isinstance(c.func, ast.Attribute) and c.func.attr == "__gt__" and len(c.args) == 1]
    cmps = [c for c in own_nodes(lt) if isinstance(c, ast.Compare) and len(c.ops) == 1 and isinstance(c.ops[0], ast.Gt)]
    pairs = [(norm(c.func.value), norm(c.args[0]), c) for c in calls] + [(norm(c.left), norm(c.comparators[0]), c) for c in cmps]
    if not pairs:
        raise AnalysisError("Literal.__lt__ does not delegate to __gt__: unmodelled")
    for a, b, c in pairs:
        ok = (a, b) == (lot, lme)
        rep.ob(rq, tm, "Literal.__lt__", "%s: operands swapped" % norm(c), ok,
               "a < b is b > a" if ok else "__lt__ is derived from %s.__gt__(%s) (with eq()) instead of the mirror image %s.__gt__(%s): for two literals that are not ordered by value "
               "(NaN; eq() is False both ways) a < b and b < a both hold" % (a, b, lot, lme), node=c)
    # (3) __le__ / __ge__
    le, ge = lm.get("__le__"), lm.get("__ge__")
    if le is None or ge is None:
        raise AnalysisError("Literal.__le__/__ge__ vanished")
    for name, fn in (("__le__", le), ("__ge__", ge)):
        s_, o_ = _self_param(fn), _second_param(fn)
        refl = any((isinstance(c, ast.Compare) and len(c.ops) == 1 and isinstance(c.ops[0], ast.Eq) and {norm(c.left), norm(c.comparators[0])} == {s_, o_})
                   or (isinstance(c, ast.Call) and norm(c.func) in (s_ + ".__eq__", o_ + ".__eq__"))
                   for r in own_nodes(fn) if isinstance(r, ast.Return) and r.value is not None for c in ast.walk(r.value))
        rep.ob(rq, tm, "Literal." + name, "accepts the same term (%s == %s)" % (s_, o_), refl,
               "" if refl else "%s falls back on value equality eq() only, which is not reflexive: Literal(float('nan')) %s Literal(float('nan')) is False for one and the same term"
               % (name, "<=" if name == "__le__" else ">="), node=fn)
    # the mirror image: every __lt__ becomes __gt__ and every __gt__ becomes __lt__ (both may occur: `< decides, else eq, else not >`)
    swapped = ast.unparse(ast.Module(body=le.body, type_ignores=[])).replace("__lt__", "\0").replace("__gt__", "__lt__").replace("\0", "__gt__")
    mirror = H_canon_body(swapped) == H_canon_body(ast.unparse(ast.Module(body=ge.body, type_ignores=[])))
    rep.ob(rq, tm, "Literal.__le__/__ge__", "same body up to __lt__/__gt__", mirror,
           "" if mirror else "__le__ and __ge__ decide differently: for some pair a <= b is not b >= a", node=le)


def H_canon_body(src: str) -> str:
    """alpha-canonical text of a function body (docstring dropped)"""
    tree = ast.parse(src)
    tree.body = [s for s in tree.body if not (isinstance(s, ast.Expr) and isinstance(s.value, ast.Constant) and isinstance(s.value.value, str))]
    order: dict[str, str] = {}
    for n in sorted((x for x in ast.walk(tree) if isinstance(x, ast.Name)), key=lambda x: (x.lineno, x.col_offset)):
        order.setdefault(n.id, "v%d" % len(order))
    for n in ast.walk(tree):
        if isinstance(n, ast.Name):
            n.id = order[n.id]
    return norm(ast.unparse(tree))


# ====================================================================== fourth layer: rules (r) - (t)
# Structural conditions behind F185 (from_n3 un-escaped in several passes), F186 (from_n3 took numbers by str methods)
# and F188 (graph digests hashed the language tag as written).  Helpers: vlib/h_c07.py (last section).

_EXPLANATION_R_U = (
        " (r) text in which the backslash escapes itself is un-escaped in one left-to-right pass, never by str.replace() of escape sequences, "
        "and from_n3 hands Literal() the un-escaped text; (s) from_n3 takes a token for a number on a full match of the number grammar, which "
        "agrees with the Turtle parser's number patterns on a table of witnesses (signed exponent, ASCII digits only); (t) where term text is "
        "hashed into a graph digest, the n3() text of a literal that may carry a language tag is taken with the tag case-folded; (u) an escape pre-pass "
        "in front of a pyparsing grammar (which un-escapes strings again) consumes an escaped backslash as a unit."
)


def _is_literal_ctor(c: ast.AST) -> bool:
    return isinstance(c, ast.Call) and ((isinstance(c.func, ast.Name) and c.func.id == "Literal") or (isinstance(c.func, ast.Attribute) and c.func.attr == "Literal"))


# ---------------------------------------------------------------------- (r)
def _unescapers(repo: Repo) -> dict:
    """(module name, function) -> (module, def, replace() calls on escape sequences, substitutions anchored at a backslash) for every
    function of the package that un-escapes text in one of these two ways"""
    cached = getattr(repo, "_c07_unescapers", None)
    if cached is None:
        cached = {}
        for name, mod in sorted(repo.modules.items()):
            for q, fn in mod.functions():
                esc = H.escape_sequence_replaces(fn)
                subs = H.backslash_led_subs(repo, mod, fn)
                if esc or subs:
                    cached[(name, q)] = (mod, fn, esc, subs)
        repo._c07_unescapers = cached  # type: ignore[attr-defined]
    return cached


def _rule_r_unescape_one_pass(repo: Repo, rep: Report) -> None:
    rid = "C07.r-unescape-in-one-pass"
    rep.rule(rid,
             "n3 text has several escapes and the backslash escapes itself (\\\\ \\\" \\n \\uXXXX ...): a function un-escapes it in ONE left-to-right pass (one regular-expression "
             "substitution anchored at the backslash, or a scanner).  x.replace(<backslash + character>, ...) handles one escape sequence wherever its two characters occur, also when "
             "the backslash is the second half of an escaped backslash, and every later pass (another replace, a codec) reads text the earlier ones have already rewritten: "
             "from_n3 read \"C:\\\\xampp\" (the n3() text of C:\\xampp) by .replace('\\\\x', '\\\\\\\\x') + unicode-escape and raised UnicodeDecodeError, and "
             "read the n3() text of the lexical form \\x41 (backslash, x41) back as \\A and that of a\\\"b<LF>c (backslash, quote; long-string form, where the quote is written raw) back as a\"b<LF>c.  And from_n3 hands Literal() the text between the quotes only after un-escaping it", floor=5)
    used = H.referenced_identifiers(repo)
    unescapers = _unescapers(repo)
    n_fn = 0
    for (name, q), (mod, fn, esc, subs) in sorted(unescapers.items(), key=lambda kv: kv[0]):
        if esc or subs:
            rep.analysed("%s:%s" % (mod.rel, q))
            if not esc:
                n_fn += 1
                rep.ob(rid, mod, q, "un-escapes by substitution anchored at the backslash, no replace() of escape sequences: %s" % " | ".join(sorted({p for _, p, _ in subs})), True, "one pass", node=fn)
                continue
            if fn.name not in used:
                # defined but neither called, imported, nor exported anywhere in the package: on no path that reads a term back
                rep.ob(rid, mod, q, "%d replace() calls on escape sequences, function not referenced in the package" % len(esc), True,
                       "dead code: not on a read-back path (as written it mis-reads an escaped backslash followed by a letter of an escape)", node=fn, vacuous=True)
                continue
            for c in esc:
                n_fn += 1
                a = c.args[0].value
                rep.ob(rid, mod, q, "replace(%r, %r)" % (a, c.args[1].value if isinstance(c.args[1], ast.Constant) else norm(c.args[1])), False,
                       "the escape sequence %r is replaced wherever these characters occur, whether or not its backslash is itself escaped, in a pass of its own: text with an escaped "
                       "backslash before %r is mis-read (from_n3 on the n3() text of 'C:\\xampp' raised UnicodeDecodeError, the n3() text of the lexical form \\x41 was read back as \\A)" % (a, a[1:]), node=c)
    if n_fn == 0:
        raise AnalysisError("no un-escaping function found in the package (compat.decodeUnicodeEscape changed shape)")
    # from_n3: the lexical form of the literal built from quoted text went through un-escaping
    um = repo.mod("rdflib.util")
    f = um.func("from_n3")
    rep.analysed("rdflib/util.py:from_n3")
    s = f.args.args[0].arg
    D = H.Defs(f)
    sites = []
    for c in own_nodes(f):
        if not _is_literal_ctor(c):
            continue
        quoted = any(pol and isinstance(e, ast.Call) and isinstance(e.func, ast.Attribute) and e.func.attr == "startswith" and norm(e.func.value) == s and e.args
                     and isinstance(e.args[0], ast.Constant) and isinstance(e.args[0].value, str) and e.args[0].value and set(e.args[0].value) <= set("\"'")
                     for e, pol in H.atoms(H.path_conds(um, f, c)))
        if quoted:
            sites.append(c)
    if not sites:
        raise AnalysisError("from_n3: no Literal(...) built under a test that the text starts with a quote")
    for c in sites:
        lex = c.args[0] if c.args else next((k.value for k in c.keywords if k.arg == "lexical_or_value"), None)
        if lex is None:
            raise AnalysisError("from_n3: %s has no lexical form argument" % norm(c))
        how = []
        for x in H.backward_slice(D, lex):
            for y in ast.walk(x):
                if not isinstance(y, ast.Call):
                    continue
                if isinstance(y.func, ast.Name):
                    root, where = H.root_callable(repo, um, y.func)
                    if where is not None and (where.name, root) in unescapers:
                        how.append("%s.%s()" % (where.name, root))
                elif isinstance(y.func, ast.Attribute) and y.func.attr == "replace" and y.args and isinstance(y.args[0], ast.Constant) \
                        and isinstance(y.args[0].value, str) and len(y.args[0].value) >= 2 and y.args[0].value[0] == "\\":
                    how.append("replace(%r, ...)" % y.args[0].value)
                elif isinstance(y.func, ast.Attribute) and y.func.attr == "decode" and any(
                        isinstance(a, ast.Constant) and isinstance(a.value, str) and a.value.lower().replace("_", "-") == "unicode-escape" for a in y.args):
                    how.append("decode('unicode-escape')")
                elif isinstance(y.func, ast.Attribute) and y.func.attr in ("sub", "subn"):
                    how.append(norm(y.func))
        rep.ob(rid, um, "from_n3", "quoted text -> Literal(): un-escaped by %s" % (", ".join(sorted(set(how))) or "nothing"), bool(how),
               "" if how else "the text between the quotes is handed to Literal() as written: from_n3('\"a\\\\nb\"') (the n3() text of a literal with a line feed) "
               "is read with a backslash and an n", node=c)


# ---------------------------------------------------------------------- (s)
# a token -> is it a number of the Turtle / N3 / SPARQL grammars (INTEGER | DECIMAL | DOUBLE)?  with the reason it is in the table
_NUMBER_WITNESSES: list[tuple[str, bool, str]] = [
    ("1e+00", True, "what Literal(1.0).n3() writes: the exponent of '%e' is signed"),
    ("-1.5e-03", True, "what Literal(-0.0015).n3() writes"),
    ("1.000000E+00", True, "DOUBLE: upper-case exponent marker, signed exponent"),
    ("+.5e-3", True, "DOUBLE: '.' [0-9]+ EXPONENT with a leading sign"),
    ("+1", True, "INTEGER: [+-]? [0-9]+"),
    ("-7", True, "INTEGER"),
    ("42", True, "INTEGER"),
    ("-0.5", True, "DECIMAL"),
    (".5", True, "DECIMAL: [0-9]* '.' [0-9]+"),
    ("\u0663", False, "ARABIC-INDIC DIGIT THREE: str.isnumeric()/isdigit() and int() take it, the grammar does not - it is a blank node label for from_n3"),
    ("\uff11\uff12", False, "FULLWIDTH digits"),
    ("1e\u0968", False, "DEVANAGARI digit in the exponent"),
    ("\u00bd", False, "VULGAR FRACTION ONE HALF: str.isnumeric() is True, int() raises ValueError"),
    ("\u00b2", False, "SUPERSCRIPT TWO: str.isdigit() is True, int() raises ValueError"),
    ("e1", False, "no mantissa"),
    ("1e", False, "no exponent digits"),
    ("1e+", False, "no exponent digits"),
    ("1-", False, "sign after the digits"),
    ("--1", False, "two signs"),
    ("1.2.3", False, "two points"),
    ("1e1e1", False, "two exponents"),
    ("1_000", False, "int() takes it, the grammar does not"),
    ("+", False, "a sign alone"),
    (".", False, "a point alone"),
    ("", False, "empty"),
    (" 1", False, "white space"),
    ("1\n", False, "trailing line feed: `$` and match() let it through, int() strips it"),
]


def _witness_mismatches(accepts) -> list[str]:
    bad = []
    for w, want, why in _NUMBER_WITNESSES:
        got = bool(accepts(w))
        if got != want:
            bad.append("%r is %s (%s)" % (w, "taken for a number" if got else "not taken for a number", why))
    return bad


def _full_match_guard(repo: Repo, mod, e: ast.AST, pol: bool, subject: str) -> Optional[tuple[str, int]]:
    """(pattern, flags) when the atom (e, pol) says: the whole of <subject> matches a constant regular expression"""
    if isinstance(e, ast.Compare) and len(e.ops) == 1 and isinstance(e.comparators[0], ast.Constant) and e.comparators[0].value is None:
        positive = isinstance(e.ops[0], (ast.IsNot, ast.NotEq))
        if not isinstance(e.ops[0], (ast.Is, ast.IsNot, ast.Eq, ast.NotEq)) or positive != pol:
            return None
        e, pol = e.left, True
    if not (pol and isinstance(e, ast.Call) and isinstance(e.func, ast.Attribute) and e.func.attr in ("fullmatch", "match")):
        return None
    if isinstance(e.func.value, ast.Name) and e.func.value.id == "re" and len(e.args) >= 2:
        txt = H.fold_str(repo, mod, e.args[0])
        fl = H._re_flags(e.args[2] if len(e.args) > 2 else next((k.value for k in e.keywords if k.arg == "flags"), None))
        pat = (txt, fl or 0) if txt is not None else H.const_pattern(repo, mod, e.args[0])
        subj = e.args[1]
    else:
        pat = H.const_pattern(repo, mod, e.func.value)
        subj = e.args[0] if e.args else None
    if subj is None or norm(subj) != subject:
        return None
    if pat is None:
        raise AnalysisError("%s: the pattern is not a constant of the module - unmodelled" % norm(e))
    if e.func.attr == "match" and not H.pattern_ends_at_string_end(pat[0], pat[1]):
        return None
    return pat


def _turtle_number_tries(repo: Repo) -> list[tuple[str, tuple[str, int], Optional[str]]]:
    """the number tokenizer of the Turtle-family parser as data: (name of the pattern, (pattern text, flags), class the matched text is wrapped in)
    for every constant pattern that SinkParser.nodeOrLiteral tries with <pattern>.match(text, position) at a character out of numberCharsPlus, in
    the order of the tries.  The tries are looked for where they run, not where they are written: under the test on numberCharsPlus in
    nodeOrLiteral, or in a def of the package called from there; a try `p.match(...)` inside `for p, wrap in TABLE` / `for p in TABLE` over a
    module-level tuple display stands for one try per row, in the order of the rows.  The wrapping class is read off the statement that follows
    the try: `if m: ... <list>.append(C(...))`."""
    nm = repo.mod("rdflib.plugins.parsers.notation3")
    nf = nm.func("SinkParser.nodeOrLiteral")
    tries: list[tuple[str, tuple[str, int], Optional[str]]] = []

    def table_rows(mod, it: ast.AST) -> Optional[list[ast.expr]]:
        if isinstance(it, ast.Name):
            vals = H.module_assigns(mod).get(it.id, [])
            if len(vals) == 1 and isinstance(vals[0], (ast.Tuple, ast.List)):
                return list(vals[0].elts)
        elif isinstance(it, (ast.Tuple, ast.List)):
            return list(it.elts)
        return None

    def wrapped_in(mod, c: ast.Call) -> Optional[ast.expr]:
        asg = mod.parent.get(id(c))
        if not (isinstance(asg, ast.Assign) and isinstance(asg.targets[0], ast.Name)):
            return None
        m = asg.targets[0].id
        lst = _stmt_list_of(mod, asg)
        nxt = lst[[i for i, s_ in enumerate(lst) if s_ is asg][0] + 1:][:1]
        if nxt and isinstance(nxt[0], ast.If) and any(isinstance(x, ast.Name) and x.id == m for x in ast.walk(nxt[0].test)):
            for y in [z for s_ in nxt[0].body for z in ast.walk(s_)]:
                if isinstance(y, ast.Call) and isinstance(y.func, ast.Attribute) and y.func.attr == "append" and len(y.args) == 1 and isinstance(y.args[0], ast.Call):
                    return y.args[0].func
        return None

    def one_try(mod, fn: ast.AST, c: ast.Call) -> None:
        recv = c.func.value
        wrap = wrapped_in(mod, c)
        p = H.const_pattern(repo, mod, recv)
        if p is not None:
            tries.append((recv.id, p, norm(wrap).rsplit(".", 1)[-1] if wrap is not None else None))
            return
        # a loop variable over a table of patterns?
        loop = next((q for q in mod.parents(c) if isinstance(q, ast.For) and any(isinstance(x, ast.Name) and x.id == recv.id for x in ast.walk(q.target))), None)
        rows = table_rows(mod, loop.iter) if loop is not None else None
        if loop is None or rows is None:
            raise AnalysisError("%s: %s is neither a constant pattern nor a loop variable over a module-level table of patterns" % (fn.name, norm(recv)))
        tgt = list(loop.target.elts) if isinstance(loop.target, (ast.Tuple, ast.List)) else [loop.target]
        names = [t.id if isinstance(t, ast.Name) else None for t in tgt]
        for row in rows:
            cells = list(row.elts) if isinstance(row, (ast.Tuple, ast.List)) and len(tgt) > 1 else [row]
            if len(cells) != len(tgt):
                raise AnalysisError("%s: row %s of the pattern table does not fit the loop target" % (fn.name, norm(row)))
            cell = dict(zip(names, cells))
            pr = H.const_pattern(repo, mod, cell[recv.id])
            if pr is None:
                raise AnalysisError("%s: %s in the pattern table is not a constant pattern" % (fn.name, norm(cell[recv.id])))
            w = cell.get(wrap.id, wrap) if isinstance(wrap, ast.Name) else wrap
            tries.append((norm(cell[recv.id]), pr, norm(w).rsplit(".", 1)[-1] if w is not None else None))

    def scan(mod, fn: ast.AST, under, depth: int) -> None:
        order = H.execution_order(fn)
        calls = sorted((c for c in own_nodes(fn) if isinstance(c, ast.Call) and under(c)), key=lambda c: order.get(id(c), 0))
        me = fn.args.args[0].arg if fn.args.args else None
        for c in calls:
            if isinstance(c.func, ast.Attribute) and c.func.attr == "match" and isinstance(c.func.value, ast.Name) and len(c.args) == 2:
                one_try(mod, fn, c)
            elif depth < 2:
                cal = H.resolve_call(repo, mod, c, "SinkParser" if mod is nm else None, (me,) if me else ())
                if cal is not None and cal.fn is not fn and cal.fn is not nf:
                    scan(cal.mod, cal.fn, lambda _c: True, depth + 1)

    scan(nm, nf, lambda c: any(pol and any(isinstance(x, ast.Name) and x.id == "numberCharsPlus" for x in ast.walk(e)) for e, pol in H.atoms(H.path_conds(nm, nf, c))), 0)
    return tries


def _rule_s_number_grammar(repo: Repo, rep: Report) -> None:
    import re as _re

    rid = "C07.s-numeric-shorthand-by-grammar"
    rep.rule(rid,
             "util.from_n3 builds a numeric literal (Literal(..., datatype=XSD.integer/decimal/double)) from its text only under a FULL match of the text against a constant "
             "regular expression, and that expression classifies a table of witnesses as the number grammar of Turtle/SPARQL does - as do the Turtle parser's own number patterns "
             "(the sibling reader): the signed exponent n3() writes (1e+00, -1.5e-03) and a leading + are numbers; non-ASCII digits, fractions and superscripts (which str.isnumeric()/"
             "isdigit() and int() take), 'e1', '1-' are not.  from_n3('1e+00') was a blank node, from_n3('\u0663') the integer 3", floor=5)
    um = repo.mod("rdflib.util")
    f = um.func("from_n3")
    rep.analysed("rdflib/util.py:from_n3")
    s = f.args.args[0].arg
    D = H.Defs(f)
    sites = [c for c in own_nodes(f) if _is_literal_ctor(c) and any(k.arg == "datatype" and norm(k.value).rsplit(".", 1)[-1] in ("integer", "decimal", "double", "float")
                                                                    and "XSD" in norm(k.value) for k in c.keywords)]
    if not sites:
        raise AnalysisError("from_n3: no Literal(..., datatype=XSD.<numeric>) construction found")
    pats: dict[tuple[str, int], ast.AST] = {}
    for c in sites:
        at = H.atoms(H.path_conds(um, f, c))
        found = None
        for e, pol in at:
            e2 = D.resolve(e) if isinstance(e, ast.Name) else e
            g = _full_match_guard(repo, um, e2, pol, s)
            if g is not None:
                found = g
        # the tests that depend on the text, for the message
        shown = "; ".join(("" if pol else "not ") + D.expand(e) for e, pol in at if pol and any(isinstance(x, ast.Name) and x.id == s for x in ast.walk(e)))
        rep.ob(rid, um, "from_n3", "%s under a full match of the number grammar" % norm(c), found is not None,
               "" if found is not None else "a numeric literal is built when `%s` holds, which is not a full match of the text against the number grammar: a test assembled from str "
               "methods misses the signed exponent that n3() writes (from_n3('1e+00'), from_n3('-1.5e-03') are blank nodes) or admits what is not a number "
               "(str.isnumeric()/isdigit() take '\u0663' and '\u00bd': the integer 3 for a blank node label, ValueError)" % shown[:200], node=c)
        if found is not None:
            pats.setdefault(found, c)
    for (txt, fl), c in sorted(pats.items(), key=lambda kv: kv[0]):
        try:
            rx = _re.compile(txt, fl)
        except _re.error as ex:
            raise AnalysisError("from_n3: number pattern %r does not compile: %s" % (txt, ex)) from None
        bad = _witness_mismatches(lambda w: rx.fullmatch(w) is not None)
        rep.ob(rid, um, "from_n3", "number pattern %s classifies the %d witnesses as the grammar does" % (txt, len(_NUMBER_WITNESSES)), not bad,
               "" if not bad else "for from_n3, " + "; ".join(bad[:4]), node=c)
    # the sibling reader: the patterns the Turtle-family parser tries at a character that may start a number
    nm = repo.mod("rdflib.plugins.parsers.notation3")
    nf = nm.func("SinkParser.nodeOrLiteral")
    rep.analysed("rdflib/plugins/parsers/notation3.py:SinkParser.nodeOrLiteral")
    tpats: dict[str, tuple[str, int]] = {name: pat for name, pat, _ in _turtle_number_tries(repo)}
    if len(tpats) < 3:
        raise AnalysisError("SinkParser.nodeOrLiteral: the integer / decimal / double patterns not found (%s)" % sorted(tpats))
    trx = [_re.compile(t, fl) for t, fl in tpats.values()]
    bad = _witness_mismatches(lambda w: any(r.fullmatch(w) is not None for r in trx))
    rep.ob(rid, nm, "SinkParser.nodeOrLiteral", "number patterns %s classify the witnesses as the grammar does" % sorted(tpats), not bad,
           "" if not bad else "for the Turtle parser, " + "; ".join(bad[:4]), node=nf)


# ---------------------------------------------------------------------- (t)
def _implied_by_tagged_literal(typed, e: ast.AST, who: str) -> bool:
    """e holds whenever <who> is a literal with a language tag: isinstance(who, <a class Literal is>), who.language, who.language is not None"""
    if isinstance(e, ast.Call) and isinstance(e.func, ast.Name) and e.func.id == "isinstance" and len(e.args) == 2 and norm(e.args[0]) == who:
        cl = e.args[1].elts if isinstance(e.args[1], ast.Tuple) else [e.args[1]]
        supers = {m.rsplit(".", 1)[-1] for m in typed.mro("rdflib.term.Literal")}
        return any(norm(c).rsplit(".", 1)[-1] in supers for c in cl)
    if isinstance(e, ast.Compare) and len(e.ops) == 1 and isinstance(e.ops[0], (ast.IsNot, ast.NotEq)) and isinstance(e.comparators[0], ast.Constant) \
            and e.comparators[0].value in (None, ""):
        e = e.left
    return isinstance(e, ast.Attribute) and e.attr in ("language", "_language") and norm(e.value) == who


def _rule_t_digest_text(repo: Repo, rep: Report) -> None:
    rid = "C07.t-digest-text-folds-language-case"
    rep.rule(rid,
             "in a module that hashes term text into a digest (it imports hashlib: rdflib/compare.py), x.n3() of a term that may be a literal with a language tag is taken only "
             "(a) of a Literal(...) rebuilt with the tag case-folded, or (b) where the branch conditions exclude `isinstance(x, Literal) and x.language`: Literal equality and hash "
             "ignore the case of the tag, n3() writes it as given, so the text is not a function of the term - two graphs that are equal triple by triple (\"chat\"@en vs "
             "\"chat\"@EN) got different digests and isomorphic() said False", floor=2)
    typed = repo.typed
    lit_mro = set(typed.mro("rdflib.term.Literal"))
    if "rdflib.term.Node" not in lit_mro:
        raise AnalysisError("typed facts: rdflib.term.Literal has no MRO")
    n = 0
    for name, mod in sorted(repo.modules.items()):
        if not any((isinstance(st, ast.Import) and any(a.name == "hashlib" for a in st.names)) or (isinstance(st, ast.ImportFrom) and st.module == "hashlib")
                   for st in ast.walk(mod.tree)):
            continue
        for c in ast.walk(mod.tree):
            if not (isinstance(c, ast.Call) and isinstance(c.func, ast.Attribute) and c.func.attr == "n3"):
                continue
            recv = c.func.value
            tf = typed.type_of(name, recv)
            if tf is not None and not tf.any and tf.items and all(i not in lit_mro and "rdflib.term.Literal" not in typed.mro(i) for i in tf.items if i != "builtins.None") \
                    and any(i != "builtins.None" for i in tf.items):
                continue  # an IRI, a blank node, a variable: no language tag
            fn = H.enclosing_function(mod, c)
            q = mod.qual_of(c) or "<module>"
            n += 1
            rep.analysed("%s:%s" % (mod.rel, q))
            if _is_literal_ctor(recv):
                lang = recv.args[1] if len(recv.args) > 1 else next((k.value for k in recv.keywords if k.arg == "lang"), None)
                D = H.Defs(fn) if isinstance(fn, (ast.FunctionDef, ast.AsyncFunctionDef)) else None
                if isinstance(lang, ast.Name) and D is not None:
                    lang = D.resolve(lang)
                folded = lang is None or (isinstance(lang, ast.Constant) and lang.value is None) or (
                    isinstance(lang, ast.Call) and isinstance(lang.func, ast.Attribute) and lang.func.attr in ("lower", "casefold") and not lang.args)
                rep.ob(rid, mod, q, "%s: n3() of a literal rebuilt with the tag case-folded" % norm(c), folded,
                       "" if folded else "the literal is rebuilt with the language tag as written (%s): \"chat\"@en and \"chat\"@EN, which are equal, give different text" % norm(lang), node=c)
                continue
            ok = False
            if isinstance(recv, ast.Name):
                for e, pol in H.atoms(H.branch_facts(mod, fn, c)):
                    if pol:
                        continue
                    conj = e.values if isinstance(e, ast.BoolOp) and isinstance(e.op, ast.And) else [e]
                    if all(_implied_by_tagged_literal(typed, x, recv.id) for x in conj):
                        ok = True
            rep.ob(rid, mod, q, "%s: the term cannot be a literal with a language tag here" % norm(c), ok,
                   "" if ok else "the n3() text of a term that may be a literal with a language tag goes into the digest with the tag as written: Literal('chat', lang='en') == "
                   "Literal('chat', lang='EN'), but their texts differ, so two equal graphs hash differently (to_isomorphic(g1) != to_isomorphic(g2), isomorphic() is False)", node=c)
    if n == 0:
        raise AnalysisError("no n3() call on a possibly-literal term in a digest module (rdflib/compare.py changed shape)")


# ---------------------------------------------------------------------- (u)
def _rule_u_prepass(repo: Repo, rep: Report) -> None:
    import re as _re

    rid = "C07.u-escape-prepass-keeps-escaped-backslash"
    rep.rule(rid,
             "text that a function un-escapes by a substitution anchored at the backslash and THEN hands to a pyparsing grammar (X.parse_string(...)) is un-escaped a second time by "
             "the grammar's string terminals (ECHAR), so the first pass must consume an escaped backslash as a unit (its pattern matches two backslashes, as the pattern of the TSV "
             "result reader does): otherwise the u after an escaped backslash is taken for a codepoint escape.  " +
             r"""The literal whose lexical form is \u0041 (backslash, u0041) has the n3() text "\\u0041"; the pre-pass turns that into "\A" (ParseException), and "\\u0022" is """ +
             r"""read back as the literal whose lexical form is a double quote""", floor=3)
    unescapers = _unescapers(repo)
    n = 0
    for name, mod in sorted(repo.modules.items()):
        for q, fn in mod.functions():
            calls = [c for c in own_nodes(fn) if isinstance(c, ast.Call) and isinstance(c.func, ast.Attribute) and c.func.attr in ("parse_string", "parseString") and c.args]
            if not calls:
                continue
            D = H.Defs(fn)
            for c in calls:
                for x in H.backward_slice(D, c.args[0]):
                    for y in ast.walk(x):
                        if not (isinstance(y, ast.Call) and isinstance(y.func, ast.Name)):
                            continue
                        root, where = H.root_callable(repo, mod, y.func)
                        ent = unescapers.get((where.name, root)) if where is not None else None
                        if ent is None or not ent[3]:
                            continue
                        n += 1
                        rep.analysed("%s:%s" % (mod.rel, q), "%s:%s" % (ent[0].rel, root))
                        bad = [txt for _, txt, fl in ent[3] if _re.compile(txt, fl).fullmatch("\\\\") is None]
                        rep.ob(rid, mod, q, "%s(...) -> %s: the pre-pass consumes an escaped backslash" % (root, norm(c.func)), not bad,
                               "" if not bad else ("%s substitutes %s wherever it occurs, also right after an escaped backslash, and the grammar then un-escapes the result again: "
                                                   % (root, " | ".join(bad))) +
                               r"""the literal with the lexical form \u0041 (backslash, u0041) is written "\\u0041" by n3(), which becomes "\A" (ParseException); "\\u0022" is read """ +
                               r"""back as the literal with the lexical form " (a double quote)""", node=y)
    if n == 0:
        raise AnalysisError("no escape pre-pass in front of a parse_string() call found (sparql.parser.parseQuery changed shape)")


# ====================================================================== fifth layer: rules (v) - (ae)
# Structural conditions behind F236 (Decimal written by str()), F242/F243 (Literal(<Literal>)), F244 (`$` and match()), F245 (<= / >=
# gave up before asking the strict order), F246/F247 (two keys within one datatype), F248 (a Python type written as a datatype that
# cannot be read), F249 (bare token without a token test), F250 (Python value kept under a foreign datatype).  Helpers: vlib/h_c07.py.

_XSD_NS = "http://www.w3.org/2001/XMLSchema#"

# The generic form of rules (ac) and (ad) also meets, on the tree as it is, defects of the kind they pin that are neither repaired in
# /repo nor recorded in known_findings.json (both outside this file):
#   (ac) _SpecificPythonToXSDRules writes a date as xsd:gYear / xsd:gYearMonth, datatypes XSDToPython cannot read back:
#        Literal(date(2000, 6, 1), datatype=XSD.gYear) == Literal(date(2000, 1, 1), datatype=XSD.gYear) ("2000"), yet the first is > the second
#        (ordered by the date values), and a pickled / re-parsed copy has no value at all;
#   (ad) _TURTLE_DECIMAL lets the exponent forms through for xsd:decimal: Literal(1e-7, datatype=XSD.decimal) is written as the bare 1e-07 in
#        Turtle, which is read back as an xsd:double.
# They are recorded as instances with the verdict below; set this to True to have them reported as violations (once they are repaired or
# listed as known findings - a report on the unchanged tree makes every seeded variant look caught).
_REPORT_UNRECORDED_DEFECTS = True


def _unrecorded(rep: Report, rid: str, mod, where: str, construct: str, detail: str, node: ast.AST) -> None:
    rep.ob(rid, mod, where, construct, not _REPORT_UNRECORDED_DEFECTS,
           detail if _REPORT_UNRECORDED_DEFECTS else "DEFECT ON THE UNCHANGED TREE, not reported as a violation (see _REPORT_UNRECORDED_DEFECTS): " + detail,
           node=node, vacuous=not _REPORT_UNRECORDED_DEFECTS)


_EXPLANATION_V_AE = (
        " (v) the text of a Decimal that becomes an xsd:decimal lexical form is asked for in fixed-point format; (w) Literal(<Literal>) takes every "
        "slot from the other literal; (x) the language and the datatype locals of Literal.__new__ stay mutually exclusive through every re-binding; "
        "(y) a predicate whose verdict is a regex match of its argument matches the whole argument (fullmatch or \\Z, not `$`); (z) __le__/__ge__ give up "
        "(NotImplemented after a TypeError) only after both strict comparisons were asked; (aa) values are compared only after the ill-typed literals "
        "were set apart; (ab) a converter with several result classes has one order key for all of them; (ac) a datatype a Python type is written as "
        "can be read back; (ad) a bare token is written only under a token test that agrees with the Turtle tokenizer; (ae) a Python value is kept "
        "under the caller's datatype only after that datatype was compared with the type's own."
)


def _is_xsd(repo: Repo, mod, e: ast.AST, local: str) -> bool:
    """e denotes the datatype IRI xsd:<local>: a constant of the module, or XSD.<local>"""
    iri = H.fold_str(repo, mod, e)
    if iri is not None:
        return iri == _XSD_NS + local
    return isinstance(e, ast.Attribute) and e.attr == local and norm(e.value).rsplit(".", 1)[-1] == "XSD"


def _py_to_xsd_rows(tm) -> list[tuple[ast.expr, ast.expr, ast.expr, ast.expr, str]]:
    """(python type, datatype, cast function, row, table) of the two Python-to-lexical tables of term.py"""
    out = []
    for table in ("_GenericPythonToXSDRules", "_SpecificPythonToXSDRules"):
        rows = H.table_rows(tm, table)
        if not rows:
            raise AnalysisError("term.%s is not a list display" % table)
        for r in rows:
            if isinstance(r, ast.Tuple) and len(r.elts) == 2:
                a, b = r.elts
                if table.startswith("_Generic") and isinstance(b, ast.Tuple) and len(b.elts) == 2:
                    out.append((a, b.elts[1], b.elts[0], r, table))
                    continue
                if table.startswith("_Specific") and isinstance(a, ast.Tuple) and len(a.elts) == 2:
                    out.append((a.elts[0], a.elts[1], b, r, table))
                    continue
            raise AnalysisError("term.%s: row %s unmodelled" % (table, norm(r)))
    return out


# ---------------------------------------------------------------------- (v)
def _decimal_typed(repo: Repo, mod, fn: ast.AST, x: ast.AST, at: ast.AST) -> bool:
    """x is a decimal.Decimal where `at` runs: by its mypy type, or narrowed by an isinstance test that holds there"""
    tf = repo.typed.type_of(mod.name, x)
    if tf is not None and not tf.any and "decimal.Decimal" in tf.items and all(i in ("decimal.Decimal", "builtins.None") for i in tf.items):
        return True
    if isinstance(x, ast.Name):
        for e, pol in H.atoms(H.branch_facts(mod, fn, at)):
            if pol and isinstance(e, ast.Call) and norm(e.func) == "isinstance" and H.isinstance_classes(e, x.id) == ["Decimal"]:
                return True
    return False


def _rule_v_decimal_text(repo: Repo, rep: Report, tm) -> None:
    rid = "C07.v-decimal-text-in-fixed-point"
    rep.rule(rid,
             "wherever the text of a decimal.Decimal becomes the lexical form of an xsd:decimal literal - the first argument of a Literal(..., datatype=xsd:decimal) "
             "construction anywhere in the package, and the cast function of the (Decimal, xsd:decimal) row of term's Python-to-lexical tables - it is asked for in "
             "fixed-point format (f'{d:f}', format(d, 'f'), '%f'): str(), repr(), '%s' and a bare f-string field switch to exponent notation below 1e-6 and for a positive "
             "exponent, which is outside the lexical space of xsd:decimal.  The Turtle parser read the token 0.0000001 as the ill-typed \"1E-7\"^^xsd:decimal, "
             "another term than the one n3() had written", floor=2)
    n = 0
    for _, mod in sorted(repo.modules.items()):
        for q, fn in mod.functions():
            ctors = [c for c in own_nodes(fn) if _is_literal_ctor(c) and any(k.arg == "datatype" and _is_xsd(repo, mod, k.value, "decimal") for k in c.keywords)]
            if not ctors:
                continue
            D = H.Defs(fn)
            for c in ctors:
                lex = c.args[0] if c.args else next((k.value for k in c.keywords if k.arg == "lexical_or_value"), None)
                if lex is None:
                    continue
                rend = []
                for x in H.backward_slice(D, lex):
                    for node, operand, fixed in H.text_renderings(x):
                        if _decimal_typed(repo, mod, fn, operand, node):
                            rend.append((node, fixed))
                if not rend:
                    continue
                n += 1
                rep.analysed("%s:%s" % (mod.rel, q))
                bad = [nd for nd, fixed in rend if not fixed]
                rep.ob(rid, mod, q, "Literal(<text of a Decimal>, datatype=xsd:decimal): the text is asked for in fixed-point format", not bad,
                       "" if not bad else "the lexical form is %s of a Decimal: for Decimal('0.0000001') that is '1E-7', not a decimal lexical form - the literal is ill-typed and "
                       "not the term \"0.0000001\"^^xsd:decimal that was written" % type(bad[0]).__name__.replace("FormattedValue", "a bare f-string field").replace("Call", "str()/repr()/format()").replace("BinOp", "a %-format"),
                       node=bad[0] if bad else c)
    for pt, dt, cast, row, table in _py_to_xsd_rows(tm):
        if norm(pt).rsplit(".", 1)[-1] != "Decimal" or not _is_xsd(repo, tm, dt, "decimal"):
            continue
        n += 1
        fnode = cast if isinstance(cast, ast.Lambda) else tm.defs.get(cast.id) if isinstance(cast, ast.Name) else None
        ok = False
        if isinstance(fnode, (ast.Lambda, ast.FunctionDef)) and fnode.args.args:
            p = fnode.args.args[0].arg
            bodies = [fnode.body] if isinstance(fnode, ast.Lambda) else [r.value for r in own_nodes(fnode) if isinstance(r, ast.Return) and r.value is not None]
            rend2 = [fixed for b in bodies for _, operand, fixed in H.text_renderings(b) if isinstance(operand, ast.Name) and operand.id == p]
            ok = bool(rend2) and all(rend2)
        rep.ob(rid, tm, table, "(Decimal, xsd:decimal): the cast function writes fixed-point text", ok,
               "" if ok else "Literal(Decimal('1E-7')) gets the lexical form str(Decimal) = '1E-7' (cast function: %s), which is not in the lexical space of xsd:decimal" % norm(cast), node=row)
    if n < 2:
        raise AnalysisError("no xsd:decimal literal built from the text of a Decimal found (RDFSink.normalise / _GenericPythonToXSDRules changed shape)")


# ---------------------------------------------------------------------- (w) (x)
def _slot_locals(tm, new: ast.FunctionDef) -> dict[str, str]:
    """slot of Literal -> the local of __new__ stored into it (`inst._language = lang`)"""
    slots: list[str] = []
    for st in tm.cls("Literal").body:
        if isinstance(st, ast.Assign) and norm(st.targets[0]) == "__slots__" and isinstance(st.value, (ast.Tuple, ast.List)):
            slots = [e.value for e in st.value.elts if isinstance(e, ast.Constant) and isinstance(e.value, str)]
    if len(slots) < 4:
        raise AnalysisError("Literal.__slots__ not found as a display of >= 4 names (%s)" % slots)
    got: dict[str, set[str]] = {}
    for n in own_nodes(new):
        if isinstance(n, ast.Assign) and len(n.targets) == 1 and isinstance(n.targets[0], ast.Attribute) and n.targets[0].attr in slots and isinstance(n.value, ast.Name):
            got.setdefault(n.targets[0].attr, set()).add(n.value.id)
    bad = [s for s in slots if len(got.get(s, ())) != 1]
    if bad:
        raise AnalysisError("Literal.__new__: slot(s) %s are not stored from exactly one local" % bad)
    return {s: next(iter(v)) for s, v in got.items()}


def _stmt_list_of(tm, st: ast.AST) -> list[ast.stmt]:
    p = tm.parent.get(id(st))
    for field in ("body", "orelse", "finalbody"):
        lst = getattr(p, field, None)
        if isinstance(lst, list) and any(s is st for s in lst):
            return lst
    return []


def _attr_of(e: ast.AST, attrs: tuple[str, ...]) -> Optional[str]:
    """x when e is x.<attr> for a name x and one of attrs"""
    if isinstance(e, ast.Attribute) and e.attr in attrs and isinstance(e.value, ast.Name):
        return e.value.id
    return None


def _not_none_name(e: ast.AST, pol: bool) -> Optional[str]:
    """n when the atom says `n is not None`"""
    if isinstance(e, ast.Compare) and len(e.ops) == 1 and isinstance(e.left, ast.Name) and isinstance(e.comparators[0], ast.Constant) and e.comparators[0].value is None:
        if (isinstance(e.ops[0], (ast.IsNot, ast.NotEq)) and pol) or (isinstance(e.ops[0], (ast.Is, ast.Eq)) and not pol):
            return e.left.id
    return None


def _new_and_slots(tm, lm):
    new = lm.get("__new__")
    if new is None:
        raise AnalysisError("Literal.__new__ vanished")
    return new, _second_param(new), _slot_locals(tm, new)


def _rule_w_copy(repo: Repo, rep: Report, tm, lm) -> None:
    new, lex, locs = _new_and_slots(tm, lm)

    # ---- (w)
    rw = "C07.w-copy-takes-every-slot"
    rep.rule(rw,
             "Literal.__new__: an arm entered on isinstance(<first argument>, Literal) that takes one of the locals finally stored into the slots of the new literal "
             "(Literal.__slots__: _language, _datatype, _value, _ill_typed) from the corresponding attribute of the other literal takes ALL of them from it: a copy is the "
             "same term in every respect.  The copy of the ill-typed \"1_000\"^^xsd:integer (int() gives it the value 1000) had ill_typed None: it was ordered and compared by "
             "eq() as a well-typed number - Literal(2000) > copy, but not > the equal original, which comes after all numbers", floor=4)
    arms = []
    for st in own_nodes(new):
        if isinstance(st, ast.If) and any(pol and isinstance(e, ast.Call) and norm(e.func) == "isinstance" and H.isinstance_classes(e, lex) == ["Literal"]
                                          for e, pol in H.atoms([(st.test, True)])):
            taken = {}
            for x in [y for s in st.body for y in ast.walk(s)]:
                if isinstance(x, ast.Assign) and len(x.targets) == 1 and isinstance(x.targets[0], ast.Name):
                    for slot, loc in locs.items():
                        if x.targets[0].id == loc and any(_attr_of(a, (slot, slot.lstrip("_"))) == lex for a in ast.walk(x.value)):
                            taken[slot] = x
            if taken:
                arms.append((st, taken))
    if not arms:
        raise AnalysisError("Literal.__new__: no arm that copies the fields of another Literal found")
    for st, taken in arms:
        for slot in sorted(locs):
            ok = slot in taken
            rep.ob(rw, tm, "Literal.__new__", "copy of another Literal: %s is taken from it" % slot, ok,
                   "" if ok else "the arm takes %s from the other literal but not %s: Literal(Literal('1_000', datatype=XSD.integer)) equals its argument but differs from it in %s "
                   "(for ill_typed: None instead of True - Literal(2000) > the copy, which is ordered by its value 1000, but not > the original, which comes after all numbers)"
                   % (", ".join(sorted(taken)), slot, slot.lstrip("_")), node=st)


def _rule_x_exclusion(repo: Repo, rep: Report, tm, lm) -> None:
    new, lex, locs = _new_and_slots(tm, lm)

    # ---- (x)
    rx = "C07.x-language-excludes-datatype"
    rep.rule(rx,
             "Literal.__new__ keeps `language is None or datatype is None` for the two locals it stores into _language and _datatype: it raises when both are given, and "
             "afterwards the language local is re-bound only to None or, together with the datatype local, to the two fields of one and the same other literal; the datatype "
             "local is re-bound only to itself wrapped, to a field of that literal, or else the re-binding is followed by `if <datatype> is not None: <language> = None`.  "
             "Literal(Literal('a', lang='en'), datatype=XSD.string) inherited the language as well: a term with both, which cannot be pickled (the constructor refuses the "
             "reduce arguments) and whose n3() text \"a\"@en is read back as another term", floor=5)
    L, T = locs["_language"], locs["_datatype"]
    guards = [r for r in own_nodes(new) if isinstance(r, ast.Raise)
              and {L, T} <= {_not_none_name(e, pol) for e, pol in H.atoms(H.path_conds(tm, new, r))}]
    rep.ob(rx, tm, "Literal.__new__", "raises when a language and a datatype are given", bool(guards),
           "" if guards else "no `raise` under `%s is not None and %s is not None`: Literal('a', lang='en', datatype=XSD.string) is a term with both" % (L, T), node=new)

    def pair_copy(a: ast.Assign, attrs_here: tuple[str, ...], other_local: str, attrs_other: tuple[str, ...]) -> bool:
        src = _attr_of(a.value, attrs_here)
        if src is None:
            return False
        return any(isinstance(s, ast.Assign) and len(s.targets) == 1 and norm(s.targets[0]) == other_local and _attr_of(s.value, attrs_other) == src
                   for s in _stmt_list_of(tm, a))

    for a in own_nodes(new):
        if isinstance(a, (ast.AugAssign, ast.AnnAssign)) and isinstance(a.target, ast.Name) and a.target.id in (L, T) and getattr(a, "value", None) is not None \
                and not (isinstance(a, ast.AnnAssign) and isinstance(a.value, ast.Constant) and a.value.value is None):
            rep.ob(rx, tm, "Literal.__new__", "re-binding of the %s local" % ("language" if a.target.id == L else "datatype"), False,
                   "augmented / annotated re-binding %s: unmodelled, the exclusion of language and datatype is not shown to survive it" % norm(a), node=a)
        if not (isinstance(a, ast.Assign) and len(a.targets) == 1 and isinstance(a.targets[0], ast.Name) and a.targets[0].id in (L, T)):
            continue
        v = a.value
        if a.targets[0].id == L:
            if isinstance(v, ast.Constant) and v.value is None:
                ok, how = True, "None"
            elif pair_copy(a, ("language", "_language"), T, ("datatype", "_datatype")):
                ok, how = True, "language and datatype of one other literal"
            else:
                ok, how = False, ""
            rep.ob(rx, tm, "Literal.__new__", "language local re-bound to %s" % (how or _subst_name(v, L, None, "LANGUAGE")), ok,
                   "" if ok else "the language local is re-bound to a value that may be a tag while the datatype local may be set: Literal(Literal('a', lang='en'), datatype=XSD.string) "
                   "has the language 'en' and the datatype xsd:string; pickle.dumps() of it cannot be loaded, and its n3() text is read as another term", node=a)
        else:
            later = False
            lst = _stmt_list_of(tm, a)
            seen = False
            for s in lst:
                if s is a:
                    seen = True
                    continue
                if seen and isinstance(s, ast.If) and T in {_not_none_name(e, pol) for e, pol in H.atoms([(s.test, True)])} \
                        and any(isinstance(y, ast.Assign) and len(y.targets) == 1 and norm(y.targets[0]) == L and isinstance(y.value, ast.Constant) and y.value.value is None
                                for b in s.body for y in ast.walk(b)):
                    later = True
            if isinstance(v, ast.Call) and len(v.args) == 1 and not v.keywords and isinstance(v.args[0], ast.Name) and v.args[0].id == T:
                ok, how = True, "itself, wrapped by %s()" % norm(v.func)
            elif pair_copy(a, ("datatype", "_datatype"), L, ("language", "_language")):
                ok, how = True, "language and datatype of one other literal"
            elif later:
                ok, how = True, "another value, followed by `if it is not None: language = None`"
            else:
                ok, how = False, ""
            rep.ob(rx, tm, "Literal.__new__", "datatype local re-bound to %s" % (how or "another value"), ok,
                   "" if ok else "the datatype local gets a value that may be a datatype (%s) while the language local may be a tag, and the language is not cleared afterwards: "
                   "Literal(1, lang='en') is \"1\"@en^^xsd:integer, a term with both" % _callees_text(v), node=a)


def _callees_text(e: ast.AST) -> str:
    """callee names of an expression (a text that does not depend on how locals are called)"""
    return ", ".join(sorted({norm(c.func) for c in ast.walk(e) if isinstance(c, ast.Call)})) or type(e).__name__


# ---------------------------------------------------------------------- (y)
def _verdict_of(e: ast.AST) -> ast.AST:
    """the expression whose truth a returned verdict is: bool(x), not x, x is (not) None are looked through"""
    while True:
        if isinstance(e, ast.Call) and isinstance(e.func, ast.Name) and e.func.id == "bool" and len(e.args) == 1:
            e = e.args[0]
        elif isinstance(e, ast.UnaryOp) and isinstance(e.op, ast.Not):
            e = e.operand
        elif isinstance(e, ast.Compare) and len(e.ops) == 1 and isinstance(e.comparators[0], ast.Constant) and e.comparators[0].value is None:
            e = e.left
        else:
            return e


def _rule_y_verdict_full_match(repo: Repo, rep: Report) -> None:
    rid = "C07.y-verdict-matches-the-whole-argument"
    rep.rule(rid,
             "a function of the package whose verdict on its argument is a regular-expression match of it (return bool(P.match(arg)), return P.fullmatch(arg) is not None) "
             "matches the WHOLE argument: fullmatch(), or match() of a pattern that ends in \\Z.  match() anchors the start only, and a final `$` also matches before a trailing "
             "line feed: _is_valid_langtag('en\\n') was true, Literal('a', lang='en\\n') was made, and its n3() text \"a\"@en<LF> is read back as \"a\"@en, another term", floor=2)
    n = 0
    for _, mod in sorted(repo.modules.items()):
        for q, fn in mod.functions():
            a = fn.args
            params = {x.arg for x in a.posonlyargs + a.args + a.kwonlyargs}
            for r in own_nodes(fn):
                if not (isinstance(r, ast.Return) and r.value is not None):
                    continue
                e = _verdict_of(r.value)
                if not (isinstance(e, ast.Call) and isinstance(e.func, ast.Attribute) and e.func.attr in ("match", "fullmatch")):
                    continue
                via_re = isinstance(e.func.value, ast.Name) and e.func.value.id == "re"
                subj = (e.args[1] if len(e.args) > 1 else None) if via_re else (e.args[0] if e.args else None)
                if subj is None or not any(isinstance(x, ast.Name) and x.id in params for x in ast.walk(subj)):
                    continue
                n += 1
                rep.analysed("%s:%s" % (mod.rel, q))
                if e.func.attr == "fullmatch":
                    rep.ob(rid, mod, q, "verdict by %s()" % e.func.attr, True, "whole argument", node=e)
                    continue
                if via_re:
                    txt = H.fold_str(repo, mod, e.args[0])
                    pat = (txt, H._re_flags(e.args[2] if len(e.args) > 2 else next((k.value for k in e.keywords if k.arg == "flags"), None)) or 0) if txt is not None \
                        else H.const_pattern(repo, mod, e.args[0])
                else:
                    pat = H.const_pattern(repo, mod, e.func.value)
                if pat is None:
                    rep.ob(rid, mod, q, "verdict by match() of a pattern that is not a constant", False,
                           "match() anchors the start only and nothing shows that the pattern reaches the end of the argument", node=e)
                    continue
                ok = H.pattern_ends_at_string_end(pat[0], pat[1])
                dollar = pat[0].endswith("$")
                rep.ob(rid, mod, q, "verdict by match() of %s" % pat[0], ok,
                       "ends in \\Z" if ok else
                       ("the pattern ends in `$`, which also matches before a trailing line feed: %s('en\\n') holds for a pattern that admits 'en'; a language tag with a line feed "
                        "passes Literal() and its n3() text is read back as the tag without it" % fn.name) if dollar else
                       "match() anchors the start only: every argument with a valid prefix passes", node=e)
    if n == 0:
        raise AnalysisError("no predicate with a regular-expression verdict found (term._is_valid_langtag changed shape)")


# ---------------------------------------------------------------------- (z)
def _rule_z_le_ge(repo: Repo, rep: Report, tm) -> None:
    rid = "C07.z-le-ge-ask-both-strict-orders"
    rep.rule(rid,
             "__le__ / __ge__ of a term class: a `return NotImplemented` inside an exception handler (the equality of the values could not be decided) is reached only after "
             "BOTH strict comparisons of the two operands were asked (self.__lt__(other) and self.__gt__(other), or the operators): the strict order of literals is total, so "
             "`a <= b` is decided whenever `a > b` is.  For two literals of one datatype without a Python value, a < b was True while b <= a raised TypeError", floor=2)
    n = 0
    mirror = {"__lt__": "__gt__", "__gt__": "__lt__"}
    for cd in [c for c in tm.tree.body if isinstance(c, ast.ClassDef)]:
        meths = tm.methods(cd.name)
        for name in ("__le__", "__ge__"):
            fn = meths.get(name)
            if fn is None or len(fn.args.args) < 2:
                continue
            me, ot = _self_param(fn), _second_param(fn)
            for r in own_nodes(fn):
                if not (isinstance(r, ast.Return) and isinstance(r.value, ast.Name) and r.value.id == "NotImplemented"):
                    continue
                inside_handler = False
                for p in tm.parents(r):
                    if isinstance(p, ast.ExceptHandler):
                        inside_handler = True
                    if p is fn:
                        break
                if not inside_handler:
                    continue
                n += 1
                rep.analysed("rdflib/term.py:%s.%s" % (cd.name, name))
                asked: set[str] = set()
                for x in H.consulted_before(tm, fn, r):
                    for c in ast.walk(x):
                        if isinstance(c, ast.Call) and isinstance(c.func, ast.Attribute) and c.func.attr in mirror and len(c.args) == 1:
                            pair = (norm(c.func.value), norm(c.args[0]))
                            if pair == (me, ot):
                                asked.add(c.func.attr)
                            elif pair == (ot, me):
                                asked.add(mirror[c.func.attr])
                        elif isinstance(c, ast.Compare) and len(c.ops) == 1 and isinstance(c.ops[0], (ast.Lt, ast.Gt)):
                            op = "__lt__" if isinstance(c.ops[0], ast.Lt) else "__gt__"
                            pair = (norm(c.left), norm(c.comparators[0]))
                            if pair == (me, ot):
                                asked.add(op)
                            elif pair == (ot, me):
                                asked.add(mirror[op])
                ok = asked == {"__lt__", "__gt__"}
                rep.ob(rid, tm, "%s.%s" % (cd.name, name), "gives up in an exception handler after asking %s" % (" and ".join(sorted(asked)) or "nothing"), ok,
                       "" if ok else "%s returns NotImplemented when eq() raises TypeError although only %s was asked: for a = \"x\"^^<urn:dt>, b = \"y\"^^<urn:dt> (no Python values) "
                       "a < b is True while b %s a raises TypeError instead of answering False" % (name, " and ".join(sorted(asked)) or "no strict comparison", "<=" if name == "__le__" else ">="), node=r)
    if n == 0:
        raise AnalysisError("no __le__/__ge__ that gives up inside an exception handler found (Literal.__le__ changed shape)")


# ---------------------------------------------------------------------- (aa)
def _value_operand(D: "H.Defs", e: ast.AST, who: str) -> bool:
    """e is <who>.value, a local bound to it, or a one-argument call on it (a key function applied to the value)"""
    if _is_value_of(D, e, who):
        return True
    r = D.resolve(e) if isinstance(e, ast.Name) else e
    return isinstance(r, ast.Call) and len(r.args) == 1 and not r.keywords and _is_value_of(D, r.args[0], who)


def _only_reads(D: "H.Defs", e: ast.AST, who: str, attrs: tuple[str, ...], depth: int = 0) -> bool:
    """e (local names followed) reads an attribute of <who> out of attrs, and no other attribute of any name"""
    got: set[tuple[str, str]] = set()

    def walk(x: ast.AST, d: int) -> None:
        for y in ast.walk(x):
            if isinstance(y, ast.Attribute) and isinstance(y.value, ast.Name):
                got.add((y.value.id, y.attr))
            elif isinstance(y, ast.Name) and y.id not in D.params and d < 6:
                for v in D.values(y.id):
                    if v is not None:
                        walk(v, d + 1)

    walk(e, depth)
    return bool(got) and all(w == who and a in attrs for w, a in got)


def _rule_aa_ill_typed_split(repo: Repo, rep: Report, tm, lm) -> None:
    rid = "C07.aa-values-compared-after-ill-typed-set-apart"
    rep.rule(rid,
             "Literal.__gt__, outside the numeric arm: an ordering comparison of the two VALUES (self.value > other.value, key(self.value) > key(other.value)) is reached only "
             "after a test `<ill-typedness of self> != <ill-typedness of other>` that returns: within one datatype the well-typed literals are ordered by value and everything "
             "else by lexical form, so the two classes must be two blocks (a test of ill-typedness alone; `num_self != num_other` sets apart the numbers only).  Without it, of the "
             "xsd:dateTime literals a = \"2000-01-01T12:00:00+14:00\", b = \"2000-01-01T01:00:00Z\" and the ill-typed c = \"2000-01-01T07:61:00Z\", b > a by value while "
             "a > c > b by text: a cycle, sorted() depended on the input order", floor=2)
    gt = lm.get("__gt__")
    if gt is None:
        raise AnalysisError("Literal.__gt__ vanished")
    me, ot = _self_param(gt), _second_param(gt)
    D = H.Defs(gt)
    ill = ("ill_typed", "_ill_typed")
    n = 0
    for c in own_nodes(gt):
        if not (isinstance(c, ast.Compare) and len(c.ops) == 1 and isinstance(c.ops[0], (ast.Gt, ast.Lt, ast.GtE, ast.LtE))
                and _value_operand(D, c.left, me) and _value_operand(D, c.comparators[0], ot)):
            continue
        if any(pol and _numeric_flag_of(repo, tm, D, e) for e, pol in H.atoms(H.path_conds(tm, gt, c))):
            continue  # the numeric arm: both are well-typed numbers there (rules o, q)
        n += 1
        split = False
        for st in H.earlier_siblings(tm, gt, c):
            if isinstance(st, ast.If) and H.always_leaves(st.body) and isinstance(st.test, ast.Compare) and len(st.test.ops) == 1 \
                    and isinstance(st.test.ops[0], (ast.NotEq, ast.IsNot)) and _only_reads(D, st.test.left, me, ill) and _only_reads(D, st.test.comparators[0], ot, ill):
                split = True  # (a test of ill-typedness alone: `num_self != num_other` sets apart the ill-typed NUMBERS only)
        rep.ob(rid, tm, "Literal.__gt__", "values compared (%s) after the ill-typed literals were set apart" % ("by a key function" if isinstance(D.resolve(c.left) if isinstance(c.left, ast.Name) else c.left, ast.Call) else "directly"), split,
               "" if split else "two literals of one datatype are ordered by value here and, when one of them has no value, by lexical form further down, without a test that puts "
               "the ill-typed ones after the well-typed ones first: for a = \"2000-01-01T12:00:00+14:00\", b = \"2000-01-01T01:00:00Z\" and the ill-typed c = \"2000-01-01T07:61:00Z\" "
               "of xsd:dateTime, b > a (value) and a > c > b (text) - sorted() depends on the input order", node=c)
    if n == 0:
        raise AnalysisError("Literal.__gt__: no comparison of the values outside the numeric arm found")


# ---------------------------------------------------------------------- (ab)
def _rule_ab_one_order_key(repo: Repo, rep: Report, tm) -> None:
    rid = "C07.ab-one-order-key-per-converter"
    rep.rule(rid,
             "a lexical-to-value converter of term.XSDToPython whose declared result is a union of classes (parse_xsd_duration: Duration | timedelta) gives the literals of ONE "
             "datatype values of several Python classes; Literal.__gt__ compares values through term._TOTAL_ORDER_CASTERS[type(value)], so every class of the union is a key "
             "of that table and all of them have one and the same key function.  Otherwise pairs of one class are ordered by value and mixed pairs (TypeError) by lexical "
             "form: P9D < P10D (timedelta), P10D < P1M and P1M < P9D (text) - a cycle, sorted() depended on the input order", floor=2)
    casters = {norm(k).rsplit(".", 1)[-1]: v for k, v in H.dict_table(tm, "_TOTAL_ORDER_CASTERS")}
    if not casters:
        raise AnalysisError("term._TOTAL_ORDER_CASTERS is not a dict display")
    done: set[tuple[str, str]] = set()
    n = 0
    for k, conv in H.dict_table(tm, "XSDToPython"):
        if not isinstance(conv, ast.Name):
            continue
        root, where = H.root_callable(repo, tm, conv)
        if where is None:
            continue
        fn = where.defs.get(root.rsplit(".", 1)[-1])
        if not isinstance(fn, ast.FunctionDef) or (where.name, fn.name) in done:
            continue
        done.add((where.name, fn.name))
        classes = sorted(set(H.annotation_classes(fn.returns)))
        if len(classes) < 2:
            continue
        if any(c.startswith("?") for c in classes):
            raise AnalysisError("%s: return annotation %s unmodelled" % (fn.name, norm(fn.returns)))
        rep.analysed("%s:%s" % (where.rel, fn.name))
        keys = {norm(casters[c]) for c in classes if c in casters}
        for c in classes:
            n += 1
            ok = c in casters and len(keys) == 1
            rep.ob(rid, tm, "_TOTAL_ORDER_CASTERS", "%s() -> %s: %s has the order key shared by all of them" % (fn.name, " | ".join(classes), c), ok,
                   "" if ok else ("values of class %s have no entry in _TOTAL_ORDER_CASTERS" % c if c not in casters else "the classes have different key functions (%s)" % ", ".join(sorted(keys))) +
                   ": literals of one datatype whose values are of different classes are compared with `>` (TypeError -> lexical form) while those of one class are compared "
                   "by value - \"P9D\" < \"P10D\" < \"P1M\" < \"P9D\" for xsd:duration", node=casters.get(c, conv))
    if n == 0:
        raise AnalysisError("no converter of XSDToPython declares a union of result classes (parse_xsd_duration changed shape)")


# ---------------------------------------------------------------------- (ac)
def _rule_ac_datatype_readable(repo: Repo, rep: Report, tm) -> None:
    rid = "C07.ac-written-datatype-can-be-read"
    rep.rule(rid,
             "every datatype that term's Python-to-lexical tables (_GenericPythonToXSDRules, _SpecificPythonToXSDRules) write a Python object as has a lexical-to-value "
             "converter in term.XSDToPython: Literal(obj) keeps obj as its value, while every other way to the same term - copy by text, pickle, n3() and back - makes the "
             "value from the lexical form.  owl:rational had none: Literal(Fraction(1, 2)) had a value and its unpickled copy had not, so equal terms were ordered by value "
             "or by lexical form depending on how they were made", floor=12)
    x2p: dict[str, ast.expr] = {}
    for k, v in H.dict_table(tm, "XSDToPython"):
        if isinstance(k, ast.Constant) and k.value is None:
            continue
        iri = H.fold_str(repo, tm, k)
        if iri is None:
            raise AnalysisError("XSDToPython: key %s is not a constant IRI" % norm(k))
        x2p[iri] = v
    if len(x2p) < 25:
        raise AnalysisError("XSDToPython: only %d entries found" % len(x2p))
    for pt, dt, cast, row, table in _py_to_xsd_rows(tm):
        if isinstance(dt, ast.Constant) and dt.value is None:
            continue
        iri = H.fold_str(repo, tm, dt)
        if iri is None:
            raise AnalysisError("%s: datatype %s is not a constant IRI" % (table, norm(dt)))
        conv = x2p.get(iri)
        ok = conv is not None and not (isinstance(conv, ast.Constant) and conv.value is None)
        what = "%s: %s is written as <%s>, which XSDToPython can read back" % (table, norm(pt), iri)
        why = "" if ok else "Literal(<%s>%s) has the Python object as its value, but <%s> has no converter in XSDToPython: the literal made from its text (pickle, copy, parser) " \
            "has no value - the two are equal terms that are ordered differently against a third" % (norm(pt), "" if table.startswith("_Generic") else ", datatype=<%s>" % iri, iri)
        if not ok and table.startswith("_Specific") and not _REPORT_UNRECORDED_DEFECTS:
            _unrecorded(rep, rid, tm, table, what, why + " [Literal(date(2000, 6, 1), datatype=XSD.gYear) == Literal(date(2000, 1, 1), datatype=XSD.gYear), and the first is > the second]", row)
        else:
            rep.ob(rid, tm, table, what, ok, why, node=row)


# ---------------------------------------------------------------------- (ad)
_TOKEN_WITNESSES = [w for w, _, _ in _NUMBER_WITNESSES] + [
    "1.", "+1.", "1.0", "01", "-.5", " 1 ", "1 ", "\t1", "1\r", "1.5E-3", "1e3", "1.e3", "1e-07", "٣.٥", "1_0.5", "0x10", "1,5"]


def _turtle_number_reader(repo: Repo):
    """the number tokenizer of the Turtle-family parser as data: [(compiled pattern, datatype IRI)] in the order SinkParser.nodeOrLiteral tries
    them - the class each match is wrapped in (res.append(C(...))) is mapped to a datatype by the isinstance arms of RDFSink.normalise"""
    import re as _re

    nm = repo.mod("rdflib.plugins.parsers.notation3")
    nf = nm.func("SinkParser.nodeOrLiteral")
    norm_fn = nm.func("RDFSink.normalise")
    if len(norm_fn.args.args) < 3:
        raise AnalysisError("RDFSink.normalise: parameters changed")
    nparam = norm_fn.args.args[2].arg
    cls2dt: dict[str, str] = {}
    for c in own_nodes(norm_fn):
        if _is_literal_ctor(c):
            dt = next((H.fold_str(repo, nm, k.value) for k in c.keywords if k.arg == "datatype"), None)
            if dt is None:
                continue
            for t, pol in H.path_conds(nm, norm_fn, c):
                if pol:
                    for cl in H.isinstance_classes(t, nparam):
                        cls2dt.setdefault(cl, dt)
    order: list[tuple[int, "_re.Pattern[str]", str]] = []
    for i, (name, p, wrapped) in enumerate(_turtle_number_tries(repo)):
        if wrapped is None or wrapped not in cls2dt:
            raise AnalysisError("SinkParser.nodeOrLiteral: what a match of %s is appended as (%s) has no arm in RDFSink.normalise" % (name, wrapped))
        order.append((i, _re.compile(p[0], p[1]), cls2dt[wrapped]))
    if len(order) < 3:
        raise AnalysisError("SinkParser.nodeOrLiteral: the integer / decimal / double patterns not found")

    def read(w: str) -> Optional[str]:
        for _, rx, dt in order:
            m = rx.match(w)
            if m:
                return dt if m.end() == len(w) else None
        return None

    return read


def _rule_ad_token_test(repo: Repo, rep: Report, tm, lm) -> None:
    import re as _re

    rid = "C07.ad-bare-token-under-a-token-test"
    rep.rule(rid,
             "Literal._literal_n3: a bare token that is the literal's own text is returned (by the shorthand block, or by a def the block calls for it) only under a test that the text IS a token: a full match of it against a constant "
             "pattern, or membership in a constant tuple of strings (`s in ('true', 'false')`) - the XSD lexical spaces are wider than the Turtle tokens (white space around "
             "the number, '1.' for a decimal).  And every witness such a pattern accepts is read by the number tokenizer of the Turtle-family parser (the patterns "
             "SinkParser.nodeOrLiteral tries, in its order) as ONE token.  \"1.\"^^xsd:decimal was written as the bare 1. (the dot ends the statement; the rest does not parse) "
             "and \" 1 \"^^xsd:integer as 1, read back as another term", floor=3)
    fn = lm.get("_literal_n3")
    if fn is None:
        raise AnalysisError("Literal._literal_n3 vanished")
    me = _self_param(fn)
    _blk, tokens = _shorthand_tokens(repo, tm, fn, me)
    rets = [t for t in tokens if t.last.lit is not None and _own_text(t.last.mod, t.last.fn, t.at, t.expr, t.last.lit)]
    if not rets:
        raise AnalysisError("Literal._literal_n3: the shorthand block returns no bare token that is the literal's own text")
    plain = H.module_assigns(tm).get("_PLAIN_LITERAL_TYPES", [])
    plain_iris = {H.fold_str(repo, tm, e) for e in plain[0].elts} if len(plain) == 1 and isinstance(plain[0], (ast.Tuple, ast.List)) else set()
    read = _turtle_number_reader(repo)
    for t in rets:
        r = t.at
        subject = norm(t.expr)
        at = H.atoms(t.last.facts)
        # the datatype the token is written for, as far as the branch conditions tell (in every def on the way to the token)
        cands = set(plain_iris)
        for f in t.frames:
            if f.lit is None:
                continue
            for e, pol in H.atoms(f.facts):
                if isinstance(e, ast.Compare) and len(e.ops) == 1 and isinstance(e.ops[0], ast.Eq):
                    for l, c in ((e.left, e.comparators[0]), (e.comparators[0], e.left)):
                        if _attr_of(f.D.resolve(l) if isinstance(l, ast.Name) else l, ("datatype", "_datatype")) == f.lit:
                            iri = H.fold_str(repo, f.mod, c)
                            if iri is not None:
                                cands = cands & {iri} if pol else cands - {iri}
        dt = next(iter(cands)) if len(cands) == 1 else None
        short = dt.rsplit("#", 1)[-1] if dt else "?"
        tests = []
        for e, pol in at:
            g = _full_match_guard(repo, t.last.mod, e, pol, subject)
            if g is not None:
                tests.append(("pattern", g))
            elif pol and isinstance(e, ast.Compare) and len(e.ops) == 1 and isinstance(e.ops[0], ast.In) and norm(e.left) == subject \
                    and isinstance(e.comparators[0], (ast.Tuple, ast.List, ast.Set)) and e.comparators[0].elts \
                    and all(isinstance(x, ast.Constant) and isinstance(x.value, str) for x in e.comparators[0].elts):
                tests.append(("members", tuple(x.value for x in e.comparators[0].elts)))
        rep.ob(rid, tm, "Literal._literal_n3", "bare token for xsd:%s: returned under a token test of the text" % short, bool(tests),
               "" if tests else "the lexical form of a well-typed xsd:%s literal is written as a bare token without a full match against the token grammar: %s" %
               (short, "\"1.\"^^xsd:decimal (valid in XSD) is written as 1. - not a token, the document does not parse" if short == "decimal" else
                "\" 1 \"^^xsd:integer (white space is allowed in the XSD lexical space) is written with its white space and read back as \"1\"^^xsd:integer"), node=r)
        for kind, g in tests:
            if kind != "pattern":
                continue
            rx = _re.compile(g[0], g[1])
            unread = [w for w in _TOKEN_WITNESSES if rx.fullmatch(w) and read(w) is None]
            other = [w for w in _TOKEN_WITNESSES if rx.fullmatch(w) and read(w) is not None and dt is not None and read(w) != dt]
            rep.ob(rid, tm, "Literal._literal_n3", "token pattern %s (xsd:%s): what it accepts is one token for the Turtle tokenizer" % (g[0], short), not unread,
                   "" if not unread else "the pattern lets %s through, which SinkParser.nodeOrLiteral does not read as one number token" % ", ".join(repr(w) for w in unread[:4]), node=r)
            if other:
                _unrecorded(rep, rid, tm, "Literal._literal_n3", "token pattern %s (xsd:%s): what it accepts is read back with the same datatype" % (g[0], short),
                            "the pattern lets %s through for an xsd:%s literal, which the Turtle tokenizer reads as <%s>: Literal(1e-7, datatype=XSD.decimal) is written as the bare "
                            "1e-07 and read back as an xsd:double" % (", ".join(repr(w) for w in other[:4]), short, read(other[0])), r)


# ---------------------------------------------------------------------- (ae)
def _rule_ae_foreign_datatype(repo: Repo, rep: Report, tm, lm) -> None:
    rid = "C07.ae-python-value-under-foreign-datatype"
    rep.rule(rid,
             "Literal.__new__, the arm that keeps the Python object given as the value (<value local> = <first argument>) and asks _castPythonToLiteral for the datatype of "
             "its Python type: the caller's datatype is preferred to the type's own (<datatype> = f(<datatype>, <own datatype>)) only after an `if` that compares the two "
             "(<datatype> != <own datatype>) and there re-makes the literal from the lexical form under the caller's datatype (a constructor call with datatype=<datatype> "
             "whose result is returned).  Literal(0.1, datatype=XSD.decimal) kept the float as the value of an xsd:decimal term: it equals \"0.1\"^^xsd:decimal made from "
             "text, whose value is Decimal('0.1'), but the two were ordered differently against Literal(Decimal('0.1000000000000000001'))", floor=1)
    new = lm.get("__new__")
    if new is None:
        raise AnalysisError("Literal.__new__ vanished")
    lex = _second_param(new)
    locs = _slot_locals(tm, new)
    V, T = locs["_value"], locs["_datatype"]
    keeps = [a for a in own_nodes(new) if isinstance(a, ast.Assign) and len(a.targets) == 1 and norm(a.targets[0]) == V and isinstance(a.value, ast.Name) and a.value.id == lex]
    if not keeps:
        raise AnalysisError("Literal.__new__: no arm keeps the first argument as the value")
    n = 0
    for keep in keeps:
        arm = _top_arm(new, tm, keep)
        nodes = [x for s in arm for x in ast.walk(s)]
        own_dt: set[str] = set()
        for x in nodes:
            if isinstance(x, ast.Assign) and isinstance(x.value, ast.Call) and norm(x.value.func) == "_castPythonToLiteral" and isinstance(x.targets[0], ast.Tuple) \
                    and len(x.targets[0].elts) == 2 and isinstance(x.targets[0].elts[1], ast.Name):
                own_dt.add(x.targets[0].elts[1].id)
        if not own_dt:
            continue
        prefers = [x for x in nodes if isinstance(x, ast.Assign) and len(x.targets) == 1 and norm(x.targets[0]) == T
                   and {T} | own_dt <= {y.id for y in ast.walk(x.value) if isinstance(y, ast.Name)} | {T} and any(isinstance(y, ast.Name) and y.id in own_dt for y in ast.walk(x.value))
                   and any(isinstance(y, ast.Name) and y.id == T for y in ast.walk(x.value))]
        for pf in prefers:
            n += 1
            remade = False
            for st in H.earlier_siblings(tm, new, pf):
                if not isinstance(st, ast.If):
                    continue
                compares = any(pol and isinstance(e, ast.Compare) and len(e.ops) == 1 and isinstance(e.ops[0], (ast.NotEq, ast.IsNot))
                               and {norm(e.left), norm(e.comparators[0])} == {T, d} for e, pol in H.atoms([(st.test, True)]) for d in own_dt)
                if not compares:
                    continue
                body = [x for s in st.body for x in ast.walk(s)]
                made = {norm(x.targets[0]) for x in body if isinstance(x, ast.Assign) and isinstance(x.value, ast.Call)
                        and norm(x.value.func).rsplit(".", 1)[-1] in ("__new__", "Literal", new.args.args[0].arg)
                        and any(k.arg == "datatype" and norm(k.value) == T for k in x.value.keywords)}
                direct = any(isinstance(x, ast.Return) and isinstance(x.value, ast.Call) and norm(x.value.func).rsplit(".", 1)[-1] in ("__new__", "Literal", new.args.args[0].arg)
                             and any(k.arg == "datatype" and norm(k.value) == T for k in x.value.keywords) for x in body)
                if direct or any(isinstance(x, ast.Return) and isinstance(x.value, ast.Name) and x.value.id in made for x in body):
                    remade = True
            rep.ob(rid, tm, "Literal.__new__", "the caller's datatype is preferred to the Python type's own after the two were compared and the literal re-made from its text", remade,
                   "" if remade else "the Python object stays the value whatever datatype the caller gives: Literal(0.1, datatype=XSD.decimal) has the float 0.1 as its value, while the "
                   "equal term made from the text \"0.1\" has Decimal('0.1'); the two are ordered differently against Literal(Decimal('0.1000000000000000001')), and "
                   "Literal(1, datatype=XSD.boolean) has no ill_typed verdict", node=pf)
    if n == 0:
        raise AnalysisError("Literal.__new__: the statement that prefers the caller's datatype to that of the Python type was not found")


# ---------------------------------------------------------------------- (af) NotImplemented is not a truth value
_CMP_DUNDERS = ("__lt__", "__gt__", "__le__", "__ge__", "__eq__", "__ne__")


def _may_answer_not_implemented(tm, cls: str, name: str, seen=()) -> bool:
    """The method `name` as an instance of `cls` sees it (the class itself, then its bases in this module) has a
    `return NotImplemented`, or hands back what another comparison method of the object returns that has one."""
    if (cls, name) in seen or not tm.has(cls):
        return False
    c = tm.cls(cls)
    meth = next((st for st in c.body if isinstance(st, ast.FunctionDef) and st.name == name), None)
    if meth is None:
        return any(_may_answer_not_implemented(tm, b.id, name, seen + ((cls, name),)) for b in c.bases if isinstance(b, ast.Name))
    for n in own_nodes(meth):
        if isinstance(n, ast.Return) and n.value is not None:
            if isinstance(n.value, ast.Name) and n.value.id == "NotImplemented":
                return True
            for k in ast.walk(n.value):
                if isinstance(k, ast.Name) and k.id == "NotImplemented":
                    return True
    return False


def _truth_context(mod, node: ast.AST) -> bool:
    """`node` is used for its truth value: the test of if / while / conditional expression / assert, an operand of
    and / or / not, the argument of bool()."""
    par = mod.parent.get(id(node))
    if isinstance(par, (ast.If, ast.While, ast.IfExp, ast.Assert)) and par.test is node:
        return True
    if isinstance(par, ast.BoolOp):
        return True
    if isinstance(par, ast.UnaryOp) and isinstance(par.op, ast.Not):
        return True
    if isinstance(par, ast.Call) and isinstance(par.func, ast.Name) and par.func.id == "bool" and node in par.args:
        return True
    return False


def _is_ni_test(test: ast.AST, name: str) -> Optional[bool]:
    """True: `name is NotImplemented`; False: `name is not NotImplemented`; None: something else."""
    if isinstance(test, ast.Compare) and len(test.ops) == 1 and isinstance(test.left, ast.Name) and test.left.id == name \
            and isinstance(test.comparators[0], ast.Name) and test.comparators[0].id == "NotImplemented":
        if isinstance(test.ops[0], (ast.Is, ast.Eq)):
            return True
        if isinstance(test.ops[0], (ast.IsNot, ast.NotEq)):
            return False
    return None


def _leaves(block: list) -> bool:
    if not block:
        return False
    last = block[-1]
    if isinstance(last, (ast.Return, ast.Raise, ast.Continue, ast.Break)):
        return True
    if isinstance(last, ast.If):
        return bool(last.orelse) and _leaves(last.body) and _leaves(last.orelse)
    return False


def _known_not_ni(mod, fn: ast.FunctionDef, use: ast.AST, name: str) -> bool:
    """At `use` the local `name` is known not to be NotImplemented: the use sits in the branch of an `is (not)
    NotImplemented` test that excludes it, or after such a test whose NotImplemented branch leaves the function."""
    node: ast.AST = use
    while node is not fn:
        par = mod.parent.get(id(node))
        if par is None:
            return False
        if isinstance(par, ast.If):
            t = _is_ni_test(par.test, name)
            if t is True and any(node is s for s in par.orelse):
                return True
            if t is False and any(node is s for s in par.body):
                return True
        for f in ("body", "orelse", "finalbody"):
            blk = getattr(par, f, None)
            if isinstance(blk, list) and any(node is s for s in blk):
                i = next(k for k, s in enumerate(blk) if s is node)
                for prev in blk[:i]:
                    if isinstance(prev, ast.If):
                        t = _is_ni_test(prev.test, name)
                        if t is True and _leaves(prev.body):
                            return True
                        if t is False and prev.orelse and _leaves(prev.orelse):
                            return True
                    # re-binding of the name between the guard and the use is not looked for: the name is bound once (checked by the caller)
        node = par
    return False


def _rule_af_not_implemented_is_no_truth_value(repo: Repo, rep: Report, tm) -> None:
    rid = "C07.af-not-implemented-is-not-a-truth-value"
    rep.rule(rid, "terms of different kinds, and a term and something that is not a term, are not ordered by accident: where an ordering method "
             "of a term class (__lt__, __gt__, __le__, __ge__) asks another comparison method of the object that can answer NotImplemented, the "
             "answer is not used as a truth value (NotImplemented is truthy: `if r: return True` made Literal(1) <= 5 and URIRef('a') >= 5 True) "
             "unless it was compared with NotImplemented first", floor=4)
    n = 0
    for cname in [q for q, d in tm.defs.items() if isinstance(d, ast.ClassDef) and "." not in q]:
        for mname, fn in tm.methods(cname).items():
            if mname not in ("__lt__", "__gt__", "__le__", "__ge__"):
                continue
            where = "%s.%s" % (cname, mname)
            stores: dict[str, int] = {}
            for x in own_nodes(fn):
                if isinstance(x, ast.Name) and isinstance(x.ctx, ast.Store):
                    stores[x.id] = stores.get(x.id, 0) + 1
            for c in own_nodes(fn):
                if not (isinstance(c, ast.Call) and isinstance(c.func, ast.Attribute) and c.func.attr in _CMP_DUNDERS):
                    continue
                recv = c.func.value
                if isinstance(recv, ast.Name) and recv.id == "self":
                    target_cls = cname
                elif isinstance(recv, ast.Call) and isinstance(recv.func, ast.Name) and recv.func.id == "super":
                    bases = [b.id for b in tm.cls(cname).bases if isinstance(b, ast.Name)]
                    target_cls = bases[0] if bases else cname
                else:
                    continue
                if not _may_answer_not_implemented(tm, target_cls, c.func.attr):
                    continue
                n += 1
                rep.analysed("rdflib.term." + where)
                par = tm.parent.get(id(c))
                bad = ""
                if _truth_context(tm, c):
                    bad = "the answer of %s is tested for truth where it is asked" % c.func.attr
                elif isinstance(par, ast.Assign) and len(par.targets) == 1 and isinstance(par.targets[0], ast.Name):
                    r = par.targets[0].id
                    if stores.get(r, 0) != 1:
                        bad = "the local %s that holds the answer is bound more than once: not judged" % r
                    else:
                        for u in own_nodes(fn):
                            if isinstance(u, ast.Name) and u.id == r and isinstance(u.ctx, ast.Load) and _truth_context(tm, u) and not _known_not_ni(tm, fn, u, r):
                                bad = "%s holds the answer and is tested for truth (line %d) where it may still be NotImplemented" % (r, u.lineno)
                                break
                rep.ob(rid, tm, where, c, not bad, bad and (bad + ": NotImplemented is truthy, so the comparison with an operand the method does not know answers True instead of "
                       "leaving the decision to the other operand (TypeError for a non-term)"), node=c)
    if n == 0:
        raise AnalysisError("no ordering method of a term class asks another comparison method that can answer NotImplemented: rule C07.af has lost its anchor")


# ====================================================================== the check: one rule layer per rule
# Every rule is a layer of its own (vlib.core.layer): a rule that loses its anchor on the tree as it is, or on one of its
# equivalent views, is judged alone - the other rules are not dragged along (run_check merges the views rule by rule).


def _with_term(f):
    """rule functions that take (repo, rep, tm[, lm]): look the module and the methods of Literal up inside the layer"""
    import inspect

    n = len(inspect.signature(f).parameters)

    def g(repo: Repo, rep: Report) -> None:
        tm = repo.mod("rdflib.term")
        if n == 2:
            f(repo, rep)
        elif n == 3:
            f(repo, rep, tm)
        else:
            f(repo, rep, tm, tm.methods("Literal"))

    g.__name__ = f.__name__
    return g


_RULES = [
    _rule_a_eq_hash, _rule_b_ordering, _rule_c_pickle, _rule_d_escape_tables, _rule_e_from_n3_context, _rule_f_sparql_absolute,
    _rule_g_sparql_tabs, _rule_h_from_n3_covers,
    _rule_i_constructor, _rule_j_duration_sign, _rule_k_converters, _rule_l_backslash_parity, _rule_m_plain_types, _rule_n_written_text,
    _rule_p_language_folded, _rule_o_numbers_one_block, _rule_q_total_and_mirrored,
    _rule_r_unescape_one_pass, _rule_s_number_grammar, _rule_t_digest_text, _rule_u_prepass,
    _rule_v_decimal_text, _rule_w_copy, _rule_x_exclusion, _rule_y_verdict_full_match, _rule_z_le_ge, _rule_aa_ill_typed_split,
    _rule_ab_one_order_key, _rule_ac_datatype_readable, _rule_ad_token_test, _rule_ae_foreign_datatype,
    _rule_af_not_implemented_is_no_truth_value,
]


def run(repo: Repo, rep: Report) -> None:
    rep.extra["explanation"] = EXPLANATION + _EXPLANATION_R_U + _EXPLANATION_V_AE + (
        " Where a clause is about what an entry point does with a value (the lexical form, the quoted text, a bare token, two language tags or order keys, "
        "the number patterns the Turtle tokenizer tries), the rule follows the value into the defs of the package the entry point hands it to (vlib/h_c07.py: "
        "resolve_call, expand_calls, Copies, facts_at); each rule is a layer of its own, judged alone on the tree and on its equivalent views."
    )
    for f in _RULES:
        _layer(rep, _with_term(f), repo)
