"""C07 - term identity laws: table / field agreement (DESIGN.md §2 C07)."""
from __future__ import annotations

import ast

from checks.c03 import escape_table_rules
from vlib import truthy
from vlib.core import AnalysisError, Repo, Report, norm, own_nodes

EXPLANATION = (
    "(a) eq/hash coherence by construction: for every Node subclass of rdflib/term.py that defines __eq__, __hash__ is defined "
    "(or re-bound) in the same class, and every (field, normaliser) the hash reads is compared by __eq__ with the same "
    "normaliser (e.g. Literal: str, _datatype, _language.lower()); (b) _ORDERING gives BNode < Variable < URIRef < Literal "
    "distinct ranks and Identifier.__lt__/__gt__ are mirror images: same guard chain, rank lookup with the same key on both "
    "sides, operator matching the method; the None guard is by identity (a falsy term is not None); (c) pickling: "
    "__reduce__ of every term class rebuilds from all the fields __eq__ compares, and Literal.__getstate__/__setstate__ "
    "use the same keys. (i)-(q), necessary conditions of the value-level clauses that are visible in the shape of the code: "
    "(i) Literal() decides ill-typedness wherever it interprets a lexical form and keeps an ill-typed or inexactly valued form; "
    "(j) xsd_datetime rejects only durations of mixed sign; (k) every datatype with a lenient converter has a lexical-space pattern, "
    "consulted by a full match, base64 is validated; (l) 'already escaped' is decided by parity, not by one neighbouring character; "
    "(m) every shorthand datatype has a bare token in the Turtle-family parser; (n) n3()/shorthand write the literal's own lexical form, "
    "the shorthand only for literals that are not ill-typed; (o) numbers form one block before a comparison by datatype IRI or lexical form; "
    "(p) language tags are compared case-folded everywhere; (q) NaN test before value comparison, __lt__ is the mirror of __gt__, "
    "__le__/__ge__ accept the same term. What remains value-level and undecided: that the converters themselves compute the XSD value."
)


def _features_hash(fn: ast.AST) -> set[tuple[str, str]]:
    """(field, normaliser) pairs read by a __hash__ body"""
    out = set()
    for c in ast.walk(fn):
        if isinstance(c, ast.Call):
            f = norm(c.func)
            if f in ("str.__hash__",) and c.args and norm(c.args[0]) == "self":
                out.add(("str", ""))
            if f == "hash" and c.args:
                a = c.args[0]
                chain = []
                while isinstance(a, ast.Call) and isinstance(a.func, ast.Attribute) and not a.args:
                    chain.append(a.func.attr)
                    a = a.func.value
                if isinstance(a, ast.Attribute) and isinstance(a.value, ast.Name) and a.value.id == "self":
                    out.add((a.attr, ".".join(reversed(chain))))
                elif norm(a) in ("self", "str(self)"):
                    out.add(("str", ".".join(reversed(chain))))
    return out


def _features_eq(fn: ast.AST) -> set[tuple[str, str]]:
    out = set()
    for c in ast.walk(fn):
        if isinstance(c, ast.Call) and norm(c.func) == "str.__eq__":
            out.add(("str", ""))
        if isinstance(c, ast.Compare) and len(c.ops) == 1 and isinstance(c.ops[0], ast.Eq):
            l, r = c.left, c.comparators[0]
            if norm(l) == "str(self)" and norm(r) == "str(other)":
                out.add(("str", ""))
                continue

            def feat(e, who):
                # self._x  |  self._x.lower() if self._x else None  | self._x.lower()
                if isinstance(e, ast.IfExp):
                    e = e.body
                chain = []
                while isinstance(e, ast.Call) and isinstance(e.func, ast.Attribute) and not e.args:
                    chain.append(e.func.attr)
                    e = e.func.value
                if isinstance(e, ast.Attribute) and isinstance(e.value, ast.Name) and e.value.id == who:
                    return (e.attr, ".".join(reversed(chain)))
                return None
            fl, fr = feat(l, "self"), feat(r, "other")
            if fl and fr and fl == fr:
                out.add(fl)
    return out


def run(repo: Repo, rep: Report) -> None:
    rep.extra["explanation"] = EXPLANATION
    tm = repo.mod("rdflib.term")
    typed = repo.typed
    classes = [c for c in typed.subclasses("rdflib.term.Node") if c.startswith("rdflib.term.")]
    if len(classes) < 8:
        raise AnalysisError("expected >= 8 Node classes in term.py, found %s" % classes)

    # ------------------------------------------------------------------ (a)
    rep.rule("C07.a-eq-hash-coherent",
             "a term class that defines __eq__ also defines/re-binds __hash__, and every (field, normaliser) its hash reads is compared by its __eq__ with the same normaliser", floor=6)
    for c in sorted(classes):
        cname = c.rsplit(".", 1)[1]
        cd = tm.cls(cname)
        meths = tm.methods(cname)
        rebinds = {norm(st.targets[0]): norm(st.value) for st in cd.body if isinstance(st, ast.Assign) and isinstance(st.targets[0], ast.Name)}
        has_eq = "__eq__" in meths
        has_hash = "__hash__" in meths or "__hash__" in rebinds
        if not has_eq and not has_hash:
            continue
        rep.analysed("rdflib/term.py:%s.__eq__" % cname, "rdflib/term.py:%s.__hash__" % cname)
        rep.ob("C07.a-eq-hash-coherent", tm, cname, "__eq__ and __hash__ defined together", has_eq == has_hash or (has_hash and not has_eq),
               "" if has_eq == has_hash else "%s defines __eq__ without __hash__: instances become unhashable / inherit an incoherent hash" % cname, node=cd)
        if not has_eq:
            continue
        eqf = _features_eq(meths["__eq__"])
        if "__hash__" in meths:
            hf = _features_hash(meths["__hash__"])
        else:
            hf = {("str", "")} if rebinds.get("__hash__") == "str.__hash__" else set()
            if not hf:
                raise AnalysisError("%s.__hash__ re-bound to %s: unmodelled" % (cname, rebinds.get("__hash__")))
        if not hf or not eqf:
            raise AnalysisError("%s: could not extract eq/hash features (eq=%s hash=%s)" % (cname, eqf, hf))
        for feat in sorted(hf):
            ok = feat in eqf
            same_field = [e for e in eqf if e[0] == feat[0]]
            rep.ob("C07.a-eq-hash-coherent", tm, cname + ".__hash__", "hash reads %s%s" % (feat[0], "." + feat[1] + "()" if feat[1] else ""), ok,
                   "compared the same way by __eq__" if ok else
                   ("__eq__ compares %s as %s but __hash__ reads it as %s: equal terms can hash differently (sets, dict keys and graphs then keep both)" % (feat[0], same_field[0][1] or "raw", feat[1] or "raw")
                    if same_field else "__hash__ reads %s which __eq__ does not compare" % feat[0]), node=meths.get("__hash__", cd))

    # ------------------------------------------------------------------ (b)
    rep.rule("C07.b-ordering-table-and-mirrors",
             "_ORDERING ranks are distinct with BNode < Variable < URIRef < Literal; Identifier.__lt__/__gt__ have the same guard chain, look ranks up "
             "with the same key expression for both operands, and use the operator of their name; guards on `other` are by identity", floor=8)
    ranks = {}
    for st in tm.tree.body:
        if isinstance(st, ast.Expr) and isinstance(st.value, ast.Call) and norm(st.value.func) == "_ORDERING.update" and st.value.args and isinstance(st.value.args[0], ast.Dict):
            for k, v in zip(st.value.args[0].keys, st.value.args[0].values):
                if isinstance(v, ast.Constant):
                    ranks[norm(k)] = v.value
    want = ["BNode", "Variable", "URIRef", "Literal"]
    ok = all(w in ranks for w in want) and [ranks[w] for w in want] == sorted(ranks[w] for w in want) and len({ranks[w] for w in want}) == 4
    rep.ob("C07.b-ordering-table-and-mirrors", tm, "_ORDERING", "ranks %s" % ranks, ok,
           "BNode < Variable < URIRef < Literal, all distinct" if ok else "kind ranks are not strictly BNode < Variable < URIRef < Literal: %s" % ranks, node=tm.tree)
    im = tm.methods("Identifier")
    ops = {"__lt__": ast.Lt, "__gt__": ast.Gt}
    chains = {}
    for name, op in ops.items():
        f = im.get(name)
        if f is None:
            raise AnalysisError("Identifier.%s vanished" % name)
        rep.analysed("rdflib/term.py:Identifier." + name)
        tests = []
        n = [s for s in f.body if isinstance(s, ast.If)]
        cur = n[0] if n else None
        while cur is not None:
            tests.append(norm(cur.test))
            # comparisons in this arm
            for c in [x for s in cur.body for x in ast.walk(s)]:
                if isinstance(c, ast.Compare) and len(c.ops) == 1 and isinstance(c.ops[0], (ast.Lt, ast.Gt, ast.LtE, ast.GtE)):
                    okop = isinstance(c.ops[0], op)
                    l, r = norm(c.left), norm(c.comparators[0])
                    sym = l.replace("self", "@") == r.replace("other", "@")
                    rep.ob("C07.b-ordering-table-and-mirrors", tm, "Identifier." + name, c, okop and sym,
                           "operator and operands match the method" if okop and sym else
                           "comparison %s in %s uses the wrong operator or asymmetric keys" % (norm(c), name), node=c)
            cur = cur.orelse[0] if len(cur.orelse) == 1 and isinstance(cur.orelse[0], ast.If) else None
        chains[name] = tests
    same = chains["__lt__"] == chains["__gt__"]
    rep.ob("C07.b-ordering-table-and-mirrors", tm, "Identifier.__lt__/__gt__", "guard chains %s" % chains["__gt__"], same,
           "mirror images" if same else "__lt__ and __gt__ decide their cases differently: %s vs %s - for some pair neither a<b nor b<a nor a==b holds, sorting depends on input order" % (chains["__lt__"], chains["__gt__"]), node=im["__lt__"])
    operand = {"other": (True, ["rdflib.term.Literal"], "comparison operand: any term, possibly a falsy one, or None")}
    for cname in ("Identifier", "Literal"):
        for name in ("__lt__", "__gt__", "__le__", "__ge__", "__eq__", "__ne__", "eq", "neq"):
            f = tm.methods(cname).get(name)
            if f is not None:
                truthy.scan(repo, rep, "C07.b-ordering-table-and-mirrors", tm, f, "%s.%s" % (cname, name), extra_types=operand)

    # ------------------------------------------------------------------ (c)
    rep.rule("C07.c-pickle-covers-eq-fields",
             "__reduce__ of URIRef/BNode/Variable rebuilds from str(self); Literal.__reduce__ passes the lexical form, language and datatype; "
             "Literal.__getstate__ and __setstate__ use the same keys and restore the fields __eq__ compares", floor=6)
    for cname in ("URIRef", "BNode", "Variable"):
        f = tm.methods(cname).get("__reduce__")
        if f is None:
            raise AnalysisError("%s.__reduce__ vanished" % cname)
        r = [x for x in own_nodes(f) if isinstance(x, ast.Return)][0].value
        ok = isinstance(r, ast.Tuple) and norm(r.elts[0]) == cname and isinstance(r.elts[1], ast.Tuple) and [norm(e) for e in r.elts[1].elts] == ["str(self)"]
        rep.ob("C07.c-pickle-covers-eq-fields", tm, cname + ".__reduce__", norm(r), ok, "" if ok else "%s is not rebuilt as %s(str(self))" % (cname, cname), node=f)
    lm = tm.methods("Literal")
    r = [x for x in own_nodes(lm["__reduce__"]) if isinstance(x, ast.Return)][0].value
    args = [norm(e) for e in r.elts[1].elts] if isinstance(r, ast.Tuple) and isinstance(r.elts[1], ast.Tuple) else []
    ok = norm(r.elts[0]) == "Literal" and args[:1] == ["str(self)"] and any("language" in a for a in args) and any("datatype" in a for a in args)
    rep.ob("C07.c-pickle-covers-eq-fields", tm, "Literal.__reduce__", norm(r), ok, "lexical form, language and datatype" if ok else "Literal.__reduce__ drops a field that __eq__ compares: %s" % args, node=lm["__reduce__"])
    # positional meaning: Literal.__new__(cls, lexical_or_value, lang, datatype, normalize, ...)
    newp = [a.arg for a in lm["__new__"].args.args[1:]]
    want = {"lexical_or_value": "str(self)", "lang": "self.language", "datatype": "self.datatype"}
    rargs = list(r.elts[1].elts) if isinstance(r, ast.Tuple) and isinstance(r.elts[1], ast.Tuple) else []
    okp = 3 <= len(rargs) <= len(newp)
    for prm, a in zip(newp, rargs):
        if prm in want:
            okp = okp and norm(a) == want[prm]
        else:
            okp = okp and isinstance(a, ast.Constant)  # an option of the constructor, not a field of the term
    rep.ob("C07.c-pickle-covers-eq-fields", tm, "Literal.__reduce__", "argument order matches Literal.__new__%s" % newp[:len(rargs)], okp,
           "" if okp else "the reduce tuple %s does not line up with Literal.__new__'s parameters %s" % (args, newp), node=lm["__reduce__"])
    # the constructor normalises the lexical form by default (normalize=None -> rdflib.NORMALIZE_LITERALS): a copy built from
    # str(self) is the same term only if the reduce tuple switches that off (the stored form may be one that normalisation
    # would rewrite: Literal(1, datatype=XSD.double) is "1", normalize=False literals, ill-typed forms)
    if "normalize" in newp:
        i = newp.index("normalize")
        a = rargs[i] if i < len(rargs) else None
        okn = isinstance(a, ast.Constant) and a.value is False
        rep.ob("C07.c-pickle-covers-eq-fields", tm, "Literal.__reduce__", "rebuilds with normalize=False", okn,
               "" if okn else "Literal.__reduce__ rebuilds through the normalising constructor (normalize is %s): pickle/copy/deepcopy of a literal whose stored lexical form "
               "is not the canonical one gives a different term" % ("left to the default" if a is None else norm(a)), node=lm["__reduce__"])
    gs = [x for x in own_nodes(lm["__getstate__"]) if isinstance(x, ast.Return)][0].value
    gkeys = set()
    for c in ast.walk(gs):
        if isinstance(c, ast.Call) and norm(c.func) == "dict":
            gkeys = {k.arg for k in c.keywords}
        if isinstance(c, ast.Dict):
            gkeys = {k.value for k in c.keys if isinstance(k, ast.Constant)}
    skeys = {}
    for n in own_nodes(lm["__setstate__"]):
        if isinstance(n, ast.Assign) and isinstance(n.value, ast.Subscript) and isinstance(n.value.slice, ast.Constant):
            skeys[n.value.slice.value] = norm(n.targets[0])
    ok = gkeys == set(skeys) == {"language", "datatype"} and skeys.get("language") == "self._language" and skeys.get("datatype") == "self._datatype"
    rep.ob("C07.c-pickle-covers-eq-fields", tm, "Literal.__getstate__/__setstate__", "keys %s -> %s" % (sorted(gkeys), skeys), ok,
           "" if ok else "getstate keys %s and setstate reads %s do not restore _language/_datatype consistently" % (sorted(gkeys), skeys), node=lm["__setstate__"])

    # ------------------------------------------------------------------ (d)  n3() text form: string escape tables (shared with C03)
    escape_table_rules(repo, rep, "C07.d-n3-string-escapes")

    # ------------------------------------------------------------------ (e)
    rep.rule("C07.e-from-n3-forwards-context",
             "util.from_n3 passes its resolution context on in the recursive call that resolves a literal's datatype: the caller's namespace manager "
             "(and default / backend) - otherwise a prefixed datatype is resolved against a different prefix table than the one n3() wrote it with", floor=1)
    um = repo.mod("rdflib.util")
    f = um.func("from_n3")
    params = [a.arg for a in f.args.args]
    ctx_params = [p for p in params[1:]]
    rec = [c for c in own_nodes(f) if isinstance(c, ast.Call) and norm(c.func) == "from_n3"]
    dt_calls = []
    for c in rec:
        # the datatype call: its result is assigned to a name containing 'datatype' or used as datatype=
        par_ = um.parent.get(id(c))
        if isinstance(par_, ast.Assign) and "datatype" in norm(par_.targets[0]).lower():
            dt_calls.append(c)
    if not dt_calls:
        raise AnalysisError("from_n3: recursive datatype resolution call not found")
    for c in dt_calls:
        passed = {}
        for i, a in enumerate(c.args):
            if i < len(params):
                passed[params[i]] = norm(a)
        for k in c.keywords:
            if k.arg:
                passed[k.arg] = norm(k.value)
        missing = [p for p in ctx_params if passed.get(p) != p]
        rep.ob("C07.e-from-n3-forwards-context", um, "from_n3", c, not missing,
               "forwards %s" % ctx_params if not missing else "the datatype is resolved without the caller's %s: text written by n3(namespace_manager) is read back with another prefix table" % missing, node=c)

    # ------------------------------------------------------------------ (f)
    rep.rule("C07.f-sparql-absolute-iri-not-rebased",
             "in the SPARQL prologue, an IRI is handed to base resolution (URIRef(iri, base=...), i.e. urllib's urljoin, which re-assembles and thereby "
             "alters some absolute IRIs: an empty query or empty path parameters are dropped) only under a test that it has no scheme: the n3() text of "
             "an IRI term is absolute and must be read back unchanged", floor=1)
    sm = repo.mod("rdflib.plugins.sparql.sparql")
    af = sm.func("Prologue.absolutize")
    nf = 0
    for c in own_nodes(af):
        if not (isinstance(c, ast.Call) and norm(c.func) == "URIRef" and any(k.arg == "base" for k in c.keywords) and c.args):
            continue
        nf += 1
        x = norm(c.args[0])
        guarded = False
        child = c
        for p_ in sm.parents(c):
            if isinstance(p_, ast.If) and child in p_.body:
                for t in ast.walk(p_.test):
                    if isinstance(t, ast.Compare) and len(t.ops) == 1 and isinstance(t.ops[0], (ast.In, ast.NotIn)) and norm(t.comparators[0]) == x \
                            and isinstance(t.left, ast.Constant) and t.left.value in (":", "://"):
                        # `":" not in x`, or `not ":" in x`
                        neg = isinstance(t.ops[0], ast.NotIn) or isinstance(sm.parent.get(id(t)), ast.UnaryOp)
                        guarded = guarded or neg
                    if isinstance(t, ast.Attribute) and t.attr == "scheme" and x in norm(t):
                        guarded = True
                    # `not SCHEME.match(x)`, SCHEME a module-level compiled pattern for "<scheme>:" (letters first, a literal colon last, anchored by match())
                    if isinstance(t, ast.UnaryOp) and isinstance(t.op, ast.Not) and isinstance(t.operand, ast.Call) and isinstance(t.operand.func, ast.Attribute) \
                            and t.operand.func.attr in ("match", "fullmatch") and t.operand.args and norm(t.operand.args[0]) == x and isinstance(t.operand.func.value, ast.Name):
                        pat = None
                        for st in sm.tree.body:
                            if isinstance(st, ast.Assign) and norm(st.targets[0]) == t.operand.func.value.id and isinstance(st.value, ast.Call) and norm(st.value.func) in ("re.compile", "compile") \
                                    and st.value.args and isinstance(st.value.args[0], ast.Constant) and isinstance(st.value.args[0].value, str):
                                pat = st.value.args[0].value
                        if pat is not None:
                            import re._parser as _sre
                            items = list(_sre.parse(pat))
                            first_ok = bool(items) and str(items[0][0]) == "IN" and any(str(k) == "RANGE" and v == (ord("A"), ord("Z")) or str(k) == "RANGE" and v == (ord("a"), ord("z")) for k, v in items[0][1])
                            last_ok = bool(items) and str(items[-1][0]) == "LITERAL" and items[-1][1] == ord(":")
                            mid_ok = all(str(k) in ("IN", "MAX_REPEAT", "MIN_REPEAT") for k, _ in items[1:-1])
                            no_delims = not any(ch in pat for ch in "/?#")
                            guarded = guarded or (first_ok and last_ok and mid_ok and no_delims and t.operand.func.attr == "match")
            if p_ is af:
                break
            child = p_
        rep.ob("C07.f-sparql-absolute-iri-not-rebased", sm, "Prologue.absolutize", c, guarded,
               "only scheme-less references are resolved" if guarded else
               "%s is resolved against BASE without a test that it is relative: with BASE <http://example/> the absolute IRI <http://example/a?> (the n3() text of that term) is read as <http://example/a>" % x, node=c)
    if nf == 0:
        rep.ob("C07.f-sparql-absolute-iri-not-rebased", sm, "Prologue.absolutize", "no base resolution through URIRef(base=)", True, "resolution not delegated to urljoin", node=af)


_run_base = run


def run(repo: Repo, rep: Report) -> None:  # noqa: F811
    _run_base(repo, rep)
    # ------------------------------------------------------------------ (g)
    rep.rule("C07.g-sparql-text-parsed-with-tabs",
             "pyparsing's parse_string() expands the tabs of its input to spaces unless parseWithTabs() was called on the expression it is invoked on (documented behaviour); "
             "SPARQL string literals may contain a raw tab (it is what Literal.n3() writes), so every grammar element that parseQuery/parseUpdate call parse_string on is set "
             "to parse with tabs (as the TSV result grammar of the same package already is)", floor=2)
    pm = repo.mod("rdflib.plugins.sparql.parser")
    alias = {}
    for st in pm.tree.body:
        if isinstance(st, ast.Assign) and isinstance(st.value, ast.Name) and isinstance(st.targets[0], ast.Name):
            alias[st.targets[0].id] = st.value.id

    def root(n: str) -> str:
        seen = set()
        while n in alias and n not in seen:
            seen.add(n)
            n = alias[n]
        return n

    with_tabs = set()
    for c in ast.walk(pm.tree):
        if isinstance(c, ast.Call) and isinstance(c.func, ast.Attribute) and c.func.attr in ("parseWithTabs", "parse_with_tabs") and isinstance(c.func.value, ast.Name):
            with_tabs.add(root(c.func.value.id))
    n_entry = 0
    for fn in ("parseQuery", "parseUpdate"):
        f = pm.func(fn)
        for c in own_nodes(f):
            if isinstance(c, ast.Call) and isinstance(c.func, ast.Attribute) and c.func.attr in ("parse_string", "parseString") and isinstance(c.func.value, ast.Name):
                n_entry += 1
                el = c.func.value.id
                ok = root(el) in with_tabs
                rep.ob("C07.g-sparql-text-parsed-with-tabs", pm, fn, c, ok,
                       "%s parses with tabs" % el if ok else
                       "%s.parse_string() runs on a copy of the request in which every tab was replaced by spaces: the literal `a<TAB>b` in quotes (the n3() text of a literal with a tab) is read as 'a' + spaces + 'b'" % el, node=c)
    if n_entry == 0:
        raise AnalysisError("parseQuery/parseUpdate: parse_string call not found")

    # ------------------------------------------------------------------ (h)
    rep.rule("C07.h-from-n3-covers-what-n3-writes",
             "util.from_n3 has a branch for every bare form Identifier.n3() writes: `?name` is read as a Variable (not swallowed by the fall-through that makes a blank node of "
             "any other text), and a decimal shorthand is not converted through float() (a decimal has arbitrary precision; float's repr of a large one is exponent notation, "
             "which is not a decimal lexical form)", floor=2)
    um = repo.mod("rdflib.util")
    f = um.func("from_n3")
    var_branch = [n for n in own_nodes(f) if isinstance(n, ast.If) and 'startswith("?")' in norm(n.test).replace("'", '"')
                  and any(isinstance(r, ast.Return) and r.value is not None and "Variable" in norm(r.value) for r in n.body)]
    rep.ob("C07.h-from-n3-covers-what-n3-writes", um, "from_n3", "`?name` -> Variable", bool(var_branch),
           "" if var_branch else "no branch for the n3() form of a Variable: from_n3('?v') falls through to BNode('?v')", node=f)
    dec = [c for c in own_nodes(f) if isinstance(c, ast.Call) and norm(c.func).endswith("Literal") and any(k.arg == "datatype" and norm(k.value).endswith("XSD.decimal") for k in c.keywords)]
    if not dec:
        raise AnalysisError("from_n3: decimal shorthand branch not found")
    for c in dec:
        through_float = any(isinstance(x, ast.Call) and norm(x.func) == "float" for a in c.args for x in ast.walk(a))
        rep.ob("C07.h-from-n3-covers-what-n3-writes", um, "from_n3", c, not through_float,
               "exact" if not through_float else "the decimal is built from float(s): from_n3('100000000000000000000000.5') gives the lexical form 1.0000000000000001e+23 (not a decimal lexical form), and digits beyond double precision are lost", node=c)


# ====================================================================== third layer: rules (i) - (q)
# Structural conditions pinned after the audit round (F121-F141): how Literal() treats lexical forms, what n3()/the
# Turtle shorthand may write, and the laws of the literal order.  Helpers live in vlib/h_c07.py.

from typing import Optional  # noqa: E402

from vlib import h_c07 as H  # noqa: E402

_run_base2 = run

# converters that take more than the XSD lexical space of the datatype they are registered for (rule k).  The reason is
# the documented behaviour of the callable; a datatype mapped to one of them needs a pattern in term._lexical_spaces.
_LENIENT_CONVERTERS = {
    "int": "int() takes '1_000', non-ASCII digits and any Unicode white space around the number",
    "float": "float() takes 'Infinity', 'nan', 'inf', '1_0.0', non-ASCII digits",
    "Decimal": "Decimal() takes '1e3', 'Infinity', 'sNaN', '1_000', non-ASCII digits",
    "parse_time": "time.fromisoformat / isodate take reduced precision ('2000' is 20:00), basic format",
    "parse_datetime": "datetime.fromisoformat / isodate take a date without time, basic format, week dates, a blank for 'T'",
    "parse_date": "date.fromisoformat / isodate take basic format and week dates",
    "parse_xsd_date": "delegates to the ISO 8601 date parser (basic format, week dates)",
    "parse_xsd_duration": "takes the ISO 8601 alternative format PYYYY-MM-DDThh:mm:ss and a decimal comma",
}
_B64_REASON = "base64.b64decode() silently drops every character outside the base64 alphabet unless validate=True"


def _self_param(fn: ast.FunctionDef) -> str:
    return fn.args.args[0].arg


def _second_param(fn: ast.FunctionDef) -> str:
    if len(fn.args.args) < 2:
        raise AnalysisError("%s has no operand parameter" % fn.name)
    return fn.args.args[1].arg


def run(repo: Repo, rep: Report) -> None:  # noqa: F811
    _run_base2(repo, rep)
    tm = repo.mod("rdflib.term")
    lm = tm.methods("Literal")
    _rule_i_constructor(repo, rep, tm, lm)
    _rule_j_duration_sign(repo, rep)
    _rule_k_converters(repo, rep, tm, lm)
    _rule_l_backslash_parity(repo, rep)
    _rule_m_plain_types(repo, rep, tm)
    _rule_n_written_text(repo, rep, tm, lm)
    _rule_o_p_q_order(repo, rep, tm, lm)


# ---------------------------------------------------------------------- (i)
def _top_arm(fn: ast.FunctionDef, mod, node: ast.AST) -> list[ast.stmt]:
    """the arm (statement list) of the outermost if/elif chain of fn's body that contains node"""
    chain = [p for p in mod.parents(node)]
    top = None
    for p in chain:
        if p is fn:
            break
        top = p
    inside = {id(x) for x in [node] + chain}
    cur = top
    while isinstance(cur, ast.If):
        if any(id(s) in inside for s in cur.body):
            return cur.body
        if len(cur.orelse) == 1 and isinstance(cur.orelse[0], ast.If) and id(cur.orelse[0]) in inside:
            cur = cur.orelse[0]
            continue
        return cur.orelse
    raise AnalysisError("%s: statement at line %s is not inside an if-arm of the function body" % (fn.name, getattr(node, "lineno", "?")))


def _rule_i_constructor(repo: Repo, rep: Report, tm, lm) -> None:
    rid = "C07.i-lexical-form-checked-and-kept"
    rep.rule(rid,
             "Literal.__new__: every arm that interprets a lexical form under a datatype (_castLexicalToPython(<lexical>, ...)) also decides ill-typedness there "
             "(Literal(<Literal>, datatype=) took a short cut: '01'^^xsd:integer from the SPARQL parser stayed '01' while the Turtle parser gave '1'), and replaces the "
             "lexical form by the canonical form of the value (_castPythonToLiteral) only under `not <ill-typed flag>` ('yes'^^xsd:boolean became 'false') and "
             "`not _value_is_approximate(...)` ('2000-01-01Z'^^xsd:date lost its time zone): otherwise the term read back from n3() text is another term", floor=3)
    new = lm.get("__new__")
    if new is None:
        raise AnalysisError("Literal.__new__ vanished")
    rep.analysed("rdflib/term.py:Literal.__new__")
    lex = _second_param(new)
    flags = {norm(n.value) for n in own_nodes(new) if isinstance(n, ast.Assign) and isinstance(n.targets[0], ast.Attribute)
             and n.targets[0].attr == "_ill_typed" and isinstance(n.value, ast.Name)}
    if len(flags) != 1:
        raise AnalysisError("Literal.__new__: the name stored to ._ill_typed not found (%s)" % sorted(flags))
    flag = flags.pop()
    sites = [c for c in own_nodes(new) if isinstance(c, ast.Call) and norm(c.func) == "_castLexicalToPython" and c.args and norm(c.args[0]) == lex]
    if not sites:
        raise AnalysisError("Literal.__new__: no _castLexicalToPython(%s, ...) call" % lex)
    for c in sites:
        arm = _top_arm(new, tm, c)
        arm_nodes = [x for s in arm for x in ast.walk(s)]
        par_ = tm.parent.get(id(c))
        vname = norm(par_.targets[0]) if isinstance(par_, ast.Assign) and isinstance(par_.targets[0], ast.Name) else None
        # (1) ill-typedness decided in this arm
        decides = any(isinstance(x, (ast.Assign, ast.AnnAssign)) and any(isinstance(t, ast.Name) and t.id == flag for t in (x.targets if isinstance(x, ast.Assign) else [x.target]))
                      for x in arm_nodes)
        rep.ob(rid, tm, "Literal.__new__", "%s: ill-typedness decided in the same arm" % norm(c), decides,
               "" if decides else "this arm takes the value of a lexical form under the datatype without checking that the form is in the lexical space (%s stays None) and "
               "without normalising it: Literal(Literal('01'), datatype=XSD.integer) - what the SPARQL parser builds for \"01\"^^xsd:integer - is not the term "
               "Literal('01', datatype=XSD.integer) the Turtle parser builds" % flag, node=c)
        # (2) canonical form only for a well-typed form with an exact value
        canon_names = set()
        for x in arm_nodes:
            if isinstance(x, ast.Assign) and isinstance(x.value, ast.Call) and norm(x.value.func) == "_castPythonToLiteral" and x.value.args and norm(x.value.args[0]) == vname:
                canon_names |= {n.id for t in x.targets for n in ast.walk(t) if isinstance(n, ast.Name)}
        repl = [x for x in arm_nodes if isinstance(x, ast.Assign) and norm(x.targets[0]) == lex and isinstance(x.value, ast.Name) and x.value.id in canon_names]
        if not repl:
            if decides:
                raise AnalysisError("Literal.__new__: the arm of %s does not normalise the lexical form - unmodelled" % norm(c))
            continue
        for x in repl:
            at = H.atoms(H.path_conds(tm, new, x))
            g_ill = any(isinstance(e, ast.Name) and e.id == flag and pol is False for e, pol in at)
            g_apx = any(isinstance(e, ast.Call) and norm(e.func) == "_value_is_approximate" and pol is False
                        and {norm(a) for a in e.args} >= {lex, vname} for e, pol in at)
            rep.ob(rid, tm, "Literal.__new__", "%s under `not %s`" % (norm(x), flag), g_ill,
                   "" if g_ill else "the canonical form of the value replaces the lexical form although the form may be ill-typed: the converters return a made-up value for some "
                   "ill-typed forms (_parseBoolean('yes') is False), so Literal('yes', datatype=XSD.boolean) becomes \"false\"^^xsd:boolean", node=x)
            rep.ob(rid, tm, "Literal.__new__", "%s under `not _value_is_approximate(%s, %s)`" % (norm(x), lex, vname), g_apx,
                   "" if g_apx else "the canonical form of the value replaces the lexical form although the Python value may be narrower than the XSD value: "
                   "Literal('2000-01-01Z', datatype=XSD.date) becomes '2000-01-01', '10:00:00.1234567'^^xsd:time loses its last digit", node=x)


# ---------------------------------------------------------------------- (j)
_YM_ATTRS = ("years", "months")
_DT_ATTRS = ("tdelta", "days", "seconds", "microseconds")


def _duration_part(D: "H.Defs", e: ast.AST, seen: frozenset = frozenset()) -> set[str]:
    """which part of a duration an expression measures: 'ym' (reads .years/.months) or 'dt' (reads .tdelta/.days/.seconds/
    .microseconds); local names are followed to their bindings"""
    out: set[str] = set()
    for x in ast.walk(e):
        if isinstance(x, ast.Attribute):
            if x.attr in _YM_ATTRS:
                out.add("ym")
            elif x.attr in _DT_ATTRS:
                out.add("dt")
        elif isinstance(x, ast.Name) and x.id not in seen and x.id not in D.params:  # (a re-bound parameter stays what its attributes say)
            for v in D.values(x.id):
                if v is not None:
                    out |= _duration_part(D, v, seen | {x.id})
    return out


def _sign_facts(mod, fn: ast.AST, D: "H.Defs", node: ast.AST) -> dict[str, set[str]]:
    """what the path condition of node says about the sign of the year/month part and of the day/time part"""
    facts: dict[str, set[str]] = {}

    def put(parts: set[str], sign: str) -> None:
        if len(parts) == 1:
            facts.setdefault(next(iter(parts)), set()).add(sign)

    for e, pol in H.atoms(H.path_conds(mod, fn, node)):
        if isinstance(e, ast.Compare) and len(e.ops) == 1 and isinstance(e.ops[0], (ast.Lt, ast.Gt)):
            l, r = e.left, e.comparators[0]
            lt = isinstance(e.ops[0], ast.Lt)
            if isinstance(l, ast.Constant) and l.value == 0:
                l, r, lt = r, l, not lt
            if isinstance(r, ast.Constant) and r.value == 0 and not isinstance(r.value, bool):
                sign = ("neg" if lt else "pos") if pol else ("nonneg" if lt else "nonpos")
                put(_duration_part(D, l), sign)
        elif isinstance(e, ast.Name):
            # a flag: set to True under a sign test somewhere before this point
            parts: set[str] = set()
            signs: set[str] = set()
            for st in H.earlier_siblings(mod, fn, node):
                for a in ast.walk(st):
                    if isinstance(a, ast.Assign) and any(isinstance(t, ast.Name) and t.id == e.id for t in a.targets) \
                            and isinstance(a.value, ast.Constant) and a.value.value is True:
                        inner = _sign_facts(mod, fn, D, a)
                        for p_, s_ in inner.items():
                            if s_ & {"neg", "pos"}:
                                parts.add(p_)
                                signs |= s_ & {"neg", "pos"}
            if len(parts) == 1 and len(signs) == 1:
                s = next(iter(signs))
                put(parts, s if pol else ("nonneg" if s == "neg" else "nonpos"))
    return facts


def _rule_j_duration_sign(repo: Repo, rep: Report) -> None:
    rid = "C07.j-duration-rejects-only-mixed-signs"
    rep.rule(rid,
             "rdflib/xsd_datetime.py: a `raise` whose path condition fixes the sign of both the year/month part and the day/time part of a duration is reached only when the "
             "two signs are opposite; -P1Y1D (both parts negative) is a valid xsd:duration whose value and canonical form must be computable, otherwise the literal has no "
             "value and is not the term its lexical form denotes", floor=2)
    xm = repo.mod("rdflib.xsd_datetime")
    n = 0
    for q, fn in xm.functions():
        D = H.Defs(fn)
        for r in own_nodes(fn):
            if not isinstance(r, ast.Raise):
                continue
            facts = _sign_facts(xm, fn, D, r)
            if not ("ym" in facts and "dt" in facts):
                continue
            n += 1
            rep.analysed("rdflib/xsd_datetime.py:" + q)
            same = bool({"neg"} <= facts["ym"] and {"neg"} <= facts["dt"]) or bool({"pos"} <= facts["ym"] and {"pos"} <= facts["dt"])
            rep.ob(rid, xm, q, "raise under year/month %s, day/time %s" % ("+".join(sorted(facts["ym"])), "+".join(sorted(facts["dt"]))), not same,
                   "mixed signs only" if not same else "a duration whose parts have the same sign is rejected: Literal('-P1Y1D', datatype=XSD.duration) "
                   "(parse_xsd_duration negates both parts) raises here, so the literal gets no value / no canonical form", node=r)
    if n == 0:
        raise AnalysisError("xsd_datetime: no sign-dependent raise found (duration_isoformat changed shape)")


# ---------------------------------------------------------------------- (k)
def _dict_entries(tm, name: str) -> list[tuple[ast.expr, ast.expr]]:
    vals = H.module_assigns(tm).get(name, [])
    out: list[tuple[ast.expr, ast.expr]] = []
    for v in vals:
        if isinstance(v, ast.Dict):
            out += [(k, x) for k, x in zip(v.keys, v.values) if k is not None]
    return out


def _lexical_space_table(repo: Repo, tm, xsd_to_python: list[tuple[str, ast.expr]]) -> dict[str, ast.expr]:
    """datatype IRI -> pattern expression of term._lexical_spaces: the dict display plus the
    `_lexical_spaces.update((URIRef(k), PAT) for k, v in XSDToPython.items() if v in (...))` idiom, evaluated on the table"""
    table: dict[str, ast.expr] = {}
    for k, v in _dict_entries(tm, "_lexical_spaces"):
        iri = H.fold_str(repo, tm, k)
        if iri is None:
            raise AnalysisError("_lexical_spaces: key %s is not a constant IRI" % norm(k))
        table[iri] = v
    for st in tm.tree.body:
        if not (isinstance(st, ast.Expr) and isinstance(st.value, ast.Call) and norm(st.value.func) == "_lexical_spaces.update"):
            continue
        a = st.value.args[0] if st.value.args else None
        ok = isinstance(a, ast.GeneratorExp) and len(a.generators) == 1 and norm(a.generators[0].iter) == "XSDToPython.items()" \
            and isinstance(a.generators[0].target, ast.Tuple) and len(a.generators[0].target.elts) == 2 and isinstance(a.elt, ast.Tuple) and len(a.elt.elts) == 2
        if not ok:
            raise AnalysisError("_lexical_spaces.update(%s): unmodelled" % norm(a) if a is not None else "?")
        g = a.generators[0]
        kname, vname = norm(g.target.elts[0]), norm(g.target.elts[1])
        if not any(isinstance(x, ast.Name) and x.id == kname for x in ast.walk(a.elt.elts[0])):
            raise AnalysisError("_lexical_spaces.update: key expression %s does not use the datatype" % norm(a.elt.elts[0]))
        wanted: Optional[set[str]] = None
        for cond in g.ifs:
            if isinstance(cond, ast.Compare) and len(cond.ops) == 1 and isinstance(cond.ops[0], ast.In) and norm(cond.left) == vname \
                    and isinstance(cond.comparators[0], (ast.Tuple, ast.List, ast.Set)):
                wanted = {H.root_callable(repo, tm, e)[0].rsplit(".", 1)[-1] for e in cond.comparators[0].elts}
            else:
                raise AnalysisError("_lexical_spaces.update: filter %s unmodelled" % norm(cond))
        for iri, conv in xsd_to_python:
            if wanted is None or (isinstance(conv, ast.Name) and H.root_callable(repo, tm, conv)[0].rsplit(".", 1)[-1] in wanted):
                table.setdefault(iri, a.elt.elts[1])
    return table


def _regex_categories(pattern: str) -> set[str]:
    import re._parser as sre  # type: ignore[import-not-found]

    out: set[str] = set()

    def walk(items) -> None:
        for op, av in items:
            name = str(op)
            if name == "CATEGORY":
                out.add(str(av))
            elif name == "ANY":
                out.add("ANY")
            if isinstance(av, (list, tuple)):
                for x in av:
                    if hasattr(x, "data"):
                        walk(x.data)
                    elif isinstance(x, (list, tuple)):
                        if len(x) == 2 and not isinstance(x[0], (list, tuple)) and str(x[0]).isupper():
                            walk([x])
                        else:
                            for y in x:
                                if hasattr(y, "data"):
                                    walk(y.data)
                                elif isinstance(y, (list, tuple)) and len(y) == 2 and str(y[0]).isupper():
                                    walk([y])
            elif hasattr(av, "data"):
                walk(av.data)

    walk(sre.parse(pattern).data)
    return out


def _rule_k_converters(repo: Repo, rep: Report, tm, lm) -> None:
    rid = "C07.k-lexical-space-not-left-to-lenient-converter"
    rep.rule(rid,
             "every recognised datatype whose lexical-to-value converter in term.XSDToPython accepts more than the XSD lexical space (the Python constructors int/float/Decimal: "
             "'1_000', non-ASCII digits, 'Infinity', '1e3'^^xsd:decimal; the ISO 8601 parsers: '2000'^^xsd:time, basic format, week dates, a bare date for a dateTime) has a pattern "
             "in term._lexical_spaces, a pattern is free of Unicode-wide classes (\\d, \\w, \\s), Literal.__new__ makes the ill-typed flag depend on that table through a full match, "
             "and base64 text is decoded with validate=True: else an ill-typed form gets a value, is taken for well-typed and is rewritten to the canonical form of that value, "
             "i.e. the text of one term is read back as another term", floor=30)
    x2p = []
    for k, v in _dict_entries(tm, "XSDToPython"):
        if isinstance(k, ast.Constant) and k.value is None:
            continue
        iri = H.fold_str(repo, tm, k)
        if iri is None:
            raise AnalysisError("XSDToPython: key %s is not a constant IRI" % norm(k))
        x2p.append((iri, v))
    if len(x2p) < 25:
        raise AnalysisError("XSDToPython: only %d entries found" % len(x2p))
    table = _lexical_space_table(repo, tm, x2p)
    n_b64 = 0
    for iri, conv in x2p:
        if isinstance(conv, ast.Constant) and conv.value is None:
            continue
        if not isinstance(conv, ast.Name):
            raise AnalysisError("XSDToPython[%s]: converter %s unmodelled" % (iri, norm(conv)))
        root, where = H.root_callable(repo, tm, conv)
        last = root.rsplit(".", 1)[-1]
        short = iri.rsplit("#", 1)[-1]
        if last in _LENIENT_CONVERTERS:
            ok = iri in table
            rep.ob(rid, tm, "XSDToPython", "%s -> %s: pattern in _lexical_spaces" % (short, last), ok,
                   "" if ok else "%s; no pattern restricts the lexical forms of %s, so such a form is well-typed for Literal() and is replaced by the canonical form of its value" % (_LENIENT_CONVERTERS[last], short),
                   node=conv)
        elif last == "b64decode":
            n_b64 += 1
            rep.ob(rid, tm, "XSDToPython", "%s -> %s" % (short, root), False,
                   "%s: Literal('AA=!=', datatype=XSD.base64Binary) gets the value b'\\x00' and the lexical form 'AA=='" % _B64_REASON, node=conv)
        elif where is not None:
            fn = where.defs.get(last)
            for c in ast.walk(fn) if fn is not None else []:
                if isinstance(c, ast.Call) and H.root_callable(repo, where, c.func)[0].rsplit(".", 1)[-1] == "b64decode":
                    n_b64 += 1
                    ok = any(kw.arg == "validate" and isinstance(kw.value, ast.Constant) and kw.value.value is True for kw in c.keywords)
                    rep.ob(rid, where, last, c, ok, "" if ok else _B64_REASON + ": an ill-typed xsd:base64Binary form gets a value and is normalised to other text", node=c)
    if n_b64 == 0:
        raise AnalysisError("XSDToPython: no base64 decoder found")
    # the patterns themselves
    seen_pat: set[str] = set()
    for iri, pe in sorted(table.items()):
        ptxt = H.fold_str(repo, tm, pe, wrappers=("URIRef", "str", "re.compile", "compile"))
        if ptxt is None and isinstance(pe, ast.Call) and norm(pe.func) in ("re.compile", "compile") and pe.args:
            ptxt = H.fold_str(repo, tm, pe.args[0])
        if ptxt is None and isinstance(pe, ast.Name):
            vals = H.module_assigns(tm).get(pe.id, [])
            if len(vals) == 1 and isinstance(vals[0], ast.Call) and norm(vals[0].func) in ("re.compile", "compile") and vals[0].args:
                ptxt = H.fold_str(repo, tm, vals[0].args[0])
        if ptxt is None:
            raise AnalysisError("_lexical_spaces[%s]: pattern %s is not a constant" % (iri, norm(pe)))
        if ptxt in seen_pat:
            continue
        seen_pat.add(ptxt)
        cats = {c for c in _regex_categories(ptxt) if c.startswith("CATEGORY")}
        rep.ob(rid, tm, "_lexical_spaces", "pattern %s" % ptxt, not cats,
               "ASCII classes only" if not cats else "the pattern uses %s, which in a str pattern match non-ASCII characters (\\d matches the Arabic-Indic digits int() also takes): "
               "'١'^^xsd:integer stays well-typed and is rewritten to '1'" % sorted(cats), node=pe)
    # Literal.__new__ consults the table, by a full match
    new = lm["__new__"]
    D = H.Defs(new)
    flag_assigns = [n for n in own_nodes(new) if isinstance(n, ast.Assign) and isinstance(n.targets[0], ast.Attribute) and n.targets[0].attr == "_ill_typed"]
    consult = []
    for fa in flag_assigns:
        fname = norm(fa.value)
        for v in D.values(fname):
            if v is None:
                continue
            for c in ast.walk(ast.parse(D.expand(v), mode="eval")):
                if isinstance(c, ast.Call) and isinstance(c.func, ast.Name) and isinstance(tm.defs.get(c.func.id), ast.FunctionDef):
                    body = tm.func(c.func.id)
                    if any(isinstance(x, ast.Name) and x.id == "_lexical_spaces" for x in ast.walk(body)):
                        consult.append(body)
    ok = bool(consult)
    rep.ob(rid, tm, "Literal.__new__", "the ill-typed flag depends on _lexical_spaces", ok,
           "" if ok else "Literal.__new__ decides ill-typedness from the converter's success alone: every form the lenient Python / ISO 8601 converters accept is well-typed", node=new)
    for body in consult[:1]:
        full = any(isinstance(c, ast.Call) and isinstance(c.func, ast.Attribute) and c.func.attr == "fullmatch" for c in ast.walk(body))
        rep.ob(rid, tm, body.name, "the pattern is applied with fullmatch", full,
               "" if full else "%s applies the pattern with match()/search(): a form with a valid prefix ('1_000', '12abc') is in the lexical space" % body.name, node=body)


# ---------------------------------------------------------------------- (l)
def _rule_l_backslash_parity(repo: Repo, rep: Report) -> None:
    rid = "C07.l-escapedness-by-parity"
    rep.rule(rid,
             "a function that writes text in which the backslash escapes itself (it doubles backslashes: .replace('\\\\', '\\\\\\\\')) never decides whether a character is already "
             "escaped by looking at ONE neighbouring character (x[-2] != '\\\\', x.endswith('\\\\')): after an escaped backslash the neighbour is a backslash too, only the parity of "
             "the run tells.  Literal('a\\n\\\\\"').n3() ended in \\\\\"\"\"\" - the final quote closed the long string early and the text did not read back", floor=2)
    n = 0
    for _, mod in sorted(repo.modules.items()):
        for q, fn in mod.functions():
            doubles = [c for c in own_nodes(fn) if isinstance(c, ast.Call) and isinstance(c.func, ast.Attribute) and c.func.attr == "replace" and len(c.args) == 2
                       and all(isinstance(a, ast.Constant) for a in c.args) and c.args[0].value in ("\\", b"\\") and c.args[1].value in ("\\\\", b"\\\\")]
            if not doubles:
                continue
            n += 1
            rep.analysed("%s:%s" % (mod.rel, q))
            bad = []
            for c in own_nodes(fn):
                if isinstance(c, ast.Compare) and len(c.ops) == 1 and isinstance(c.ops[0], (ast.Eq, ast.NotEq)):
                    sides = [c.left, c.comparators[0]]
                    if any(isinstance(s, ast.Constant) and s.value in ("\\", b"\\") for s in sides) and \
                            any(isinstance(s, ast.Subscript) and not isinstance(s.slice, ast.Slice) for s in sides):
                        bad.append(c)
                if isinstance(c, ast.Call) and isinstance(c.func, ast.Attribute) and c.func.attr in ("endswith", "startswith") and c.args \
                        and isinstance(c.args[0], ast.Constant) and c.args[0].value in ("\\", b"\\"):
                    bad.append(c)
            if not bad:
                rep.ob(rid, mod, q, "no single-character test for 'already escaped'", True, "", node=fn)
            for c in bad:
                rep.ob(rid, mod, q, c, False,
                       "%s reads one character to decide whether the next one is escaped; in this text a backslash may itself be the second half of an escaped backslash: "
                       "for the lexical form 'a<LF>\\\\\"' (ends in backslash, quote) the final quote is left unescaped and runs into the closing quotes" % norm(c), node=c)
    if n == 0:
        raise AnalysisError("no function doubling backslashes found (Literal._quote_encode changed shape)")


# ---------------------------------------------------------------------- (m)
def _rule_m_plain_types(repo: Repo, rep: Report, tm) -> None:
    rid = "C07.m-shorthand-types-have-a-token"
    rep.rule(rid,
             "every datatype in term._PLAIN_LITERAL_TYPES (those Literal._literal_n3(use_plain=True) may write as a bare token) is a datatype the Turtle-family parser gives to a "
             "bare token (the Literal(..., datatype=) constructions of notation3.RDFSink.normalise): owl:rational has no token - a bare -3 is read back as xsd:integer and a "
             "bare 1/2 is a syntax error", floor=4)
    vals = H.module_assigns(tm).get("_PLAIN_LITERAL_TYPES", [])
    if len(vals) != 1 or not isinstance(vals[0], (ast.Tuple, ast.List)):
        raise AnalysisError("term._PLAIN_LITERAL_TYPES is not a tuple display")
    nm = repo.mod("rdflib.plugins.parsers.notation3")
    nf = nm.func("RDFSink.normalise")
    rep.analysed("rdflib/plugins/parsers/notation3.py:RDFSink.normalise")
    read: set[str] = set()
    for c in own_nodes(nf):
        if isinstance(c, ast.Call) and norm(c.func) == "Literal":
            for kw in c.keywords:
                if kw.arg == "datatype":
                    iri = H.fold_str(repo, nm, kw.value)
                    if iri is None:
                        raise AnalysisError("RDFSink.normalise: datatype %s is not a constant" % norm(kw.value))
                    read.add(iri)
    if len(read) < 4:
        raise AnalysisError("RDFSink.normalise: bare-token datatypes not found (%s)" % sorted(read))
    for e in vals[0].elts:
        iri = H.fold_str(repo, tm, e)
        if iri is None:
            raise AnalysisError("_PLAIN_LITERAL_TYPES: %s is not a constant IRI" % norm(e))
        ok = iri in read
        rep.ob(rid, tm, "_PLAIN_LITERAL_TYPES", "%s (%s)" % (norm(e), iri), ok,
               "a bare token of the parser" if ok else "no bare token of the Turtle / N3 / SPARQL grammars is read as <%s>: a literal of this type written without quotes and datatype "
               "comes back as a term of another datatype or does not parse (Literal(Fraction(-3)) -> -3 -> xsd:integer)" % iri, node=e)


# ---------------------------------------------------------------------- (n)
def _own_text(mod, fn: ast.AST, at: ast.AST, e: ast.AST, selfname: str, depth: int = 0) -> bool:
    """e, evaluated at statement `at`, is the literal's own lexical form: str(self), f"{self}", self, or a local name whose
    bindings reaching `at` are all such"""
    if depth > 6:
        return False
    if isinstance(e, ast.Name):
        if e.id == selfname:
            return True
        vals = H.reaching_values(mod, fn, at, e.id)
        return bool(vals) and all(v is not None and _own_text(mod, fn, at, v, selfname, depth + 1) for v in vals)
    if isinstance(e, ast.JoinedStr):
        return len(e.values) == 1 and isinstance(e.values[0], ast.FormattedValue) and e.values[0].format_spec is None \
            and e.values[0].conversion in (-1, 115) and _own_text(mod, fn, at, e.values[0].value, selfname, depth + 1)
    if isinstance(e, ast.Call) and not e.keywords:
        f = norm(e.func)
        if f in ("str", "str.__str__") and len(e.args) == 1:
            return _own_text(mod, fn, at, e.args[0], selfname, depth + 1)
        if f == selfname + ".__str__" and not e.args:
            return True
    return False


def _subst_name(e: ast.AST, name: str, value: Optional[ast.AST], placeholder: str = "TOKEN") -> str:
    """text of e with the local `name` replaced by the expression it is bound to (or a placeholder): independent of how locals are called"""
    import copy

    class T(ast.NodeTransformer):
        def visit_Name(self, n: ast.Name):  # noqa: N802
            if n.id == name:
                return copy.deepcopy(value) if value is not None else ast.Name(id=placeholder, ctx=ast.Load())
            return n

    return norm(T().visit(copy.deepcopy(e)))


def _not_ill_typed(at: list, selfname: str) -> bool:
    for e, pol in at:
        if isinstance(e, ast.Attribute) and e.attr in ("ill_typed", "_ill_typed") and norm(e.value) == selfname and pol is False:
            return True
        if isinstance(e, ast.Compare) and len(e.ops) == 1 and isinstance(e.left, ast.Attribute) and e.left.attr in ("ill_typed", "_ill_typed") \
                and norm(e.left.value) == selfname and isinstance(e.comparators[0], ast.Constant):
            c, op = e.comparators[0].value, e.ops[0]
            if c is False and isinstance(op, (ast.Is, ast.Eq)) and pol:
                return True
            if c is True and isinstance(op, (ast.Is, ast.Eq)) and not pol:
                return True
            if c is True and isinstance(op, (ast.IsNot, ast.NotEq)) and pol:
                return True
    return False


def _rule_n_written_text(repo: Repo, rep: Report, tm, lm) -> None:
    rid = "C07.n-written-text-is-the-lexical-form"
    rep.rule(rid,
             "Literal._literal_n3 writes the literal's own lexical form: (1) a bare token of the Turtle shorthand is the text of the literal itself (str(self) / f'{self}', possibly "
             "after tests on it), never a text derived from it (s += '.0' wrote \"1\"^^xsd:decimal as 1.0; .lower() / the value wrote \"1\"^^xsd:boolean as 1, an integer) - "
             "the parser takes the token for the lexical form; (2) the shorthand is used only for literals that are not ill-typed (an ill-typed form is not a token of the grammar); "
             "(3) in the quoted form the text bound from self._quote_encode() is not rewritten afterwards", floor=5)
    fn = lm.get("_literal_n3")
    if fn is None:
        raise AnalysisError("Literal._literal_n3 vanished")
    rep.analysed("rdflib/term.py:Literal._literal_n3")
    me = _self_param(fn)
    blocks = [s for s in own_nodes(fn) if isinstance(s, ast.If) and any(isinstance(x, ast.Name) and x.id == "_PLAIN_LITERAL_TYPES" for x in ast.walk(s.test))]
    if len(blocks) != 1:
        raise AnalysisError("Literal._literal_n3: the shorthand block (test on _PLAIN_LITERAL_TYPES) not found once (%d)" % len(blocks))
    blk = blocks[0]
    rets = [r for s in blk.body for r in ast.walk(s) if isinstance(r, ast.Return) and r.value is not None
            and not (isinstance(r.value, ast.Call) and norm(r.value.func) == me + "._literal_n3")]
    if not rets:
        raise AnalysisError("Literal._literal_n3: the shorthand block returns no bare token")
    for r in rets:
        ok = _own_text(tm, fn, r, r.value, me)
        shown = norm(r.value)
        one = None
        if isinstance(r.value, ast.Name):
            rv = H.reaching_values(tm, fn, r, r.value.id)
            shown = " | ".join("<augmented>" if v is None else norm(v) for v in rv) or shown
            one = rv[0] if len(rv) == 1 and rv[0] is not None else None
        # the tests the token went through inside the block (part of the construct: a tested and an untested token differ)
        tested = []
        for e, pol in H.atoms(H.path_conds(tm, blk, r)):
            if isinstance(r.value, ast.Name) and any(isinstance(x, ast.Name) and x.id == r.value.id for x in ast.walk(e)):
                tested.append(("" if pol else "not ") + _subst_name(e, r.value.id, one))
        if tested:
            shown += " [tested: %s]" % "; ".join(tested)
        rep.ob(rid, tm, "Literal._literal_n3", "bare token: %s" % shown, ok,
               "the literal's own text" if ok else "the token written is not the lexical form of the literal but a text computed from it (%s): the parser reads a bare token as "
               "the lexical form, so the term read back is another one whenever the two differ" % shown, node=r)
    unguarded = [r for r in rets if not _not_ill_typed(H.atoms(H.path_conds(tm, fn, r)), me)]
    rep.ob(rid, tm, "Literal._literal_n3", "bare tokens only for literals that are not ill-typed", not unguarded,
           "" if not unguarded else "the shorthand block is entered on `%s` alone; an ill-typed literal may have a value (the converters are lenient: '1_000'^^xsd:integer has the value 1000, "
           "'1e3'^^xsd:decimal, 'TRUE'^^xsd:boolean) and its lexical form is then written as a bare token: 1_000 does not parse, 1e3 is read back as an xsd:double"
           % " and ".join(norm(e) if pol else "not (%s)" % norm(e) for e, pol in H.atoms(H.path_conds(tm, fn, unguarded[0]))[:3]), node=blk)
    # (3) quoted path
    qnames = [norm(n.targets[0]) for n in own_nodes(fn) if isinstance(n, (ast.Assign,)) and isinstance(n.value, ast.Call) and norm(n.value.func) == me + "._quote_encode"
              and isinstance(n.targets[0], ast.Name)]
    qnames += [n.target.id for n in own_nodes(fn) if isinstance(n, ast.AnnAssign) and isinstance(n.value, ast.Call) and norm(n.value.func) == me + "._quote_encode" and isinstance(n.target, ast.Name)]
    if not qnames:
        raise AnalysisError("Literal._literal_n3: self._quote_encode() is not bound to a name")
    for q in sorted(set(qnames)):
        others = [n for n in own_nodes(fn) if isinstance(n, (ast.Assign, ast.AugAssign, ast.AnnAssign))
                  and any(isinstance(t, ast.Name) and t.id == q for t in (n.targets if isinstance(n, ast.Assign) else [n.target]))
                  and not (isinstance(getattr(n, "value", None), ast.Call) and norm(n.value.func) == me + "._quote_encode")]
        if not others:
            rep.ob(rid, tm, "Literal._literal_n3", "the quoted text is self._quote_encode(), unchanged", True, "", node=fn)
        for n in others:
            rep.ob(rid, tm, "Literal._literal_n3", "re-binds the quoted text: %s" % _subst_name(n.value, q, None, "QUOTED"), False,
                   "the quoted lexical form is rewritten after encoding: Literal('inf', datatype=XSD.double).n3() is \"INF\"^^xsd:double and Literal(Decimal('Infinity')).n3() is "
                   "\"INF\"^^xsd:decimal - read back, these are other terms than the ones written (the constructor already writes INF / NaN for float values; what is left are "
                   "ill-typed forms and Decimal('Infinity'), which must keep their text)", node=n)


# ---------------------------------------------------------------------- (o) (p) (q)
def _lang_of(D: "H.Defs", e: ast.AST, depth: int = 0) -> Optional[tuple[str, bool]]:
    """(whose, case-folded?) when e is the language tag of a literal: x.language / x._language, `... or ""`,
    `x._language.lower() if x._language else None`, .lower()/.casefold() of one, or a local name bound to one"""
    if depth > 6:
        return None
    if isinstance(e, ast.Attribute) and e.attr in ("language", "_language") and isinstance(e.value, ast.Name):
        return e.value.id, False
    if isinstance(e, ast.BoolOp) and isinstance(e.op, ast.Or) and len(e.values) == 2 and isinstance(e.values[1], ast.Constant):
        return _lang_of(D, e.values[0], depth + 1)
    if isinstance(e, ast.IfExp):
        return _lang_of(D, e.body, depth + 1)
    if isinstance(e, ast.Call) and isinstance(e.func, ast.Attribute) and not e.args and not e.keywords:
        inner = _lang_of(D, e.func.value, depth + 1)
        if inner is not None and e.func.attr in ("lower", "casefold", "upper"):
            return inner[0], True
        return None
    if isinstance(e, ast.Name):
        r = D.resolve(e)
        if r is not e:
            return _lang_of(D, r, depth + 1)
    return None


def _reads_of(D: "H.Defs", e: ast.AST, attrs: tuple[str, ...], depth: int = 0) -> set[str]:
    """whose <attrs> attribute the expression (local names followed) reads: {'self'}, {'other'}, ..."""
    out: set[str] = set()
    if depth > 6:
        return out
    for x in ast.walk(e):
        if isinstance(x, ast.Attribute) and x.attr in attrs and isinstance(x.value, ast.Name):
            out.add(x.value.id)
        elif isinstance(x, ast.Name) and x.id not in D.params:
            for v in D.values(x.id):
                if v is not None:
                    out |= _reads_of(D, v, attrs, depth + 1)
    return out


def _is_value_of(D: "H.Defs", e: ast.AST, who: str) -> bool:
    r = D.resolve(e) if isinstance(e, ast.Name) else e
    return isinstance(r, ast.Attribute) and r.attr in ("value", "_value") and isinstance(r.value, ast.Name) and r.value.id == who


def _rule_o_p_q_order(repo: Repo, rep: Report, tm, lm) -> None:
    # ---- (p) language tags are compared case-folded wherever two literals are compared
    rp = "C07.p-language-compared-casefolded"
    rep.rule(rp,
             "wherever a method of Literal compares the language tags of two literals (==, !=, <, >), both sides are case-folded, as in __eq__ and __hash__: "
             "'chat'@en and 'chat'@EN are equal, so neither may be greater than the other (sorted() / ORDER BY otherwise depend on the input order)", floor=5)
    for name, fn in sorted(lm.items()):
        D = H.Defs(fn)
        for c in own_nodes(fn):
            if not (isinstance(c, ast.Compare) and len(c.ops) == 1 and isinstance(c.ops[0], (ast.Eq, ast.NotEq, ast.Lt, ast.Gt, ast.LtE, ast.GtE))):
                continue
            a, b = _lang_of(D, c.left), _lang_of(D, c.comparators[0])
            if a is None or b is None or a[0] == b[0]:
                continue
            rep.analysed("rdflib/term.py:Literal." + name)
            ok = a[1] and b[1]
            rep.ob(rp, tm, "Literal." + name, "%s %s %s" % (D.expand(c.left), type(c.ops[0]).__name__, D.expand(c.comparators[0])), ok,
                   "case-folded on both sides" if ok else "the tags are compared as written: Literal('chat', lang='en') == Literal('chat', lang='EN') but this comparison tells them apart, "
                   "so one is ordered after the other / they are not comparable though equal", node=c)

    gt = lm.get("__gt__")
    lt = lm.get("__lt__")
    if gt is None or lt is None:
        raise AnalysisError("Literal.__gt__/__lt__ vanished")
    me, ot = _self_param(gt), _second_param(gt)
    D = H.Defs(gt)
    rep.analysed("rdflib/term.py:Literal.__gt__", "rdflib/term.py:Literal.__lt__")

    # numeric flags: a test (or a local bound to one) that says `<x>.datatype in _NUMERIC_LITERAL_TYPES`
    def numeric_flag_of(e: ast.AST) -> set[str]:
        txt = D.expand(e)
        if "_NUMERIC_LITERAL_TYPES" not in txt:
            return set()
        try:
            tree = ast.parse(txt, mode="eval")
        except SyntaxError:
            return set()
        who = set()
        for x in ast.walk(tree):
            if isinstance(x, ast.Compare) and len(x.ops) == 1 and isinstance(x.ops[0], ast.In) and norm(x.comparators[0]) == "_NUMERIC_LITERAL_TYPES":
                who |= {n.value.id for n in ast.walk(x.left) if isinstance(n, ast.Attribute) and isinstance(n.value, ast.Name)}
        return who

    # ---- (o) numbers are one block in the order of the datatypes
    ro = "C07.o-numbers-one-block-in-datatype-order"
    rep.rule(ro,
             "Literal.__gt__: numeric literals are ordered by value across datatypes, so a comparison that orders two literals by another key - the datatype IRIs, or the lexical "
             "forms - is reached only after it was decided that both or neither are numbers (a test `<numeric self> != <numeric other>` that returns); interleaving numbers with "
             "other literals by such a key breaks transitivity: 0 < 1.0e0 (value) < P1D (xsd:double < xsd:duration) < 0 (xsd:duration < xsd:integer)", floor=3)
    n_o = 0
    for c in own_nodes(gt):
        if not (isinstance(c, ast.Compare) and len(c.ops) == 1 and isinstance(c.ops[0], (ast.Gt, ast.Lt, ast.GtE, ast.LtE))):
            continue
        l, r = c.left, c.comparators[0]
        kind = None
        if _reads_of(D, l, ("datatype", "_datatype")) == {me} and _reads_of(D, r, ("datatype", "_datatype")) == {ot}:
            kind = "datatype IRI"
        elif isinstance(l, ast.Call) and isinstance(r, ast.Call) and norm(l.func) == "str" and norm(r.func) == "str" and norm(l.args[0]) == me and norm(r.args[0]) == ot:
            kind = "lexical form"
        if kind is None:
            continue
        n_o += 1
        at = H.atoms(H.path_conds(tm, gt, c))
        decided = False
        # (i) an earlier arm of the chain, or an earlier statement all of whose paths leave, tested the numeric flags for difference
        def is_flag_test(e: ast.AST) -> bool:
            return isinstance(e, ast.Compare) and len(e.ops) == 1 and isinstance(e.ops[0], (ast.NotEq, ast.IsNot)) \
                and numeric_flag_of(e.left) == {me} and numeric_flag_of(e.comparators[0]) == {ot}
        if any(is_flag_test(e) and pol is False for e, pol in at):
            decided = True
        for st in H.earlier_siblings(tm, gt, c):
            if isinstance(st, ast.If) and is_flag_test(st.test) and H.always_leaves(st.body):
                decided = True
        # (ii) datatype IRIs only: the (coalesced) datatypes were found equal before - the two are of one kind
        same_dt = False
        if kind == "datatype IRI":
            for st in H.earlier_siblings(tm, gt, c):
                if isinstance(st, ast.If) and isinstance(st.test, ast.Compare) and len(st.test.ops) == 1 and isinstance(st.test.ops[0], ast.NotEq) \
                        and _reads_of(D, st.test.left, ("datatype", "_datatype")) == {me} and _reads_of(D, st.test.comparators[0], ("datatype", "_datatype")) == {ot} \
                        and H.always_leaves(st.body):
                    same_dt = True
        ok = decided or same_dt
        rep.ob(ro, tm, "Literal.__gt__", "order by %s: %s" % (kind, D.expand(c)), ok,
               ("after the numbers were set apart" if decided else "datatypes already found equal") if ok else
               "two literals are ordered by their %s although one of them may be a number (ordered by value against the other numbers) and the other not: the order is not "
               "transitive - %s" % (kind, "0 < 1.0e0 < 'P1D'^^xsd:duration < 0" if kind == "datatype IRI" else
                                    "'5'^^xsd:integer < '20'^^xsd:integer (value) < '3x'^^xsd:integer (lexical form) < '5'^^xsd:integer (lexical form)"), node=c)
    if n_o == 0:
        raise AnalysisError("Literal.__gt__: no comparison by datatype IRI / lexical form found")

    # ---- (q) NaN, mirror, reflexivity
    rq = "C07.q-order-total-on-nan-and-mirrored"
    rep.rule(rq,
             "the literal order is a strict order also where values are not: (1) in the numeric arm of Literal.__gt__ a value comparison `a > b` is preceded by a NaN test of both "
             "operands (x != x) that returns - NaN > x and x > NaN are both False, and Decimal raises InvalidOperation; (2) Literal.__lt__(other) is other.__gt__(self), not "
             "`not self > other and not self.eq(other)`, which holds in both directions for unordered values; (3) __le__/__ge__ are mirror images and accept the same term "
             "(self == other), since value equality eq() is not reflexive (NaN)", floor=5)
    n_q = 0
    for c in own_nodes(gt):
        if not (isinstance(c, ast.Compare) and len(c.ops) == 1 and isinstance(c.ops[0], (ast.Gt, ast.Lt)) and _is_value_of(D, c.left, me) and _is_value_of(D, c.comparators[0], ot)):
            continue
        at = H.atoms(H.path_conds(tm, gt, c))
        if not any(pol and numeric_flag_of(e) for e, pol in at):
            continue  # not in the numeric arm: values of one non-numeric datatype
        n_q += 1
        covered: set[str] = set()
        for st in H.earlier_siblings(tm, gt, c):
            if isinstance(st, ast.If) and H.always_leaves(st.body):
                for x in ast.walk(st.test):
                    if isinstance(x, ast.Compare) and len(x.ops) == 1 and isinstance(x.ops[0], ast.NotEq) and norm(x.left) == norm(x.comparators[0]):
                        for who in (me, ot):
                            if _is_value_of(D, x.left, who):
                                covered.add(who)
                    if isinstance(x, ast.Call) and (norm(x.func) in ("math.isnan", "isnan") or (isinstance(x.func, ast.Attribute) and x.func.attr == "is_nan")):
                        tgt = x.args[0] if x.args else x.func.value  # type: ignore[union-attr]
                        for who in (me, ot):
                            if _is_value_of(D, tgt, who):
                                covered.add(who)
        ok = covered == {me, ot}
        rep.ob(rq, tm, "Literal.__gt__", "numeric arm: %s after a NaN test of both values" % D.expand(c), ok,
               "" if ok else "the values of two numeric literals are compared with > without a NaN test%s: Literal(float('nan')) is neither greater nor less than any number nor equal "
               "to it, so sorted() / ORDER BY give an order that depends on the input; Literal(Decimal(1)) > Literal(float('nan')) raises decimal.InvalidOperation"
               % (" of %s" % sorted({me, ot} - covered) if covered else ""), node=c)
    if n_q == 0:
        raise AnalysisError("Literal.__gt__: no value comparison in the numeric arm found")
    # (2) mirror
    lme, lot = _self_param(lt), _second_param(lt)
    calls = [c for c in own_nodes(lt) if isinstance(c, ast.Call) and isinstance(c.func, ast.Attribute) and c.func.attr == "__gt__" and len(c.args) == 1]
    cmps = [c for c in own_nodes(lt) if isinstance(c, ast.Compare) and len(c.ops) == 1 and isinstance(c.ops[0], ast.Gt)]
    pairs = [(norm(c.func.value), norm(c.args[0]), c) for c in calls] + [(norm(c.left), norm(c.comparators[0]), c) for c in cmps]
    if not pairs:
        raise AnalysisError("Literal.__lt__ does not delegate to __gt__: unmodelled")
    for a, b, c in pairs:
        ok = (a, b) == (lot, lme)
        rep.ob(rq, tm, "Literal.__lt__", "%s: operands swapped" % norm(c), ok,
               "a < b is b > a" if ok else "__lt__ is derived from %s.__gt__(%s) (with eq()) instead of the mirror image %s.__gt__(%s): for two literals that are not ordered by value "
               "(NaN; eq() is False both ways) a < b and b < a both hold" % (a, b, lot, lme), node=c)
    # (3) __le__ / __ge__
    le, ge = lm.get("__le__"), lm.get("__ge__")
    if le is None or ge is None:
        raise AnalysisError("Literal.__le__/__ge__ vanished")
    for name, fn in (("__le__", le), ("__ge__", ge)):
        s_, o_ = _self_param(fn), _second_param(fn)
        refl = any((isinstance(c, ast.Compare) and len(c.ops) == 1 and isinstance(c.ops[0], ast.Eq) and {norm(c.left), norm(c.comparators[0])} == {s_, o_})
                   or (isinstance(c, ast.Call) and norm(c.func) in (s_ + ".__eq__", o_ + ".__eq__"))
                   for r in own_nodes(fn) if isinstance(r, ast.Return) and r.value is not None for c in ast.walk(r.value))
        rep.ob(rq, tm, "Literal." + name, "accepts the same term (%s == %s)" % (s_, o_), refl,
               "" if refl else "%s falls back on value equality eq() only, which is not reflexive: Literal(float('nan')) %s Literal(float('nan')) is False for one and the same term"
               % (name, "<=" if name == "__le__" else ">="), node=fn)
    # the mirror image: every __lt__ becomes __gt__ and every __gt__ becomes __lt__ (both may occur: `< decides, else eq, else not >`)
    swapped = ast.unparse(ast.Module(body=le.body, type_ignores=[])).replace("__lt__", "\0").replace("__gt__", "__lt__").replace("\0", "__gt__")
    mirror = H_canon_body(swapped) == H_canon_body(ast.unparse(ast.Module(body=ge.body, type_ignores=[])))
    rep.ob(rq, tm, "Literal.__le__/__ge__", "same body up to __lt__/__gt__", mirror,
           "" if mirror else "__le__ and __ge__ decide differently: for some pair a <= b is not b >= a", node=le)


def H_canon_body(src: str) -> str:
    """alpha-canonical text of a function body (docstring dropped)"""
    tree = ast.parse(src)
    tree.body = [s for s in tree.body if not (isinstance(s, ast.Expr) and isinstance(s.value, ast.Constant) and isinstance(s.value.value, str))]
    order: dict[str, str] = {}
    for n in sorted((x for x in ast.walk(tree) if isinstance(x, ast.Name)), key=lambda x: (x.lineno, x.col_offset)):
        order.setdefault(n.id, "v%d" % len(order))
    for n in ast.walk(tree):
        if isinstance(n, ast.Name):
            n.id = order[n.id]
    return norm(ast.unparse(tree))


# ====================================================================== fourth layer: rules (r) - (t)
# Structural conditions behind F185 (from_n3 un-escaped in several passes), F186 (from_n3 took numbers by str methods)
# and F188 (graph digests hashed the language tag as written).  Helpers: vlib/h_c07.py (last section).

_run_base3 = run


def run(repo: Repo, rep: Report) -> None:  # noqa: F811
    _run_base3(repo, rep)
    rep.extra["explanation"] = rep.extra.get("explanation", "") + (
        " (r) text in which the backslash escapes itself is un-escaped in one left-to-right pass, never by str.replace() of escape sequences, "
        "and from_n3 hands Literal() the un-escaped text; (s) from_n3 takes a token for a number on a full match of the number grammar, which "
        "agrees with the Turtle parser's number patterns on a table of witnesses (signed exponent, ASCII digits only); (t) where term text is "
        "hashed into a graph digest, the n3() text of a literal that may carry a language tag is taken with the tag case-folded; (u) an escape pre-pass "
        "in front of a pyparsing grammar (which un-escapes strings again) consumes an escaped backslash as a unit."
    )
    _rule_r_unescape_one_pass(repo, rep)
    _rule_s_number_grammar(repo, rep)
    _rule_t_digest_text(repo, rep)
    _rule_u_prepass(repo, rep)


def _is_literal_ctor(c: ast.AST) -> bool:
    return isinstance(c, ast.Call) and ((isinstance(c.func, ast.Name) and c.func.id == "Literal") or (isinstance(c.func, ast.Attribute) and c.func.attr == "Literal"))


# ---------------------------------------------------------------------- (r)
def _unescapers(repo: Repo) -> dict:
    """(module name, function) -> (module, def, replace() calls on escape sequences, substitutions anchored at a backslash) for every
    function of the package that un-escapes text in one of these two ways"""
    cached = getattr(repo, "_c07_unescapers", None)
    if cached is None:
        cached = {}
        for name, mod in sorted(repo.modules.items()):
            for q, fn in mod.functions():
                esc = H.escape_sequence_replaces(fn)
                subs = H.backslash_led_subs(repo, mod, fn)
                if esc or subs:
                    cached[(name, q)] = (mod, fn, esc, subs)
        repo._c07_unescapers = cached  # type: ignore[attr-defined]
    return cached


def _rule_r_unescape_one_pass(repo: Repo, rep: Report) -> None:
    rid = "C07.r-unescape-in-one-pass"
    rep.rule(rid,
             "n3 text has several escapes and the backslash escapes itself (\\\\ \\\" \\n \\uXXXX ...): a function un-escapes it in ONE left-to-right pass (one regular-expression "
             "substitution anchored at the backslash, or a scanner).  x.replace(<backslash + character>, ...) handles one escape sequence wherever its two characters occur, also when "
             "the backslash is the second half of an escaped backslash, and every later pass (another replace, a codec) reads text the earlier ones have already rewritten: "
             "from_n3 read \"C:\\\\xampp\" (the n3() text of C:\\xampp) by .replace('\\\\x', '\\\\\\\\x') + unicode-escape and raised UnicodeDecodeError, and "
             "read the n3() text of the lexical form \\x41 (backslash, x41) back as \\A and that of a\\\"b<LF>c (backslash, quote; long-string form, where the quote is written raw) back as a\"b<LF>c.  And from_n3 hands Literal() the text between the quotes only after un-escaping it", floor=5)
    used = H.referenced_identifiers(repo)
    unescapers = _unescapers(repo)
    n_fn = 0
    for (name, q), (mod, fn, esc, subs) in sorted(unescapers.items(), key=lambda kv: kv[0]):
        if esc or subs:
            rep.analysed("%s:%s" % (mod.rel, q))
            if not esc:
                n_fn += 1
                rep.ob(rid, mod, q, "un-escapes by substitution anchored at the backslash, no replace() of escape sequences: %s" % " | ".join(sorted({p for _, p, _ in subs})), True, "one pass", node=fn)
                continue
            if fn.name not in used:
                # defined but neither called, imported, nor exported anywhere in the package: on no path that reads a term back
                rep.ob(rid, mod, q, "%d replace() calls on escape sequences, function not referenced in the package" % len(esc), True,
                       "dead code: not on a read-back path (as written it mis-reads an escaped backslash followed by a letter of an escape)", node=fn, vacuous=True)
                continue
            for c in esc:
                n_fn += 1
                a = c.args[0].value
                rep.ob(rid, mod, q, "replace(%r, %r)" % (a, c.args[1].value if isinstance(c.args[1], ast.Constant) else norm(c.args[1])), False,
                       "the escape sequence %r is replaced wherever these characters occur, whether or not its backslash is itself escaped, in a pass of its own: text with an escaped "
                       "backslash before %r is mis-read (from_n3 on the n3() text of 'C:\\xampp' raised UnicodeDecodeError, the n3() text of the lexical form \\x41 was read back as \\A)" % (a, a[1:]), node=c)
    if n_fn == 0:
        raise AnalysisError("no un-escaping function found in the package (compat.decodeUnicodeEscape changed shape)")
    # from_n3: the lexical form of the literal built from quoted text went through un-escaping
    um = repo.mod("rdflib.util")
    f = um.func("from_n3")
    rep.analysed("rdflib/util.py:from_n3")
    s = f.args.args[0].arg
    D = H.Defs(f)
    sites = []
    for c in own_nodes(f):
        if not _is_literal_ctor(c):
            continue
        quoted = any(pol and isinstance(e, ast.Call) and isinstance(e.func, ast.Attribute) and e.func.attr == "startswith" and norm(e.func.value) == s and e.args
                     and isinstance(e.args[0], ast.Constant) and isinstance(e.args[0].value, str) and e.args[0].value and set(e.args[0].value) <= set("\"'")
                     for e, pol in H.atoms(H.path_conds(um, f, c)))
        if quoted:
            sites.append(c)
    if not sites:
        raise AnalysisError("from_n3: no Literal(...) built under a test that the text starts with a quote")
    for c in sites:
        lex = c.args[0] if c.args else next((k.value for k in c.keywords if k.arg == "lexical_or_value"), None)
        if lex is None:
            raise AnalysisError("from_n3: %s has no lexical form argument" % norm(c))
        how = []
        for x in H.backward_slice(D, lex):
            for y in ast.walk(x):
                if not isinstance(y, ast.Call):
                    continue
                if isinstance(y.func, ast.Name):
                    root, where = H.root_callable(repo, um, y.func)
                    if where is not None and (where.name, root) in unescapers:
                        how.append("%s.%s()" % (where.name, root))
                elif isinstance(y.func, ast.Attribute) and y.func.attr == "replace" and y.args and isinstance(y.args[0], ast.Constant) \
                        and isinstance(y.args[0].value, str) and len(y.args[0].value) >= 2 and y.args[0].value[0] == "\\":
                    how.append("replace(%r, ...)" % y.args[0].value)
                elif isinstance(y.func, ast.Attribute) and y.func.attr == "decode" and any(
                        isinstance(a, ast.Constant) and isinstance(a.value, str) and a.value.lower().replace("_", "-") == "unicode-escape" for a in y.args):
                    how.append("decode('unicode-escape')")
                elif isinstance(y.func, ast.Attribute) and y.func.attr in ("sub", "subn"):
                    how.append(norm(y.func))
        rep.ob(rid, um, "from_n3", "quoted text -> Literal(): un-escaped by %s" % (", ".join(sorted(set(how))) or "nothing"), bool(how),
               "" if how else "the text between the quotes is handed to Literal() as written: from_n3('\"a\\\\nb\"') (the n3() text of a literal with a line feed) "
               "is read with a backslash and an n", node=c)


# ---------------------------------------------------------------------- (s)
# a token -> is it a number of the Turtle / N3 / SPARQL grammars (INTEGER | DECIMAL | DOUBLE)?  with the reason it is in the table
_NUMBER_WITNESSES: list[tuple[str, bool, str]] = [
    ("1e+00", True, "what Literal(1.0).n3() writes: the exponent of '%e' is signed"),
    ("-1.5e-03", True, "what Literal(-0.0015).n3() writes"),
    ("1.000000E+00", True, "DOUBLE: upper-case exponent marker, signed exponent"),
    ("+.5e-3", True, "DOUBLE: '.' [0-9]+ EXPONENT with a leading sign"),
    ("+1", True, "INTEGER: [+-]? [0-9]+"),
    ("-7", True, "INTEGER"),
    ("42", True, "INTEGER"),
    ("-0.5", True, "DECIMAL"),
    (".5", True, "DECIMAL: [0-9]* '.' [0-9]+"),
    ("\u0663", False, "ARABIC-INDIC DIGIT THREE: str.isnumeric()/isdigit() and int() take it, the grammar does not - it is a blank node label for from_n3"),
    ("\uff11\uff12", False, "FULLWIDTH digits"),
    ("1e\u0968", False, "DEVANAGARI digit in the exponent"),
    ("\u00bd", False, "VULGAR FRACTION ONE HALF: str.isnumeric() is True, int() raises ValueError"),
    ("\u00b2", False, "SUPERSCRIPT TWO: str.isdigit() is True, int() raises ValueError"),
    ("e1", False, "no mantissa"),
    ("1e", False, "no exponent digits"),
    ("1e+", False, "no exponent digits"),
    ("1-", False, "sign after the digits"),
    ("--1", False, "two signs"),
    ("1.2.3", False, "two points"),
    ("1e1e1", False, "two exponents"),
    ("1_000", False, "int() takes it, the grammar does not"),
    ("+", False, "a sign alone"),
    (".", False, "a point alone"),
    ("", False, "empty"),
    (" 1", False, "white space"),
    ("1\n", False, "trailing line feed: `$` and match() let it through, int() strips it"),
]


def _witness_mismatches(accepts) -> list[str]:
    bad = []
    for w, want, why in _NUMBER_WITNESSES:
        got = bool(accepts(w))
        if got != want:
            bad.append("%r is %s (%s)" % (w, "taken for a number" if got else "not taken for a number", why))
    return bad


def _full_match_guard(repo: Repo, mod, e: ast.AST, pol: bool, subject: str) -> Optional[tuple[str, int]]:
    """(pattern, flags) when the atom (e, pol) says: the whole of <subject> matches a constant regular expression"""
    if isinstance(e, ast.Compare) and len(e.ops) == 1 and isinstance(e.comparators[0], ast.Constant) and e.comparators[0].value is None:
        positive = isinstance(e.ops[0], (ast.IsNot, ast.NotEq))
        if not isinstance(e.ops[0], (ast.Is, ast.IsNot, ast.Eq, ast.NotEq)) or positive != pol:
            return None
        e, pol = e.left, True
    if not (pol and isinstance(e, ast.Call) and isinstance(e.func, ast.Attribute) and e.func.attr in ("fullmatch", "match")):
        return None
    if isinstance(e.func.value, ast.Name) and e.func.value.id == "re" and len(e.args) >= 2:
        txt = H.fold_str(repo, mod, e.args[0])
        fl = H._re_flags(e.args[2] if len(e.args) > 2 else next((k.value for k in e.keywords if k.arg == "flags"), None))
        pat = (txt, fl or 0) if txt is not None else H.const_pattern(repo, mod, e.args[0])
        subj = e.args[1]
    else:
        pat = H.const_pattern(repo, mod, e.func.value)
        subj = e.args[0] if e.args else None
    if subj is None or norm(subj) != subject:
        return None
    if pat is None:
        raise AnalysisError("%s: the pattern is not a constant of the module - unmodelled" % norm(e))
    if e.func.attr == "match" and not H.pattern_ends_at_string_end(pat[0], pat[1]):
        return None
    return pat


def _rule_s_number_grammar(repo: Repo, rep: Report) -> None:
    import re as _re

    rid = "C07.s-numeric-shorthand-by-grammar"
    rep.rule(rid,
             "util.from_n3 builds a numeric literal (Literal(..., datatype=XSD.integer/decimal/double)) from its text only under a FULL match of the text against a constant "
             "regular expression, and that expression classifies a table of witnesses as the number grammar of Turtle/SPARQL does - as do the Turtle parser's own number patterns "
             "(the sibling reader): the signed exponent n3() writes (1e+00, -1.5e-03) and a leading + are numbers; non-ASCII digits, fractions and superscripts (which str.isnumeric()/"
             "isdigit() and int() take), 'e1', '1-' are not.  from_n3('1e+00') was a blank node, from_n3('\u0663') the integer 3", floor=5)
    um = repo.mod("rdflib.util")
    f = um.func("from_n3")
    rep.analysed("rdflib/util.py:from_n3")
    s = f.args.args[0].arg
    D = H.Defs(f)
    sites = [c for c in own_nodes(f) if _is_literal_ctor(c) and any(k.arg == "datatype" and norm(k.value).rsplit(".", 1)[-1] in ("integer", "decimal", "double", "float")
                                                                    and "XSD" in norm(k.value) for k in c.keywords)]
    if not sites:
        raise AnalysisError("from_n3: no Literal(..., datatype=XSD.<numeric>) construction found")
    pats: dict[tuple[str, int], ast.AST] = {}
    for c in sites:
        at = H.atoms(H.path_conds(um, f, c))
        found = None
        for e, pol in at:
            e2 = D.resolve(e) if isinstance(e, ast.Name) else e
            g = _full_match_guard(repo, um, e2, pol, s)
            if g is not None:
                found = g
        # the tests that depend on the text, for the message
        shown = "; ".join(("" if pol else "not ") + D.expand(e) for e, pol in at if pol and any(isinstance(x, ast.Name) and x.id == s for x in ast.walk(e)))
        rep.ob(rid, um, "from_n3", "%s under a full match of the number grammar" % norm(c), found is not None,
               "" if found is not None else "a numeric literal is built when `%s` holds, which is not a full match of the text against the number grammar: a test assembled from str "
               "methods misses the signed exponent that n3() writes (from_n3('1e+00'), from_n3('-1.5e-03') are blank nodes) or admits what is not a number "
               "(str.isnumeric()/isdigit() take '\u0663' and '\u00bd': the integer 3 for a blank node label, ValueError)" % shown[:200], node=c)
        if found is not None:
            pats.setdefault(found, c)
    for (txt, fl), c in sorted(pats.items(), key=lambda kv: kv[0]):
        try:
            rx = _re.compile(txt, fl)
        except _re.error as ex:
            raise AnalysisError("from_n3: number pattern %r does not compile: %s" % (txt, ex)) from None
        bad = _witness_mismatches(lambda w: rx.fullmatch(w) is not None)
        rep.ob(rid, um, "from_n3", "number pattern %s classifies the %d witnesses as the grammar does" % (txt, len(_NUMBER_WITNESSES)), not bad,
               "" if not bad else "for from_n3, " + "; ".join(bad[:4]), node=c)
    # the sibling reader: the patterns the Turtle-family parser tries at a character that may start a number
    nm = repo.mod("rdflib.plugins.parsers.notation3")
    nf = nm.func("SinkParser.nodeOrLiteral")
    rep.analysed("rdflib/plugins/parsers/notation3.py:SinkParser.nodeOrLiteral")
    tpats: dict[str, tuple[str, int]] = {}
    for c in own_nodes(nf):
        if isinstance(c, ast.Call) and isinstance(c.func, ast.Attribute) and c.func.attr == "match" and isinstance(c.func.value, ast.Name) and len(c.args) == 2:
            if not any(pol and any(isinstance(x, ast.Name) and x.id == "numberCharsPlus" for x in ast.walk(e)) for e, pol in H.atoms(H.path_conds(nm, nf, c))):
                continue
            p = H.const_pattern(repo, nm, c.func.value)
            if p is None:
                raise AnalysisError("SinkParser.nodeOrLiteral: %s is not a constant pattern" % norm(c.func.value))
            tpats[c.func.value.id] = p
    if len(tpats) < 3:
        raise AnalysisError("SinkParser.nodeOrLiteral: the integer / decimal / double patterns not found (%s)" % sorted(tpats))
    trx = [_re.compile(t, fl) for t, fl in tpats.values()]
    bad = _witness_mismatches(lambda w: any(r.fullmatch(w) is not None for r in trx))
    rep.ob(rid, nm, "SinkParser.nodeOrLiteral", "number patterns %s classify the witnesses as the grammar does" % sorted(tpats), not bad,
           "" if not bad else "for the Turtle parser, " + "; ".join(bad[:4]), node=nf)


# ---------------------------------------------------------------------- (t)
def _implied_by_tagged_literal(typed, e: ast.AST, who: str) -> bool:
    """e holds whenever <who> is a literal with a language tag: isinstance(who, <a class Literal is>), who.language, who.language is not None"""
    if isinstance(e, ast.Call) and isinstance(e.func, ast.Name) and e.func.id == "isinstance" and len(e.args) == 2 and norm(e.args[0]) == who:
        cl = e.args[1].elts if isinstance(e.args[1], ast.Tuple) else [e.args[1]]
        supers = {m.rsplit(".", 1)[-1] for m in typed.mro("rdflib.term.Literal")}
        return any(norm(c).rsplit(".", 1)[-1] in supers for c in cl)
    if isinstance(e, ast.Compare) and len(e.ops) == 1 and isinstance(e.ops[0], (ast.IsNot, ast.NotEq)) and isinstance(e.comparators[0], ast.Constant) \
            and e.comparators[0].value in (None, ""):
        e = e.left
    return isinstance(e, ast.Attribute) and e.attr in ("language", "_language") and norm(e.value) == who


def _rule_t_digest_text(repo: Repo, rep: Report) -> None:
    rid = "C07.t-digest-text-folds-language-case"
    rep.rule(rid,
             "in a module that hashes term text into a digest (it imports hashlib: rdflib/compare.py), x.n3() of a term that may be a literal with a language tag is taken only "
             "(a) of a Literal(...) rebuilt with the tag case-folded, or (b) where the branch conditions exclude `isinstance(x, Literal) and x.language`: Literal equality and hash "
             "ignore the case of the tag, n3() writes it as given, so the text is not a function of the term - two graphs that are equal triple by triple (\"chat\"@en vs "
             "\"chat\"@EN) got different digests and isomorphic() said False", floor=2)
    typed = repo.typed
    lit_mro = set(typed.mro("rdflib.term.Literal"))
    if "rdflib.term.Node" not in lit_mro:
        raise AnalysisError("typed facts: rdflib.term.Literal has no MRO")
    n = 0
    for name, mod in sorted(repo.modules.items()):
        if not any((isinstance(st, ast.Import) and any(a.name == "hashlib" for a in st.names)) or (isinstance(st, ast.ImportFrom) and st.module == "hashlib")
                   for st in ast.walk(mod.tree)):
            continue
        for c in ast.walk(mod.tree):
            if not (isinstance(c, ast.Call) and isinstance(c.func, ast.Attribute) and c.func.attr == "n3"):
                continue
            recv = c.func.value
            tf = typed.type_of(name, recv)
            if tf is not None and not tf.any and tf.items and all(i not in lit_mro and "rdflib.term.Literal" not in typed.mro(i) for i in tf.items if i != "builtins.None") \
                    and any(i != "builtins.None" for i in tf.items):
                continue  # an IRI, a blank node, a variable: no language tag
            fn = H.enclosing_function(mod, c)
            q = mod.qual_of(c) or "<module>"
            n += 1
            rep.analysed("%s:%s" % (mod.rel, q))
            if _is_literal_ctor(recv):
                lang = recv.args[1] if len(recv.args) > 1 else next((k.value for k in recv.keywords if k.arg == "lang"), None)
                D = H.Defs(fn) if isinstance(fn, (ast.FunctionDef, ast.AsyncFunctionDef)) else None
                if isinstance(lang, ast.Name) and D is not None:
                    lang = D.resolve(lang)
                folded = lang is None or (isinstance(lang, ast.Constant) and lang.value is None) or (
                    isinstance(lang, ast.Call) and isinstance(lang.func, ast.Attribute) and lang.func.attr in ("lower", "casefold") and not lang.args)
                rep.ob(rid, mod, q, "%s: n3() of a literal rebuilt with the tag case-folded" % norm(c), folded,
                       "" if folded else "the literal is rebuilt with the language tag as written (%s): \"chat\"@en and \"chat\"@EN, which are equal, give different text" % norm(lang), node=c)
                continue
            ok = False
            if isinstance(recv, ast.Name):
                for e, pol in H.atoms(H.branch_facts(mod, fn, c)):
                    if pol:
                        continue
                    conj = e.values if isinstance(e, ast.BoolOp) and isinstance(e.op, ast.And) else [e]
                    if all(_implied_by_tagged_literal(typed, x, recv.id) for x in conj):
                        ok = True
            rep.ob(rid, mod, q, "%s: the term cannot be a literal with a language tag here" % norm(c), ok,
                   "" if ok else "the n3() text of a term that may be a literal with a language tag goes into the digest with the tag as written: Literal('chat', lang='en') == "
                   "Literal('chat', lang='EN'), but their texts differ, so two equal graphs hash differently (to_isomorphic(g1) != to_isomorphic(g2), isomorphic() is False)", node=c)
    if n == 0:
        raise AnalysisError("no n3() call on a possibly-literal term in a digest module (rdflib/compare.py changed shape)")


# ---------------------------------------------------------------------- (u)
def _rule_u_prepass(repo: Repo, rep: Report) -> None:
    import re as _re

    rid = "C07.u-escape-prepass-keeps-escaped-backslash"
    rep.rule(rid,
             "text that a function un-escapes by a substitution anchored at the backslash and THEN hands to a pyparsing grammar (X.parse_string(...)) is un-escaped a second time by "
             "the grammar's string terminals (ECHAR), so the first pass must consume an escaped backslash as a unit (its pattern matches two backslashes, as the pattern of the TSV "
             "result reader does): otherwise the u after an escaped backslash is taken for a codepoint escape.  " +
             r"""The literal whose lexical form is \u0041 (backslash, u0041) has the n3() text "\\u0041"; the pre-pass turns that into "\A" (ParseException), and "\\u0022" is """ +
             r"""read back as the literal whose lexical form is a double quote""", floor=3)
    unescapers = _unescapers(repo)
    n = 0
    for name, mod in sorted(repo.modules.items()):
        for q, fn in mod.functions():
            calls = [c for c in own_nodes(fn) if isinstance(c, ast.Call) and isinstance(c.func, ast.Attribute) and c.func.attr in ("parse_string", "parseString") and c.args]
            if not calls:
                continue
            D = H.Defs(fn)
            for c in calls:
                for x in H.backward_slice(D, c.args[0]):
                    for y in ast.walk(x):
                        if not (isinstance(y, ast.Call) and isinstance(y.func, ast.Name)):
                            continue
                        root, where = H.root_callable(repo, mod, y.func)
                        ent = unescapers.get((where.name, root)) if where is not None else None
                        if ent is None or not ent[3]:
                            continue
                        n += 1
                        rep.analysed("%s:%s" % (mod.rel, q), "%s:%s" % (ent[0].rel, root))
                        bad = [txt for _, txt, fl in ent[3] if _re.compile(txt, fl).fullmatch("\\\\") is None]
                        rep.ob(rid, mod, q, "%s(...) -> %s: the pre-pass consumes an escaped backslash" % (root, norm(c.func)), not bad,
                               "" if not bad else ("%s substitutes %s wherever it occurs, also right after an escaped backslash, and the grammar then un-escapes the result again: "
                                                   % (root, " | ".join(bad))) +
                               r"""the literal with the lexical form \u0041 (backslash, u0041) is written "\\u0041" by n3(), which becomes "\A" (ParseException); "\\u0022" is read """ +
                               r"""back as the literal with the lexical form " (a double quote)""", node=y)
    if n == 0:
        raise AnalysisError("no escape pre-pass in front of a parse_string() call found (sparql.parser.parseQuery changed shape)")
